#!/bin/bash
# usage: verify_r3.sh Cxx
id=$1
out=/tmp/r13/$id/out
demo=$(ls $out/*.rs | head -1)
name=$(basename $demo .rs)
SEED_SKIP_CHECKS=1 SEED_OUT=$out SEED_PATCH=$out/patch.diff /verif/bin/verify_seed $id-13 $demo tests/$name.rs -p rssl --test $name > /tmp/r13/$id/verify.log 2>&1
tail -3 /tmp/r13/$id/verify.log | tr '\n' ' '; echo " [$id]"
