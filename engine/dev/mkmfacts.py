import sys, os, glob, subprocess, shutil, concurrent.futures
sys.path.insert(0,'/verif/engine/rules')
import facts as F
def one(patch):
    s=os.path.basename(patch)[:-5]
    out='/tmp/mfacts/%s'%s
    if os.path.exists(out+'/.done'): return out
    shutil.rmtree(out,ignore_errors=True); os.makedirs(out)
    repo=out+'/repo'; os.makedirs(repo)
    subprocess.check_call("git -C /repo archive HEAD | tar -x -C %s"%repo, shell=True)
    p=subprocess.run(["patch","-p1","-s","-i",patch],cwd=repo,stdout=subprocess.PIPE,stderr=subprocess.STDOUT,text=True)
    if p.returncode!=0: return out+' PATCHFAIL'
    F.extract(repo=repo,out_dir=out+'/facts')
    shutil.rmtree(repo,ignore_errors=True)
    open(out+'/.done','w').write('ok')
    return out
patches=sorted(glob.glob('/verif/engine/selftest/mutants/*.diff'))
with concurrent.futures.ThreadPoolExecutor(max_workers=6) as ex:
    for r in ex.map(one,patches): print(r)
