#!/bin/bash
# verify a round-13 seed, drop its worktree, build its facts, run its own property
id=$1
/tmp/verify_r13.sh $id
git -C /repo worktree remove --force /tmp/r13/$id/wt 2>/dev/null; rm -rf /tmp/r13/$id/target
python3 /tmp/mksfacts.py 2>&1 | grep "$id-13"
/verif/bin/check $id --facts /tmp/sfacts/$id-13/facts 2>&1 | grep -a "  FAIL" | cut -c1-280 | head -4
echo "--- end $id"
