// facts-driver: a rustc_private driver that dumps, for every crate it is asked
// to compile, a JSON description of the type-checked program:
//   * ADTs (enums/structs with variants and fields)
//   * every body owner (fn, assoc fn, closure, const, static) with
//       - its THIR as a nested tree (resolved paths, patterns, literals)
//       - its MIR (opt-level 0) as blocks/statements/terminators with resolved callees
// It is injected with RUSTC_WORKSPACE_WRAPPER; it drops argv[1] (the real rustc).
// Output directory: $FACTS_OUT (one file per crate, one write per process).
#![feature(rustc_private)]
#![allow(rustc::usage_of_ty_tykind)]

extern crate rustc_abi;
extern crate rustc_ast;
extern crate rustc_driver;
extern crate rustc_hir;
extern crate rustc_interface;
extern crate rustc_middle;
extern crate rustc_span;

use rustc_hir::def::DefKind;
use rustc_hir::def_id::{DefId, LocalDefId};
use rustc_middle::mir;
use rustc_middle::thir::{self, ExprId, ExprKind, Pat, PatKind, StmtKind, Thir};
use rustc_middle::ty::print::{with_no_trimmed_paths, with_no_visible_paths, with_resolve_crate_name};
use rustc_middle::ty::{self, Ty, TyCtxt};
use rustc_span::Span;
use std::fmt::Write as _;

// ---------------------------------------------------------------- JSON ----

enum J {
    Null,
    Bool(bool),
    Num(i128),
    Str(String),
    Arr(Vec<J>),
    Obj(Vec<(&'static str, J)>),
}

fn s<T: Into<String>>(x: T) -> J {
    J::Str(x.into())
}
fn n<T: TryInto<i128>>(x: T) -> J {
    match x.try_into() {
        Ok(v) => J::Num(v),
        Err(_) => J::Null,
    }
}

fn esc(out: &mut String, st: &str) {
    out.push('"');
    for c in st.chars() {
        match c {
            '"' => out.push_str("\\\""),
            '\\' => out.push_str("\\\\"),
            '\n' => out.push_str("\\n"),
            '\r' => out.push_str("\\r"),
            '\t' => out.push_str("\\t"),
            c if (c as u32) < 0x20 => {
                let _ = write!(out, "\\u{:04x}", c as u32);
            }
            c => out.push(c),
        }
    }
    out.push('"');
}

impl J {
    fn write(&self, out: &mut String) {
        match self {
            J::Null => out.push_str("null"),
            J::Bool(b) => out.push_str(if *b { "true" } else { "false" }),
            J::Num(v) => {
                let _ = write!(out, "{}", v);
            }
            J::Str(st) => esc(out, st),
            J::Arr(v) => {
                out.push('[');
                for (i, x) in v.iter().enumerate() {
                    if i > 0 {
                        out.push(',');
                    }
                    x.write(out);
                }
                out.push(']');
            }
            J::Obj(v) => {
                out.push('{');
                let mut first = true;
                for (k, x) in v.iter() {
                    if let J::Null = x {
                        continue;
                    }
                    if !first {
                        out.push(',');
                    }
                    first = false;
                    esc(out, k);
                    out.push(':');
                    x.write(out);
                }
                out.push('}');
            }
        }
    }
}

// ------------------------------------------------------------- helpers ----

struct Cx<'tcx> {
    tcx: TyCtxt<'tcx>,
}

impl<'tcx> Cx<'tcx> {
    fn path(&self, did: DefId) -> String {
        with_resolve_crate_name!(with_no_visible_paths!(with_no_trimmed_paths!(self.tcx.def_path_str(did))))
    }
    fn ty(&self, t: Ty<'tcx>) -> String {
        with_resolve_crate_name!(with_no_visible_paths!(with_no_trimmed_paths!(t.to_string())))
    }
    fn line(&self, sp: Span) -> J {
        if sp.is_dummy() {
            return J::Null;
        }
        let sp = sp.source_callsite();
        let loc = self.tcx.sess.source_map().lookup_char_pos(sp.lo());
        n(loc.line as i128)
    }
    fn file_lines(&self, sp: Span) -> (String, usize, usize) {
        let sm = self.tcx.sess.source_map();
        let sp = sp.source_callsite();
        let lo = sm.lookup_char_pos(sp.lo());
        let hi = sm.lookup_char_pos(sp.hi());
        let name = match &lo.file.name {
            rustc_span::FileName::Real(r) => match r.local_path() {
                Some(p) => p.to_string_lossy().to_string(),
                None => format!("{:?}", r),
            },
            other => format!("{:?}", other),
        };
        (name, lo.line, hi.line)
    }
    /// names of the macros this span comes from, innermost first ("panic<todo")
    fn mac(&self, sp: Span) -> J {
        if !sp.from_expansion() {
            return J::Null;
        }
        let mut names = Vec::new();
        for ed in sp.macro_backtrace() {
            match ed.kind {
                rustc_span::ExpnKind::Macro(_, name) => names.push(name.to_string()),
                rustc_span::ExpnKind::Desugaring(d) => names.push(format!("desugar:{:?}", d)),
                _ => {}
            }
        }
        if names.is_empty() { J::Null } else { s(names.join("<")) }
    }

    /// For a FnDef type: (generic path, resolved path if different / resolvable)
    fn fn_ref(&self, owner: LocalDefId, did: DefId, args: ty::GenericArgsRef<'tcx>) -> Vec<(&'static str, J)> {
        let mut v = vec![("fn", s(self.path(did)))];
        // generic args that are types, for table rules (e.g. Vec::<T>::push)
        let targs: Vec<J> = args.iter().filter_map(|a| a.as_type()).map(|t| s(self.ty(t))).collect();
        if !targs.is_empty() {
            v.push(("targs", J::Arr(targs)));
        }
        let typing_env = ty::TypingEnv::post_analysis(self.tcx, owner.to_def_id());
        if self.tcx.trait_of_assoc(did).is_some() {
            let has_params = args.iter().any(|a| {
                use rustc_middle::ty::TypeVisitableExt;
                a.has_param() || a.has_infer() || a.has_aliases()
            });
            if !has_params {
                if let Ok(Some(inst)) = ty::Instance::try_resolve(self.tcx, typing_env, did, args) {
                    let rd = inst.def_id();
                    if rd != did {
                        v.push(("rfn", s(self.path(rd))));
                    }
                }
            }
            if let Some(tr) = self.tcx.trait_of_assoc(did) {
                v.push(("trait", s(self.path(tr))));
            }
            if let Some(first) = args.iter().next().and_then(|a| a.as_type()) {
                v.push(("self", s(self.ty(first))));
            }
        }
        v
    }
}

// ---------------------------------------------------------------- THIR ----

struct ThirDump<'a, 'tcx> {
    cx: &'a Cx<'tcx>,
    thir: &'a Thir<'tcx>,
    owner: LocalDefId,
}

impl<'a, 'tcx> ThirDump<'a, 'tcx> {
    fn var_name(&self, id: thir::LocalVarId) -> (String, u32) {
        (self.cx.tcx.hir_name(id.0).to_string(), id.0.local_id.as_u32())
    }

    fn valtree(&self, v: ty::Value<'tcx>) -> J {
        if let Some(si) = v.try_to_leaf() {
            let t = v.ty;
            if t.is_bool() {
                return J::Bool(si.try_to_bool().unwrap_or(false));
            }
            if t.is_char() {
                let c = char::from_u32(si.to_bits_unchecked() as u32).unwrap_or('?');
                return s(c.to_string());
            }
            if let ty::Int(_) = t.kind() {
                let size = si.size();
                return n(si.to_int(size));
            }
            return n(si.to_bits_unchecked() as i128);
        }
        if let Some(bytes) = v.try_to_raw_bytes(self.cx.tcx) {
            return s(String::from_utf8_lossy(bytes).to_string());
        }
        if matches!(v.ty.kind(), ty::Str | ty::Slice(_)) {
            if let Some(branch) = v.valtree.try_to_branch() {
                let mut bytes = Vec::new();
                let mut ok = true;
                for c in branch.iter() {
                    match c.try_to_leaf() {
                        Some(leaf) => bytes.push(leaf.to_bits_unchecked() as u8),
                        None => ok = false,
                    }
                }
                if ok {
                    return s(String::from_utf8_lossy(&bytes).to_string());
                }
            }
        }
        s(format!("{}", v))
    }

    fn pat(&self, p: &Pat<'tcx>) -> J {
        let mut o: Vec<(&'static str, J)> = Vec::new();
        match &p.kind {
            PatKind::Missing => o.push(("k", s("Missing"))),
            PatKind::Wild => o.push(("k", s("Wild"))),
            PatKind::Binding { name, var, subpattern, .. } => {
                o.push(("k", s("Bind")));
                o.push(("name", s(name.to_string())));
                o.push(("id", n(var.0.local_id.as_u32())));
                o.push(("ty", s(self.cx.ty(p.ty))));
                if let Some(sp) = subpattern {
                    o.push(("sub", self.pat(sp)));
                }
            }
            PatKind::Variant { adt_def, variant_index, subpatterns, .. } => {
                let vdef = adt_def.variant(*variant_index);
                o.push(("k", s("Variant")));
                o.push(("adt", s(self.cx.path(adt_def.did()))));
                o.push(("variant", s(vdef.name.to_string())));
                let subs = subpatterns
                    .iter()
                    .map(|fp| {
                        J::Obj(vec![
                            ("f", s(vdef.fields[fp.field].name.to_string())),
                            ("p", self.pat(&fp.pattern)),
                        ])
                    })
                    .collect();
                o.push(("subs", J::Arr(subs)));
            }
            PatKind::Leaf { subpatterns } => {
                o.push(("k", s("Leaf")));
                o.push(("ty", s(self.cx.ty(p.ty))));
                let subs = subpatterns
                    .iter()
                    .map(|fp| {
                        let fname = match p.ty.kind() {
                            ty::Adt(ad, _) if ad.is_struct() => ad.non_enum_variant().fields[fp.field].name.to_string(),
                            _ => fp.field.as_u32().to_string(),
                        };
                        J::Obj(vec![("f", s(fname)), ("p", self.pat(&fp.pattern))])
                    })
                    .collect();
                o.push(("subs", J::Arr(subs)));
            }
            PatKind::Deref { subpattern, .. } => return self.pat(subpattern),
            PatKind::DerefPattern { subpattern, .. } => return self.pat(subpattern),
            PatKind::Constant { value } => {
                o.push(("k", s("Const")));
                o.push(("v", self.valtree(*value)));
                o.push(("ty", s(self.cx.ty(p.ty))));
                if let Some(extra) = &p.extra {
                    if let Some(d) = extra.expanded_const {
                        o.push(("named", s(self.cx.path(d))));
                    }
                }
            }
            PatKind::Range(r) => {
                o.push(("k", s("Range")));
                let b = |x: &thir::PatRangeBoundary<'tcx>| match x {
                    thir::PatRangeBoundary::Finite(v) => self.valtree(ty::Value { ty: r.ty, valtree: *v }),
                    thir::PatRangeBoundary::NegInfinity => s("-inf"),
                    thir::PatRangeBoundary::PosInfinity => s("+inf"),
                };
                o.push(("lo", b(&r.lo)));
                o.push(("hi", b(&r.hi)));
                o.push(("incl", J::Bool(matches!(r.end, rustc_hir::RangeEnd::Included))));
            }
            PatKind::Slice { prefix, slice, suffix } | PatKind::Array { prefix, slice, suffix } => {
                o.push(("k", s("Slice")));
                o.push(("prefix", J::Arr(prefix.iter().map(|x| self.pat(x)).collect())));
                if let Some(sl) = slice {
                    o.push(("slice", self.pat(sl)));
                }
                o.push(("suffix", J::Arr(suffix.iter().map(|x| self.pat(x)).collect())));
            }
            PatKind::Or { pats } => {
                o.push(("k", s("Or")));
                o.push(("pats", J::Arr(pats.iter().map(|x| self.pat(x)).collect())));
            }
            PatKind::Guard { subpattern, condition } => {
                o.push(("k", s("Guard")));
                o.push(("sub", self.pat(subpattern)));
                o.push(("cond", self.expr(*condition)));
            }
            PatKind::Never => o.push(("k", s("Never"))),
            PatKind::Error(_) => o.push(("k", s("Error"))),
        }
        J::Obj(o)
    }

    fn exprs(&self, ids: &[ExprId]) -> J {
        J::Arr(ids.iter().map(|e| self.expr(*e)).collect())
    }

    fn block(&self, b: thir::BlockId) -> J {
        let blk = &self.thir[b];
        let mut stmts = Vec::new();
        for sid in blk.stmts.iter() {
            match &self.thir[*sid].kind {
                StmtKind::Expr { expr, .. } => stmts.push(self.expr(*expr)),
                StmtKind::Let { pattern, initializer, else_block, span, .. } => {
                    let mut o = vec![("k", s("LetStmt")), ("ln", self.cx.line(*span)), ("pat", self.pat(pattern))];
                    if let Some(i) = initializer {
                        o.push(("init", self.expr(*i)));
                    }
                    if let Some(eb) = else_block {
                        o.push(("else", self.block(*eb)));
                    }
                    stmts.push(J::Obj(o));
                }
            }
        }
        let mut o = vec![("k", s("Block")), ("stmts", J::Arr(stmts))];
        if let Some(e) = blk.expr {
            o.push(("expr", self.expr(e)));
        }
        J::Obj(o)
    }

    fn field_name(&self, base_ty: Ty<'tcx>, variant: rustc_abi::VariantIdx, f: rustc_abi::FieldIdx) -> String {
        match base_ty.kind() {
            ty::Adt(ad, _) => ad.variant(variant).fields[f].name.to_string(),
            _ => f.as_u32().to_string(),
        }
    }

    fn expr(&self, id: ExprId) -> J {
        let e = &self.thir[id];
        let mut o: Vec<(&'static str, J)> = Vec::new();
        let k = |o: &mut Vec<(&'static str, J)>, name: &str| o.push(("k", s(name)));
        match &e.kind {
            ExprKind::Scope { value, region_scope, .. } => {
                // the scope id is what `break 'label` / `continue 'label` name: keep it on loops
                let mut j = self.expr(*value);
                if let J::Obj(ref mut fields) = j {
                    let is_loop = fields.iter().any(|(k_, v_)| *k_ == "k" && matches!(v_, J::Str(t) if t == "Loop"));
                    if is_loop && !fields.iter().any(|(k_, _)| *k_ == "scope") {
                        fields.push(("scope", n(region_scope.local_id.as_u32())));
                    }
                }
                return j;
            }
            ExprKind::Use { source } | ExprKind::NeverToAny { source } => return self.expr(*source),
            ExprKind::PlaceTypeAscription { source, .. } | ExprKind::ValueTypeAscription { source, .. } => {
                return self.expr(*source);
            }
            ExprKind::If { cond, then, else_opt, .. } => {
                k(&mut o, "If");
                o.push(("cond", self.expr(*cond)));
                o.push(("then", self.expr(*then)));
                if let Some(x) = else_opt {
                    o.push(("else", self.expr(*x)));
                }
                o.push(("mac", self.cx.mac(e.span)));
            }
            ExprKind::Call { fun, args, from_hir_call, fn_span, .. } => {
                k(&mut o, "Call");
                let fty = self.thir[*fun].ty;
                if let ty::FnDef(did, ga) = fty.kind() {
                    o.extend(self.cx.fn_ref(self.owner, *did, ga));
                } else {
                    o.push(("fexpr", self.expr(*fun)));
                }
                o.push(("args", self.exprs(args)));
                if !*from_hir_call {
                    o.push(("op", J::Bool(true)));
                }
                o.push(("mac", self.cx.mac(*fn_span)));
            }
            ExprKind::ByUse { expr, .. } => return self.expr(*expr),
            ExprKind::Deref { arg } => {
                k(&mut o, "Deref");
                o.push(("e", self.expr(*arg)));
            }
            ExprKind::Binary { op, lhs, rhs } => {
                k(&mut o, "Binary");
                o.push(("op", s(format!("{:?}", op))));
                o.push(("l", self.expr(*lhs)));
                o.push(("r", self.expr(*rhs)));
            }
            ExprKind::LogicalOp { op, lhs, rhs } => {
                k(&mut o, "Logical");
                o.push(("op", s(format!("{:?}", op))));
                o.push(("l", self.expr(*lhs)));
                o.push(("r", self.expr(*rhs)));
            }
            ExprKind::Unary { op, arg } => {
                k(&mut o, "Unary");
                o.push(("op", s(format!("{:?}", op))));
                o.push(("e", self.expr(*arg)));
            }
            ExprKind::Cast { source } => {
                k(&mut o, "Cast");
                o.push(("e", self.expr(*source)));
                o.push(("from", s(self.cx.ty(self.thir[*source].ty))));
            }
            ExprKind::PointerCoercion { source, .. } => {
                k(&mut o, "Coerce");
                o.push(("e", self.expr(*source)));
            }
            ExprKind::Loop { body } => {
                k(&mut o, "Loop");
                o.push(("body", self.expr(*body)));
                o.push(("mac", self.cx.mac(e.span)));
            }
            ExprKind::LoopMatch { .. } => k(&mut o, "LoopMatch"),
            ExprKind::Let { expr, pat } => {
                k(&mut o, "Let");
                o.push(("pat", self.pat(pat)));
                o.push(("e", self.expr(*expr)));
            }
            ExprKind::Match { scrutinee, arms, match_source } => {
                k(&mut o, "Match");
                o.push(("src", s(format!("{:?}", match_source))));
                o.push(("scrut", self.expr(*scrutinee)));
                let arms_j = arms
                    .iter()
                    .map(|a| {
                        let arm = &self.thir[*a];
                        let mut ao = vec![("pat", self.pat(&arm.pattern)), ("ln", self.cx.line(arm.span))];
                        if let Some(g) = arm.guard {
                            ao.push(("guard", self.expr(g)));
                        }
                        ao.push(("body", self.expr(arm.body)));
                        J::Obj(ao)
                    })
                    .collect();
                o.push(("arms", J::Arr(arms_j)));
                o.push(("mac", self.cx.mac(e.span)));
            }
            ExprKind::Block { block } => {
                let b = self.block(*block);
                return b;
            }
            ExprKind::Assign { lhs, rhs } => {
                k(&mut o, "Assign");
                o.push(("l", self.expr(*lhs)));
                o.push(("r", self.expr(*rhs)));
            }
            ExprKind::AssignOp { op, lhs, rhs } => {
                k(&mut o, "AssignOp");
                o.push(("op", s(format!("{:?}", op))));
                o.push(("l", self.expr(*lhs)));
                o.push(("r", self.expr(*rhs)));
            }
            ExprKind::Field { lhs, variant_index, name } => {
                k(&mut o, "Field");
                let bt = self.thir[*lhs].ty;
                o.push(("name", s(self.field_name(bt, *variant_index, *name))));
                o.push(("of", s(self.cx.ty(bt))));
                o.push(("e", self.expr(*lhs)));
            }
            ExprKind::Index { lhs, index } => {
                k(&mut o, "Index");
                o.push(("e", self.expr(*lhs)));
                o.push(("i", self.expr(*index)));
            }
            ExprKind::VarRef { id } => {
                k(&mut o, "Var");
                let (nm, i) = self.var_name(*id);
                o.push(("name", s(nm)));
                o.push(("id", n(i)));
            }
            ExprKind::UpvarRef { var_hir_id, .. } => {
                k(&mut o, "Var");
                let (nm, i) = self.var_name(*var_hir_id);
                o.push(("name", s(nm)));
                o.push(("id", n(i)));
                o.push(("upvar", J::Bool(true)));
            }
            ExprKind::Borrow { arg, borrow_kind } => {
                k(&mut o, "Borrow");
                if matches!(borrow_kind, mir::BorrowKind::Mut { .. }) {
                    o.push(("mut", J::Bool(true)));
                }
                o.push(("e", self.expr(*arg)));
            }
            ExprKind::RawBorrow { arg, .. } => {
                k(&mut o, "RawBorrow");
                o.push(("e", self.expr(*arg)));
            }
            ExprKind::Break { value, label } => {
                k(&mut o, "Break");
                o.push(("label", n(label.local_id.as_u32())));
                if let Some(v) = value {
                    o.push(("e", self.expr(*v)));
                }
            }
            ExprKind::Continue { label } => {
                k(&mut o, "Continue");
                o.push(("label", n(label.local_id.as_u32())));
            }
            ExprKind::ConstContinue { .. } => k(&mut o, "ConstContinue"),
            ExprKind::Return { value } => {
                k(&mut o, "Return");
                if let Some(v) = value {
                    o.push(("e", self.expr(*v)));
                }
                o.push(("mac", self.cx.mac(e.span)));
            }
            ExprKind::Become { value } => {
                k(&mut o, "Become");
                o.push(("e", self.expr(*value)));
            }
            ExprKind::ConstBlock { did, .. } => {
                k(&mut o, "ConstBlock");
                o.push(("path", s(self.cx.path(*did))));
            }
            ExprKind::Repeat { value, count } => {
                k(&mut o, "Repeat");
                o.push(("e", self.expr(*value)));
                o.push(("count", s(format!("{}", count))));
            }
            ExprKind::Array { fields } => {
                k(&mut o, "Array");
                o.push(("elems", self.exprs(fields)));
            }
            ExprKind::Tuple { fields } => {
                k(&mut o, "Tuple");
                o.push(("elems", self.exprs(fields)));
            }
            ExprKind::Adt(adt) => {
                k(&mut o, "Adt");
                let vdef = adt.adt_def.variant(adt.variant_index);
                o.push(("adt", s(self.cx.path(adt.adt_def.did()))));
                if adt.adt_def.is_enum() {
                    o.push(("variant", s(vdef.name.to_string())));
                }
                let fields = adt
                    .fields
                    .iter()
                    .map(|f| J::Obj(vec![("f", s(vdef.fields[f.name].name.to_string())), ("e", self.expr(f.expr))]))
                    .collect();
                o.push(("fields", J::Arr(fields)));
                if let thir::AdtExprBase::Base(fru) = &adt.base {
                    o.push(("base", self.expr(fru.base)));
                }
            }
            ExprKind::PlaceUnwrapUnsafeBinder { source }
            | ExprKind::ValueUnwrapUnsafeBinder { source }
            | ExprKind::WrapUnsafeBinder { source } => return self.expr(*source),
            ExprKind::Closure(c) => {
                k(&mut o, "Closure");
                o.push(("path", s(self.cx.path(c.closure_id.to_def_id()))));
                o.push(("upvars", self.exprs(&c.upvars)));
            }
            ExprKind::Literal { lit, neg } => {
                k(&mut o, "Lit");
                use rustc_ast::LitKind;
                match &lit.node {
                    LitKind::Str(sym, _) => {
                        o.push(("t", s("str")));
                        o.push(("v", s(sym.as_str())));
                    }
                    LitKind::ByteStr(b, _) | LitKind::CStr(b, _) => {
                        o.push(("t", s("bytes")));
                        o.push(("v", s(String::from_utf8_lossy(b.as_byte_str()).to_string())));
                        o.push(("b", J::Arr(b.as_byte_str().iter().map(|x| n(*x)).collect())));
                    }
                    LitKind::Byte(b) => {
                        o.push(("t", s("byte")));
                        o.push(("v", n(*b)));
                    }
                    LitKind::Char(c) => {
                        o.push(("t", s("char")));
                        o.push(("v", s(c.to_string())));
                    }
                    LitKind::Int(v, _) => {
                        o.push(("t", s("int")));
                        let val = v.get() as i128;
                        o.push(("v", J::Num(if *neg { -val } else { val })));
                    }
                    LitKind::Float(sym, _) => {
                        o.push(("t", s("float")));
                        o.push(("v", s(format!("{}{}", if *neg { "-" } else { "" }, sym.as_str()))));
                    }
                    LitKind::Bool(b) => {
                        o.push(("t", s("bool")));
                        o.push(("v", J::Bool(*b)));
                    }
                    LitKind::Err(_) => o.push(("t", s("err"))),
                }
            }
            ExprKind::NonHirLiteral { lit, .. } => {
                k(&mut o, "Lit");
                o.push(("t", s("int")));
                o.push(("v", n(lit.to_bits_unchecked() as i128)));
            }
            ExprKind::ZstLiteral { .. } => match e.ty.kind() {
                ty::FnDef(did, ga) => {
                    k(&mut o, "FnRef");
                    o.extend(self.cx.fn_ref(self.owner, *did, ga));
                }
                _ => {
                    k(&mut o, "Zst");
                }
            },
            ExprKind::NamedConst { def_id, .. } => {
                k(&mut o, "Const");
                o.push(("path", s(self.cx.path(*def_id))));
            }
            ExprKind::ConstParam { def_id, .. } => {
                k(&mut o, "ConstParam");
                o.push(("path", s(self.cx.path(*def_id))));
            }
            ExprKind::StaticRef { def_id, .. } => {
                k(&mut o, "Static");
                o.push(("path", s(self.cx.path(*def_id))));
            }
            ExprKind::InlineAsm(_) => k(&mut o, "Asm"),
            ExprKind::ThreadLocalRef(d) => {
                k(&mut o, "ThreadLocal");
                o.push(("path", s(self.cx.path(*d))));
            }
            ExprKind::Yield { .. } => k(&mut o, "Yield"),
        }
        o.push(("ty", s(self.cx.ty(e.ty))));
        o.push(("ln", self.cx.line(e.span)));
        J::Obj(o)
    }
}

// ----------------------------------------------------------------- MIR ----

struct MirDump<'a, 'tcx> {
    cx: &'a Cx<'tcx>,
    body: &'a mir::Body<'tcx>,
    owner: LocalDefId,
}

impl<'a, 'tcx> MirDump<'a, 'tcx> {
    fn place(&self, p: &mir::Place<'tcx>) -> J {
        let tcx = self.cx.tcx;
        let mut projs = Vec::new();
        let mut pty = mir::PlaceTy::from_ty(self.body.local_decls[p.local].ty);
        for elem in p.projection.iter() {
            match elem {
                mir::ProjectionElem::Deref => projs.push(s("*")),
                mir::ProjectionElem::Field(f, _) => {
                    let (name, of) = match pty.ty.kind() {
                        ty::Adt(ad, _) => {
                            let vi = pty.variant_index.unwrap_or(rustc_abi::FIRST_VARIANT);
                            let v = ad.variant(vi);
                            let of = if ad.is_enum() {
                                format!("{}::{}", self.cx.path(ad.did()), v.name)
                            } else {
                                self.cx.path(ad.did())
                            };
                            (v.fields[f].name.to_string(), of)
                        }
                        ty::Tuple(_) => (f.as_u32().to_string(), "tuple".to_string()),
                        ty::Closure(..) => (f.as_u32().to_string(), "closure".to_string()),
                        _ => (f.as_u32().to_string(), self.cx.ty(pty.ty)),
                    };
                    projs.push(J::Obj(vec![("f", s(name)), ("of", s(of))]));
                }
                mir::ProjectionElem::Index(l) => projs.push(J::Obj(vec![("idx", n(l.as_u32()))])),
                mir::ProjectionElem::ConstantIndex { offset, from_end, .. } => {
                    projs.push(J::Obj(vec![("cidx", n(offset)), ("from_end", J::Bool(from_end))]))
                }
                mir::ProjectionElem::Subslice { from, to, from_end } => {
                    projs.push(J::Obj(vec![("sub", n(from)), ("to", n(to)), ("from_end", J::Bool(from_end))]))
                }
                mir::ProjectionElem::Downcast(name, _) => projs.push(J::Obj(vec![(
                    "as",
                    s(name.map(|x| x.to_string()).unwrap_or_default()),
                )])),
                _ => projs.push(s("?")),
            }
            pty = pty.projection_ty(tcx, elem);
        }
        if projs.is_empty() {
            n(p.local.as_u32())
        } else {
            J::Obj(vec![("l", n(p.local.as_u32())), ("p", J::Arr(projs))])
        }
    }

    fn constant(&self, c: &mir::ConstOperand<'tcx>) -> J {
        let t = c.const_.ty();
        let mut o: Vec<(&'static str, J)> = Vec::new();
        match t.kind() {
            ty::FnDef(did, ga) => {
                o.extend(self.cx.fn_ref(self.owner, *did, ga));
                return J::Obj(o);
            }
            _ => {}
        }
        o.push(("cty", s(self.cx.ty(t))));
        match c.const_ {
            mir::Const::Val(val, vt) => {
                if let Some(si) = val.try_to_scalar_int() {
                    if vt.is_bool() {
                        o.push(("v", J::Bool(si.to_bits_unchecked() != 0)));
                    } else if let ty::Int(_) = vt.kind() {
                        o.push(("v", n(si.to_int(si.size()))));
                    } else if vt.is_char() {
                        o.push(("v", s(char::from_u32(si.to_bits_unchecked() as u32).unwrap_or('?').to_string())));
                    } else {
                        o.push(("v", n(si.to_bits_unchecked() as i128)));
                    }
                } else if let (true, Some(bytes)) = (
                    matches!(val, mir::ConstValue::Slice { .. }),
                    if matches!(val, mir::ConstValue::Slice { .. }) { val.try_get_slice_bytes_for_diagnostics(self.cx.tcx) } else { None },
                ) {
                    o.push(("v", s(String::from_utf8_lossy(bytes).to_string())));
                } else {
                    o.push(("dbg", s(format!("{}", c.const_))));
                }
            }
            mir::Const::Unevaluated(u, _) => {
                o.push(("named", s(self.cx.path(u.def))));
                if u.promoted.is_some() {
                    o.push(("promoted", J::Bool(true)));
                }
            }
            mir::Const::Ty(..) => {
                if let Some(si) = c.const_.try_to_scalar_int() {
                    if t.is_bool() {
                        o.push(("v", J::Bool(si.to_bits_unchecked() != 0)));
                    } else if let ty::Int(_) = t.kind() {
                        o.push(("v", n(si.to_int(si.size()))));
                    } else if t.is_char() {
                        o.push(("v", s(char::from_u32(si.to_bits_unchecked() as u32).unwrap_or('?').to_string())));
                    } else {
                        o.push(("v", n(si.to_bits_unchecked() as i128)));
                    }
                } else {
                    o.push(("dbg", s(format!("{}", c.const_))));
                }
            }
        }
        J::Obj(o)
    }

    fn operand(&self, op: &mir::Operand<'tcx>) -> J {
        match op {
            mir::Operand::Copy(p) => J::Obj(vec![("c", self.place(p))]),
            mir::Operand::Move(p) => J::Obj(vec![("m", self.place(p))]),
            mir::Operand::Constant(c) => J::Obj(vec![("k", self.constant(c))]),
            _ => J::Obj(vec![("k", J::Obj(vec![("dbg", s("runtime-checks"))]))]),
        }
    }

    fn rvalue(&self, r: &mir::Rvalue<'tcx>) -> J {
        let mut o: Vec<(&'static str, J)> = Vec::new();
        match r {
            mir::Rvalue::Use(op, ..) => {
                o.push(("r", s("Use")));
                o.push(("x", self.operand(op)));
            }
            mir::Rvalue::Repeat(op, _) => {
                o.push(("r", s("Repeat")));
                o.push(("x", self.operand(op)));
            }
            mir::Rvalue::Ref(_, bk, p) => {
                o.push(("r", s("Ref")));
                if matches!(bk, mir::BorrowKind::Mut { .. }) {
                    o.push(("mut", J::Bool(true)));
                }
                if matches!(bk, mir::BorrowKind::Fake(_)) {
                    o.push(("fake", J::Bool(true)));
                }
                o.push(("p", self.place(p)));
            }
            mir::Rvalue::ThreadLocalRef(d) => {
                o.push(("r", s("ThreadLocal")));
                o.push(("path", s(self.cx.path(*d))));
            }
            mir::Rvalue::RawPtr(_, p) => {
                o.push(("r", s("RawPtr")));
                o.push(("p", self.place(p)));
            }
            mir::Rvalue::Cast(kind, op, t) => {
                o.push(("r", s("Cast")));
                o.push(("kind", s(format!("{:?}", kind))));
                o.push(("x", self.operand(op)));
                o.push(("to", s(self.cx.ty(*t))));
                o.push(("from", s(self.cx.ty(op.ty(&self.body.local_decls, self.cx.tcx)))));
            }
            mir::Rvalue::BinaryOp(bop, ops) => {
                o.push(("r", s("Bin")));
                o.push(("op", s(format!("{:?}", bop))));
                o.push(("a", self.operand(&ops.0)));
                o.push(("b", self.operand(&ops.1)));
            }
            mir::Rvalue::UnaryOp(uop, op) => {
                o.push(("r", s("Un")));
                o.push(("op", s(format!("{:?}", uop))));
                o.push(("x", self.operand(op)));
            }
            mir::Rvalue::Discriminant(p) => {
                o.push(("r", s("Discr")));
                o.push(("p", self.place(p)));
                let pt = p.ty(&self.body.local_decls, self.cx.tcx).ty;
                if let ty::Adt(ad, _) = pt.kind() {
                    o.push(("adt", s(self.cx.path(ad.did()))));
                }
            }
            mir::Rvalue::Aggregate(kind, ops) => {
                o.push(("r", s("Agg")));
                match &**kind {
                    mir::AggregateKind::Array(_) => o.push(("agg", s("Array"))),
                    mir::AggregateKind::Tuple => o.push(("agg", s("Tuple"))),
                    mir::AggregateKind::Adt(did, vi, _, _, _) => {
                        let ad = self.cx.tcx.adt_def(*did);
                        o.push(("agg", s("Adt")));
                        o.push(("adt", s(self.cx.path(*did))));
                        let v = ad.variant(*vi);
                        if ad.is_enum() {
                            o.push(("variant", s(v.name.to_string())));
                        }
                        o.push(("fields", J::Arr(v.fields.iter().map(|f| s(f.name.to_string())).collect())));
                    }
                    mir::AggregateKind::Closure(did, _) => {
                        o.push(("agg", s("Closure")));
                        o.push(("path", s(self.cx.path(*did))));
                    }
                    _ => o.push(("agg", s("Other"))),
                }
                o.push(("xs", J::Arr(ops.iter().map(|x| self.operand(x)).collect())));
            }
            mir::Rvalue::CopyForDeref(p) => {
                o.push(("r", s("Use")));
                o.push(("x", J::Obj(vec![("c", self.place(p))])));
            }
            mir::Rvalue::WrapUnsafeBinder(op, _) => {
                o.push(("r", s("Use")));
                o.push(("x", self.operand(op)));
            }
        }
        J::Obj(o)
    }

    fn dump(&self) -> J {
        let body = self.body;
        // locals
        let mut names: Vec<Option<String>> = vec![None; body.local_decls.len()];
        let mut captured: Vec<J> = Vec::new();
        for vdi in body.var_debug_info.iter() {
            if let mir::VarDebugInfoContents::Place(p) = &vdi.value {
                if p.projection.is_empty() {
                    names[p.local.as_usize()] = Some(vdi.name.to_string());
                } else {
                    captured.push(J::Obj(vec![("name", s(vdi.name.to_string())), ("place", self.place(p))]));
                }
            }
        }
        let locals: Vec<J> = body
            .local_decls
            .iter_enumerated()
            .map(|(l, d)| {
                let mut o = vec![("ty", s(self.cx.ty(d.ty)))];
                if let Some(nm) = &names[l.as_usize()] {
                    o.push(("name", s(nm.clone())));
                }
                J::Obj(o)
            })
            .collect();
        let mut blocks = Vec::new();
        for (_bb, data) in body.basic_blocks.iter_enumerated() {
            let mut stmts = Vec::new();
            for st in data.statements.iter() {
                match &st.kind {
                    mir::StatementKind::Assign(b) => {
                        let (p, r) = &**b;
                        let mut o = vec![("d", self.place(p))];
                        if let J::Obj(rv) = self.rvalue(r) {
                            o.extend(rv);
                        }
                        o.push(("ln", self.cx.line(st.source_info.span)));
                        stmts.push(J::Obj(o));
                    }
                    mir::StatementKind::SetDiscriminant { place, variant_index } => {
                        let pt = place.ty(&body.local_decls, self.cx.tcx).ty;
                        let mut o = vec![("d", self.place(place)), ("r", s("SetDiscr"))];
                        if let ty::Adt(ad, _) = pt.kind() {
                            o.push(("adt", s(self.cx.path(ad.did()))));
                            o.push(("variant", s(ad.variant(*variant_index).name.to_string())));
                        }
                        stmts.push(J::Obj(o));
                    }
                    _ => {}
                }
            }
            let term = data.terminator();
            let mut t: Vec<(&'static str, J)> = Vec::new();
            let unwind_bb = |u: &mir::UnwindAction| match u {
                mir::UnwindAction::Cleanup(b) => n(b.as_u32()),
                _ => J::Null,
            };
            match &term.kind {
                mir::TerminatorKind::Goto { target } => {
                    t.push(("t", s("Goto")));
                    t.push(("to", J::Arr(vec![n(target.as_u32())])));
                }
                mir::TerminatorKind::SwitchInt { discr, targets } => {
                    t.push(("t", s("Switch")));
                    t.push(("x", self.operand(discr)));
                    let dty = discr.ty(&body.local_decls, self.cx.tcx);
                    t.push(("xty", s(self.cx.ty(dty))));
                    let mut vals = Vec::new();
                    let mut tos = Vec::new();
                    for (v, b) in targets.iter() {
                        vals.push(n(v as i128));
                        tos.push(n(b.as_u32()));
                    }
                    tos.push(n(targets.otherwise().as_u32()));
                    t.push(("vals", J::Arr(vals)));
                    t.push(("to", J::Arr(tos)));
                }
                mir::TerminatorKind::UnwindResume => t.push(("t", s("Resume"))),
                mir::TerminatorKind::UnwindTerminate(_) => t.push(("t", s("Terminate"))),
                mir::TerminatorKind::Return => t.push(("t", s("Return"))),
                mir::TerminatorKind::Unreachable => t.push(("t", s("Unreachable"))),
                mir::TerminatorKind::Drop { place, target, unwind, .. } => {
                    t.push(("t", s("Drop")));
                    t.push(("p", self.place(place)));
                    t.push(("to", J::Arr(vec![n(target.as_u32())])));
                    t.push(("uw", unwind_bb(unwind)));
                }
                mir::TerminatorKind::Call { func, args, destination, target, unwind, fn_span, .. } => {
                    t.push(("t", s("Call")));
                    t.push(("f", self.operand(func)));
                    t.push(("args", J::Arr(args.iter().map(|a| self.operand(&a.node)).collect())));
                    t.push(("d", self.place(destination)));
                    t.push(("to", J::Arr(target.iter().map(|b| n(b.as_u32())).collect())));
                    t.push(("uw", unwind_bb(unwind)));
                    t.push(("mac", self.cx.mac(*fn_span)));
                }
                mir::TerminatorKind::TailCall { func, args, .. } => {
                    t.push(("t", s("TailCall")));
                    t.push(("f", self.operand(func)));
                    t.push(("args", J::Arr(args.iter().map(|a| self.operand(&a.node)).collect())));
                }
                mir::TerminatorKind::Assert { cond, expected, msg, target, unwind } => {
                    t.push(("t", s("Assert")));
                    t.push(("x", self.operand(cond)));
                    t.push(("expected", J::Bool(*expected)));
                    let (kind, ops): (String, Vec<J>) = match &**msg {
                        mir::AssertKind::BoundsCheck { len, index } => {
                            ("BoundsCheck".into(), vec![self.operand(len), self.operand(index)])
                        }
                        mir::AssertKind::Overflow(op, a, b) => {
                            (format!("Overflow({:?})", op), vec![self.operand(a), self.operand(b)])
                        }
                        mir::AssertKind::OverflowNeg(a) => ("OverflowNeg".into(), vec![self.operand(a)]),
                        mir::AssertKind::DivisionByZero(a) => ("DivisionByZero".into(), vec![self.operand(a)]),
                        mir::AssertKind::RemainderByZero(a) => ("RemainderByZero".into(), vec![self.operand(a)]),
                        other => (format!("{:?}", other).split(|c: char| !c.is_alphanumeric()).next().unwrap_or("").to_string(), vec![]),
                    };
                    t.push(("kind", s(kind)));
                    t.push(("ops", J::Arr(ops)));
                    t.push(("to", J::Arr(vec![n(target.as_u32())])));
                    t.push(("uw", unwind_bb(unwind)));
                }
                mir::TerminatorKind::FalseEdge { real_target, .. } => {
                    t.push(("t", s("Goto")));
                    t.push(("to", J::Arr(vec![n(real_target.as_u32())])));
                }
                mir::TerminatorKind::FalseUnwind { real_target, .. } => {
                    t.push(("t", s("Goto")));
                    t.push(("to", J::Arr(vec![n(real_target.as_u32())])));
                }
                _ => t.push(("t", s("Other"))),
            }
            t.push(("ln", self.cx.line(term.source_info.span)));
            let mut bo = vec![("s", J::Arr(stmts)), ("term", J::Obj(t))];
            if data.is_cleanup {
                bo.push(("cleanup", J::Bool(true)));
            }
            blocks.push(J::Obj(bo));
        }
        J::Obj(vec![
            ("argc", n(body.arg_count)),
            ("locals", J::Arr(locals)),
            ("captured", if captured.is_empty() { J::Null } else { J::Arr(captured) }),
            ("blocks", J::Arr(blocks)),
        ])
    }
}

// -------------------------------------------------------------- driver ----

struct Cb {
    out_dir: String,
}

impl rustc_driver::Callbacks for Cb {
    fn after_analysis<'tcx>(
        &mut self,
        _c: &rustc_interface::interface::Compiler,
        tcx: TyCtxt<'tcx>,
    ) -> rustc_driver::Compilation {
        let cx = Cx { tcx };
        let crate_name = tcx.crate_name(rustc_hir::def_id::LOCAL_CRATE).to_string();
        let mut adts = Vec::new();
        for ldid in tcx.hir_crate_items(()).definitions() {
            let dk = tcx.def_kind(ldid);
            if matches!(dk, DefKind::Enum | DefKind::Struct) {
                let ad = tcx.adt_def(ldid.to_def_id());
                let variants: Vec<J> = ad
                    .variants()
                    .iter()
                    .map(|v| {
                        let fields: Vec<J> = v
                            .fields
                            .iter()
                            .map(|f| {
                                let fty = tcx.type_of(f.did).instantiate_identity().skip_norm_wip();
                                J::Obj(vec![("name", s(f.name.to_string())), ("ty", s(cx.ty(fty)))])
                            })
                            .collect();
                        J::Obj(vec![("name", s(v.name.to_string())), ("fields", J::Arr(fields))])
                    })
                    .collect();
                let (file, lo, _hi) = cx.file_lines(tcx.def_span(ldid.to_def_id()));
                adts.push(J::Obj(vec![
                    ("path", s(cx.path(ldid.to_def_id()))),
                    ("kind", s(if ad.is_enum() { "enum" } else { "struct" })),
                    ("file", s(file)),
                    ("ln", n(lo)),
                    ("variants", J::Arr(variants)),
                ]));
            }
        }
        let mut bodies = Vec::new();
        for ldid in tcx.hir_body_owners() {
            let dk = tcx.def_kind(ldid);
            let kind = match dk {
                DefKind::Fn => "Fn",
                DefKind::AssocFn => "AssocFn",
                DefKind::Closure => "Closure",
                DefKind::Const { .. } => "Const",
                DefKind::AssocConst { .. } => "AssocConst",
                DefKind::Static { .. } => "Static",
                _ => continue,
            };
            let did = ldid.to_def_id();
            let full_span = tcx.hir_span_with_body(tcx.local_def_id_to_hir_id(ldid));
            let (file, lo, hi) = cx.file_lines(full_span);
            let mut o: Vec<(&'static str, J)> = vec![
                ("path", s(cx.path(did))),
                ("name", s(tcx.opt_item_name(did).map(|x| x.to_string()).unwrap_or_default())),
                ("kind", s(kind)),
                ("file", s(file)),
                ("lo", n(lo)),
                ("hi", n(hi)),
            ];
            if matches!(dk, DefKind::Fn | DefKind::AssocFn) {
                o.push(("pub", J::Bool(tcx.visibility(did).is_public())));
            }
            if matches!(dk, DefKind::Closure) {
                let parent = tcx.typeck_root_def_id(did);
                o.push(("parent", s(cx.path(parent))));
            }
            if matches!(dk, DefKind::AssocFn | DefKind::AssocConst { .. }) {
                let parent = tcx.parent(did);
                if matches!(tcx.def_kind(parent), DefKind::Impl { .. }) {
                    let st = tcx.type_of(parent).instantiate_identity().skip_norm_wip();
                    o.push(("self_ty", s(cx.ty(st))));
                    if let Some(tr) = tcx.impl_opt_trait_ref(parent) {
                        o.push(("impl_trait", s(cx.path(tr.skip_binder().def_id))));
                    }
                }
            }
            // THIR
            if let Ok((thir, root)) = tcx.thir_body(ldid) {
                let thir = thir.borrow();
                let td = ThirDump { cx: &cx, thir: &thir, owner: ldid };
                let params: Vec<J> = thir
                    .params
                    .iter()
                    .map(|p| {
                        let mut po = vec![("ty", s(cx.ty(p.ty)))];
                        if let Some(pat) = &p.pat {
                            po.push(("pat", td.pat(pat)));
                        }
                        J::Obj(po)
                    })
                    .collect();
                o.push(("params", J::Arr(params)));
                if let thir::BodyTy::Fn(sig) = &thir.body_type {
                    o.push(("ret", s(cx.ty(sig.output()))));
                }
                o.push(("thir", td.expr(root)));
            }
            // MIR
            if matches!(dk, DefKind::Fn | DefKind::AssocFn | DefKind::Closure) {
                let body = tcx.optimized_mir(did);
                let md = MirDump { cx: &cx, body, owner: ldid };
                o.push(("mir", md.dump()));
            }
            bodies.push(J::Obj(o));
        }
        let root = J::Obj(vec![("crate", s(crate_name.clone())), ("adts", J::Arr(adts)), ("bodies", J::Arr(bodies))]);
        let mut out = String::new();
        root.write(&mut out);
        let path = format!("{}/{}.json", self.out_dir, crate_name);
        std::fs::write(&path, out).expect("facts-driver: cannot write fact file");
        rustc_driver::Compilation::Continue
    }
}

fn main() {
    let mut args: Vec<String> = std::env::args().collect();
    if args.len() > 1 && (args[1].ends_with("rustc") || args[1].ends_with("rustc.exe")) {
        args.remove(1);
    }
    let out_dir = std::env::var("FACTS_OUT").unwrap_or_default();
    // Only analyse workspace crates being compiled for real (not `rustc -vV` probes etc.)
    let is_probe = out_dir.is_empty()
        || args.iter().any(|a| a == "-vV" || a == "--version" || a.starts_with("--print"))
        || !args.iter().any(|a| a == "--crate-name");
    if is_probe {
        struct Nop;
        impl rustc_driver::Callbacks for Nop {}
        rustc_driver::run_compiler(&args, &mut Nop);
        return;
    }
    let mut cb = Cb { out_dir };
    rustc_driver::run_compiler(&args, &mut cb);
}
