"""A finite model of an ir::Module for ir::layout_checker: check_layout / get_type_layout are evaluated by the
finite-map reader on modules built from a small set of types (scalars, vectors, arrays, nested structs, an enum, a
modifier), and compared with the packing rules written down independently here."""
import interp as I


def loc_type(i):
    return I.Enum("TypeOrConstant", "Type", {"0": I.Enum("TypeId", None, {"0": i})})


def tid(n):
    return I.Enum("TypeId", None, {"0": n})


SCALARS = {"Float32": 4, "Int32": 4, "UInt32": 4, "Float16": 2, "Float64": 8}


class LayoutModel:
    def __init__(self, facts):
        self.facts = facts
        self.layers = {}     # id -> TypeLayer value
        self.desc = {}       # id -> python description for the reference
        self.structs = []    # struct_registry
        self.next = 1
        self.cl = facts.fn("check_layout", "rssl_ir")
        self.gl = facts.fn("get_type_layout", "rssl_ir")

    def add(self, layer, desc):
        i = self.next
        self.next += 1
        self.layers[i] = layer
        self.desc[i] = desc
        return i

    def scalar(self, name):
        return self.add(I.Enum("TypeLayer", "Scalar", {"0": I.Enum("ScalarType", name)}), ("scalar", name))

    def vector(self, elem, n):
        return self.add(I.Enum("TypeLayer", "Vector", {"0": tid(elem), "1": n}), ("vector", elem, n))

    def array(self, elem, n):
        return self.add(I.Enum("TypeLayer", "Array", {"0": tid(elem), "1": I.Enum("Option", "Some", {"0": n})}), ("array", elem, n))

    def modifier(self, inner):
        return self.add(I.Enum("TypeLayer", "Modifier", {"0": I.Opaque("modifier"), "1": tid(inner)}), ("mod", inner))

    def struct(self, members):
        sid = len(self.structs)
        self.structs.append(I.Enum("StructDefinition", None, {"members": [I.Enum("StructMember", None, {"type_id": tid(m), "name": "m%d" % k}) for k, m in enumerate(members)],
                                                              "name": I.Enum("Located", None, {"node": "S%d" % sid, "location": I.Opaque("loc")})}))
        return self.add(I.Enum("TypeLayer", "Struct", {"0": I.Enum("StructId", None, {"0": sid})}), ("struct", list(members)))

    def object(self, variant, elem):
        return self.add(I.Enum("TypeLayer", "Object", {"0": I.Enum("ObjectType", variant, {"0": tid(elem)} if elem is not None else {})}), ("object", variant, elem))

    # reference packing (written independently of the repository)
    def ref(self, i, mode):
        d = self.desc[i]
        if d[0] == "scalar":
            s = SCALARS.get(d[1])
            return (s, s) if s else None
        if d[0] == "vector":
            e = self.ref(d[1], mode)
            if e is None:
                return None
            if mode == "HlslStructuredBuffer":
                return (e[0] * d[2], e[1])
            n = 1
            while n < d[2]:
                n *= 2
            return (e[0] * n, e[0] * n)
        if d[0] == "array":
            e = self.ref(d[1], mode)
            return (e[0] * d[2], e[1]) if e else None
        if d[0] == "mod":
            return self.ref(d[1], mode)
        if d[0] == "struct":
            size, align = 0, 1
            for m in d[1]:
                e = self.ref(m, mode)
                if e is None:
                    return None
                size = (size + e[1] - 1) // e[1] * e[1] + e[0]
                align = max(align, e[1])
            return (size, align)
        return None

    def ref_total(self, i, mode):
        r = self.ref(i, mode)
        if r is None:
            return None
        return ((r[0] + r[1] - 1) // r[1] * r[1], r[1])

    def externs(self):
        def split(t):
            n = t.fields.get("0") if isinstance(t, I.Enum) else None
            if n not in self.layers:
                raise I.Unknown("type id outside the model: %r" % (t,))
            return n

        def remove_modifier(a):
            n = split(a[1])
            while self.desc[n][0] == "mod":
                n = self.desc[n][1]
            return tid(n)
        return {"TypeRegistry::get_type_layer": lambda a: self.layers[split(a[1])], "TypeRegistry::remove_modifier": remove_modifier,
                "FunctionRegistry::get_function_count": lambda a: 0, "Module::get_type_location": lambda a: I.Opaque("loc")}

    def module(self, globals_):
        return I.Enum("Module", None, {"type_registry": I.Opaque("type registry"), "function_registry": I.Opaque("function registry"), "enum_registry": I.Opaque("enum registry"),
                                      "struct_registry": self.structs,
                                      "global_registry": [I.Enum("GlobalVariable", None, {"type_id": tid(g), "name": I.Enum("Located", None, {"node": "g%d" % k, "location": I.Opaque("loc")})})
                                                          for k, g in enumerate(globals_)]})

    def layout(self, i, mode):
        ip = I.Interp(self.facts, max_depth=12, extern=self.externs())
        try:
            r = ip.apply(self.gl, [self.module([]), tid(i), I.Enum("PackingMode", mode)])
        except I.Unknown as e:
            return ("aborts" if "panicking" in str(e) else "unreadable", str(e))
        if isinstance(r, I.Enum) and r.variant == "Some":
            l = r.fields["0"]
            return (l.fields.get("size"), l.fields.get("align"))
        return None

    def check(self, globals_, typed=()):
        """typed: [(Intrinsic variant, type id)] - instantiations of the typed load / store intrinsics in the function registry"""
        ext = dict(self.externs())
        if typed:
            def deref(v):
                return v.get() if isinstance(v, I.Ref) else v
            some = lambda v: I.Enum("Option", "Some", {"0": v})
            ext["FunctionRegistry::get_function_count"] = lambda a: len(typed) + 1
            ext["FunctionRegistry::get_intrinsic_data"] = lambda a: (I.Enum("Option", "None") if deref(a[1]).fields["0"] >= len(typed) else
                                                                    some(I.Enum("Intrinsic", typed[deref(a[1]).fields["0"]][0])))
            ext["FunctionRegistry::get_template_instantiation_data"] = lambda a: some(I.Enum("FunctionTemplateInstantiation", None, {
                "template_args": [loc_type(typed[deref(a[1]).fields["0"]][1])], "parent_id": I.Opaque("parent")}))
        ip = I.Interp(self.facts, max_depth=12, extern=ext)
        try:
            r = ip.apply(self.cl, [self.module(globals_)])
        except I.Unknown as e:
            return ("aborts" if "panicking" in str(e) else "unreadable", str(e))
        if isinstance(r, I.Enum) and r.variant == "Ok":
            return ("Ok",)
        if isinstance(r, I.Enum) and r.variant == "Err":
            e = r.fields.get("0")
            if isinstance(e, I.Enum) and e.variant == "MismatchedLayout":
                a, b = e.fields.get("1"), e.fields.get("2")
                return ("Mismatch", (a.fields.get("size"), a.fields.get("align")), (b.fields.get("size"), b.fields.get("align")))
            return ("Err", e.variant if isinstance(e, I.Enum) else repr(e))
        return ("unreadable", repr(r))
