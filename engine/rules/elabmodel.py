"""Elaboration of operators read as a table.

parse_expr_binop / parse_expr_unaryop ask the sub-expression parser for the operands and the type registry for layers,
and build an ir::Expression. Here the sub-expression parser is scripted (operand `L` / `R` is a variable of a chosen
type, value category and modifier), the registry is the finite universe of convmodel.py, and the function body -
together with ImplicitConversion::find / apply / get_target_type and whatever private helpers it calls - is walked
by the finite-map reader. The node that comes out is then typed a second time, independently of what the function
claimed: the type of an operand is read off the node itself (a variable has the type it was given, Cast(t, _) is an
rvalue of t), and rssl's own IR typing rule IntrinsicOp::get_return_type (whose asserts state what each operator
requires) is walked on those operand types. Nothing of rssl is executed.
"""
import interp as I
import convmodel as CM

TY = "rssl_typer"


def member_path(name):
    return I.Enum("ScopedIdentifier", None, {"base": I.Enum("ScopedIdentifierBase", "Relative"),
                                             "identifiers": [I.Enum("Located", None, {"node": name, "location": I.Opaque("loc")})]})


def located(tag):
    # Located<ast::Expression> derefs to its node: both carry the tag the scripted sub-expression parser reads
    return I.Enum("Located", None, {"tag": tag, "location": I.Opaque("loc"), "node": I.Enum("AstExpression", None, {"tag": tag})})


class Elab:
    def __init__(self, facts):
        self.f = facts
        self.u = CM.Universe(facts)
        self.binop = facts.fn("parse_expr_binop", TY)
        self.unop = facts.fn("parse_expr_unaryop", TY)
        self.ret = facts.fn("get_return_type", "rssl_ir", self_ty="IntrinsicOp")
        enums = I.Enum("EnumRegistry", None, {
            "type_ids": [I.Enum("TypeId", None, {"0": self.u.names["Enum"]})],
            "underlying_type_ids": [I.Enum("TypeId", None, {"0": self.u.names.get("Int32", 0)})],
            "underlying_scalars": [I.Enum("ScalarType", "Int32")]})
        self.enums = enums
        self.get_type = facts.fn("get_type", "rssl_ir", self_ty="Expression")
        self.ternary = facts.fn("parse_expr_ternary", TY)
        self.module = self.module_for({})
        self.ctx = I.Enum("Context", None, {"module": self.module})
        self.base_ext = dict(self.u.externs())
        self.base_ext["to_error_type"] = lambda a: I.Opaque("error type")
        self.base_ext["get_location"] = lambda a: I.Opaque("loc")
        self.base_ext["get_type_name_short"] = lambda a: "type"
        self.ip_plain = I.Interp(facts, max_depth=12, extern=self.base_ext)

    TAGS = ("L", "R", "C", "D", "E")

    def module_for(self, operands):
        """a Module whose local variable k has the type of operand TAGS[k]"""
        lv = [I.Enum("LocalVariable", None, {"type_id": operands[t].fields["0"] if t in operands else I.Enum("TypeId", None, {"0": 0})})
              for t in self.TAGS]
        f32, f324 = self.u.type_id("Float32") if "Float32" in self.u.names else None, self.u.type_id("Float324") if "Float324" in self.u.names else None
        structs = [I.Enum("StructDefinition", None, {"methods": [], "members": [
            I.Enum("StructMember", None, {"name": "a", "type_id": f32}), I.Enum("StructMember", None, {"name": "v", "type_id": f324})]})]
        return I.Enum("Module", None, {"type_registry": I.Opaque("types"), "enum_registry": self.enums, "struct_registry": structs,
                                       "function_registry": I.Opaque("functions"),
                                       "variable_registry": I.Enum("VariableRegistry", None, {"local_variables": lv})})

    def operand_node(self, tag, e):
        """an expression of exactly the type e: a local variable (an lvalue of its declared type) or, for an rvalue, a
        cast of it (Cast(t, _) is an rvalue of t)"""
        v = I.Enum("Expression", "Variable", {"0": I.Enum("VariableId", None, {"0": self.TAGS.index(tag)})})
        if e.fields["1"].variant == "Lvalue":
            return v
        return I.Enum("Expression", "Cast", {"0": e.fields["0"], "1": v})

    def node_type(self, node, operands):
        """Expression::get_type(node, module) -> ('ok', ety) | ('invalid',) | ('aborts', why) | ('unreadable', why)"""
        try:
            r = self.ip_plain.apply(self.get_type, [node, self.module_for(operands)])
        except I.Unknown as e:
            msg = str(e)
            return ("aborts" if "panicking" in msg else "unreadable", msg[:120])
        if isinstance(r, I.Enum) and r.variant == "Ok":
            return ("ok", r.fields["0"])
        if isinstance(r, I.Enum) and r.variant == "Err":
            return ("invalid",)
        return ("unreadable", repr(r)[:80])

    def leaves(self, node, out=None):
        """tags of the operand variables in the node, left to right"""
        out = [] if out is None else out
        if isinstance(node, I.Enum):
            if node.variant == "Variable" and isinstance(node.fields.get("0"), I.Enum):
                out.append(self.TAGS[node.fields["0"].fields["0"]])
                return out
            for k in sorted(node.fields):
                self.leaves(node.fields[k], out)
        elif isinstance(node, (list, tuple)):
            for x in node:
                self.leaves(x, out)
        return out

    def ety(self, name, mod, vt):
        return I.Enum("ExpressionType", None, {"0": self.u.type_id(name, mod), "1": I.Enum("ValueType", vt)})

    def interp(self, operands):
        self.cur = operands
        self.module = self.module_for(operands)
        self.ctx = I.Enum("Context", None, {"module": self.module})
        if getattr(self, "_ip", None) is not None:
            return self._ip
        ext = dict(self.base_ext)
        operands = None

        def pei(a):
            tag = a[0].fields["tag"]
            return I.Enum("Result", "Ok", {"0": I.Enum("TypedExpression", "Value", {
                "0": self.operand_node(tag, self.cur[tag]), "1": self.cur[tag]})})

        def pvo(a):
            tag = a[0].fields["tag"]
            return I.Enum("Result", "Ok", {"0": (self.operand_node(tag, self.cur[tag]), self.cur[tag])})
        ext["parse_expr_internal"] = pei
        ext["parse_expr_value_only"] = pvo
        self._ip = I.Interp(self.f, max_depth=12, extern=ext)
        return self._ip

    def run_binop(self, op, l, r):
        """-> ('Err', variant) | ('Ok', node, type) | ('aborts', why) | ('unreadable', why)"""
        ip = self.interp({"L": l, "R": r})
        return self._run(ip, self.binop, [I.Enum("BinOp", op), located("L"), located("R"), self.ctx])

    def run_unop(self, op, l):
        ip = self.interp({"L": l})
        return self._run(ip, self.unop, [I.Enum("UnaryOp", op), located("L"), self.ctx])

    def run_expr(self, ast_node, operands):
        """parse_expr_unchecked on a hand-built ast node whose sub-expressions are located(tag)"""
        ip = self.interp(operands)
        fn = self.f.fn("parse_expr_unchecked", TY)
        return self._run(ip, fn, [ast_node, self.ctx])

    def run_call(self, params, args, defaults=0):
        """write_function for one overload f(params) called with the operands args (tags L, R, C in order).
        params: [(type name, modifier index, 'In'|'Out'|'InOut')]"""
        tags = self.TAGS[:len(args)]
        operands = dict(zip(tags, args))
        ip = self.interp(operands)
        sig = I.Enum("FunctionSignature", None, {
            "return_type": I.Enum("FunctionReturn", None, {"return_type": self.u.type_id("Float32"), "semantic": I.Enum("Option", "None")}),
            "template_params": [], "non_default_params": len(params) - defaults,
            "param_types": [I.Enum("ParamType", None, {"type_id": self.u.type_id(t, m), "input_modifier": I.Enum("InputModifier", im)}) for t, m, im in params]})
        ip.extern["FunctionRegistry::get_function_signature"] = lambda a: sig
        ip.extern["FunctionRegistry::get_intrinsic_data"] = lambda a: I.Enum("Option", "None")
        ip.extern["FunctionRegistry::get_template_instantiation_data"] = lambda a: I.Enum("Option", "None")
        ip._extern_cache.clear()
        fn = self.f.fn("write_function", TY)
        unresolved = I.Enum("UnresolvedFunction", None, {"overloads": [I.Enum("FunctionId", None, {"0": 0})]})
        return self._run(ip, fn, [unresolved, [], [operands[t] for t in tags], [self.operand_node(t, operands[t]) for t in tags],
                                  I.Opaque("loc"), I.Enum("CallType", "FreeFunction"), self.ctx]), operands

    def run_return(self, ret, operand):
        """parse_statement on `return L;` in a function returning `ret` (a type name, unmodified)"""
        operands = {"L": operand}
        ip = self.interp(operands)
        ip.extern["parse_statement_attributes"] = lambda a: I.Enum("Result", "Ok", {"0": []})
        ip.extern["get_current_return_type"] = lambda a: self.u.type_id(ret)
        ip.extern["parse_expr"] = lambda a: I.Enum("Result", "Ok", {"0": (self.operand_node(a[0].fields["tag"], self.cur[a[0].fields["tag"]]), self.cur[a[0].fields["tag"]])})
        ip._extern_cache.clear()
        fn = self.f.fn("parse_statement", TY)
        st = I.Enum("Statement", None, {"kind": I.Enum("StatementKind", "Return", {"0": I.Enum("Option", "Some", {"0": located("L")})}),
                                        "location": I.Opaque("loc"), "attributes": []})
        return self._run(ip, fn, [st, self.ctx]), operands

    def run_initializer(self, declared, mod, inits):
        """parse_initializer for a variable of type `declared`; inits: an operand (expression form) or a list (aggregate)"""
        flat = inits if isinstance(inits, list) else [inits]
        tags = self.TAGS[:len(flat)]
        operands = dict(zip(tags, flat))
        ip = self.interp(operands)
        ip.extern["parse_expr"] = lambda a: I.Enum("Result", "Ok", {"0": (self.operand_node(a[0].fields["tag"], self.cur[a[0].fields["tag"]]), self.cur[a[0].fields["tag"]])})
        ip._extern_cache.clear()
        fn = self.f.fn("parse_initializer", TY)
        ex = lambda t: I.Enum("Initializer", "Expression", {"0": located(t)})
        init = I.Enum("Initializer", "Aggregate", {"0": [ex(t) for t in tags]}) if isinstance(inits, list) else ex("L")
        return self._run(ip, fn, [init, self.u.type_id(declared, mod), I.Opaque("loc"), self.ctx]), operands

    def run_overloads(self, overloads, args):
        """write_function for the overload list [[(type name, modifier, 'In'|..)..]..] (FunctionId = position in
        `overloads` BEFORE any permutation the caller applies via ids) -> ('Ok', chosen id) | ('Err', ambiguous?) | .."""
        tags = self.TAGS[:len(args)]
        operands = dict(zip(tags, args))
        ip = self.interp(operands)
        sigs = {}
        for fid, params in overloads:
            sigs[fid] = I.Enum("FunctionSignature", None, {
                "return_type": I.Enum("FunctionReturn", None, {"return_type": self.u.type_id("Float32"), "semantic": I.Enum("Option", "None")}),
                "template_params": [], "non_default_params": len(params),
                "param_types": [I.Enum("ParamType", None, {"type_id": self.u.type_id(t, m), "input_modifier": I.Enum("InputModifier", im)}) for t, m, im in params]})
        ip.extern["FunctionRegistry::get_function_signature"] = lambda a: sigs[a[1].fields["0"]]
        ip.extern["FunctionRegistry::get_intrinsic_data"] = lambda a: I.Enum("Option", "None")
        ip.extern["FunctionRegistry::get_template_instantiation_data"] = lambda a: I.Enum("Option", "None")
        ip._extern_cache.clear()
        fn = self.f.fn("write_function", TY)
        unresolved = I.Enum("UnresolvedFunction", None, {"overloads": [I.Enum("FunctionId", None, {"0": fid}) for fid, _p in overloads]})
        try:
            r = ip.apply(fn, [unresolved, [], [operands[t] for t in tags], [self.operand_node(t, operands[t]) for t in tags],
                              I.Opaque("loc"), I.Enum("CallType", "FreeFunction"), self.ctx])
        except I.Unknown as e:
            msg = str(e)
            return ("aborts" if "panicking" in msg else "unreadable", msg[:120])
        if isinstance(r, I.Enum) and r.variant == "Ok":
            node = r.fields["0"].fields["0"]
            return ("Ok", node.fields["0"].fields["0"])
        if isinstance(r, I.Enum) and r.variant == "Err":
            e0 = r.fields["0"]
            if isinstance(e0, I.Enum) and e0.variant == "FunctionArgumentTypeMismatch":
                return ("Err", bool(e0.fields.get("3")))
            return ("Err", getattr(e0, "variant", "?"))
        return ("unreadable", repr(r)[:80])

    def run_constructor(self, tname, args):
        """parse_expr_constructor(type, args) with the operands args"""
        tags = self.TAGS[:len(args)]
        operands = dict(zip(tags, args))
        ip = self.interp(operands)
        fn = self.f.fn("parse_expr_constructor", TY)
        return self._run(ip, fn, [self.u.type_id(tname), [located(t) for t in tags], self.ctx]), operands

    def elements(self, e):
        """number of scalar elements of a numeric type (None for others)"""
        l = self.u.base[self.u.split(e.fields["0"] if e.adt == "ExpressionType" else e)[0]]
        if l.variant == "Scalar":
            return 1
        if l.variant == "Vector":
            return l.fields["1"]
        if l.variant == "Matrix":
            return l.fields["1"] * l.fields["2"]
        return None

    def run_ternary(self, c, l, r):
        ip = self.interp({"C": c, "L": l, "R": r})
        return self._run(ip, self.ternary, [located("C"), located("L"), located("R"), self.ctx])

    def _run(self, ip, fn, args):
        try:
            r = ip.apply(fn, args)
        except I.Unknown as e:
            msg = str(e)
            return ("aborts" if "panicking" in msg else "unreadable", msg[:120])
        if isinstance(r, I.Enum) and r.variant == "Err":
            e0 = r.fields.get("0")
            return ("Err", e0.variant if isinstance(e0, I.Enum) else "?")
        if isinstance(r, I.Enum) and r.variant == "Ok":
            v = r.fields["0"]
            if isinstance(v, I.Enum) and v.variant == "Value":
                return ("Ok", v.fields["0"], v.fields["1"])
            return ("Ok", v, None)
        return ("unreadable", repr(r)[:120])

    # ---- the node typed again, from the node alone
    NUMERIC = ("Scalar", "Vector", "Matrix", "Enum")

    def casts_ok(self, node, operands):
        """every Cast(t, inner) in the node converts between numeric types or only changes modifiers"""
        if isinstance(node, I.Enum):
            if node.variant == "Cast" and node.adt == "Expression":
                t, inner = node.fields["0"], node.fields["1"]
                it = self.node_type(inner, operands)
                if it[0] != "ok":
                    return False
                b, m = self.u.split(t)
                ib, im = self.u.split(it[1].fields["0"])
                if ib != b and (self.u.base[b].variant not in self.NUMERIC or self.u.base[ib].variant not in self.NUMERIC):
                    return False
                return self.casts_ok(inner, operands)
            return all(self.casts_ok(v, operands) for v in node.fields.values())
        if isinstance(node, (list, tuple)):
            return all(self.casts_ok(v, operands) for v in node)
        return True

    def check_node(self, what, node, reported, operands, tags):
        """-> list of (kind, message): what is wrong with an accepted elaboration"""
        got = self.leaves(node)
        if got != list(tags):
            return [("operands", "%s: the node's operands are %s, must be the sub-expressions %s in order" % (what, got, list(tags)))]
        # the operands we handed in are themselves casts for rvalues: strip nothing, they type as given
        t = self.node_type(node, operands)
        if t[0] == "unreadable":
            return [("unreadable", t[1])]
        if t[0] == "aborts":
            return [("refused", "%s: the IR typing rule (Expression::get_type / IntrinsicOp::get_return_type) refuses the node %s (%s)" % (what, self.show(node), t[1][:60]))]
        if t[0] == "invalid":
            return [("invalid", "%s: the IR typing rule gives no type to the node %s" % (what, self.show(node)))]
        if reported is not None and t[1] != reported:
            return [("reported", "%s: reported type is %s but the node has type %s" % (what, self.describe(reported), self.describe(t[1])))]
        if not self.casts_ok(node, operands):
            return [("cast", "%s: an operand is converted in a way no implicit conversion allows: %s" % (what, self.show(node)))]
        return []

    def show(self, node):
        if isinstance(node, I.Enum) and node.adt == "Expression":
            if node.variant == "Variable":
                return self.TAGS[node.fields["0"].fields["0"]]
            if node.variant == "Cast":
                b, m = self.u.split(node.fields["0"])
                nm = [k for k, v in self.u.names.items() if v == b]
                return "(%s%s)%s" % ({0: "", 1: "const ", 2: "volatile "}[m], nm[0] if nm else b, self.show(node.fields["1"]))
            if node.variant == "IntrinsicOp":
                return "%s(%s)" % (node.fields["0"].variant, ", ".join(self.show(a) for a in node.fields["1"]))
            return "%s(%s)" % (node.variant, ", ".join(self.show(v) for k, v in sorted(node.fields.items())))
        if isinstance(node, list):
            return "[%s]" % ", ".join(self.show(a) for a in node)
        if isinstance(node, I.Enum) and node.adt in ("MatrixSwizzleSlot", "ComponentIndex", "SwizzleSlot"):
            inner = [self.show(v) for _, v in sorted(node.fields.items())]
            return (node.variant or "") + ("".join(inner) if node.adt == "MatrixSwizzleSlot" else "") if node.adt != "MatrixSwizzleSlot" else "_m" + "".join(
                {"First": "0", "Second": "1", "Third": "2", "Forth": "3", "Fourth": "3"}.get(x, x) for x in inner)
        return repr(node)[:40]

    def describe(self, e):
        b, m = self.u.split(e.fields["0"])
        name = [k for k, v in self.u.names.items() if v == b]
        return "%s%s %s" % ({0: "", 1: "const ", 2: "volatile ", 3: "const row_major ", 4: "const column_major "}[m], name[0] if name else b, e.fields["1"].variant.lower())

    def is_const(self, e):
        import convmodel as _CM
        return bool(_CM.MODS[self.u.split(e.fields["0"])[1]].get("is_const"))

    def is_lvalue(self, e):
        return e.fields["1"].variant == "Lvalue"

    def scalar(self, e):
        s = self.u.scalar_of(self.u.split(e.fields["0"])[0])
        return s.variant if s is not None else None
