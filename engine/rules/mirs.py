"""MIR helpers: CFG, dominators, path queries, def-use slices, call graph."""
from facts import short


def _place_local(p):
    return p if isinstance(p, int) else p["l"]


def _place_proj(p):
    return [] if isinstance(p, int) else p["p"]


def op_place(op):
    """Place of a Copy/Move operand, else None."""
    if "c" in op:
        return op["c"]
    if "m" in op:
        return op["m"]
    return None


def op_const(op):
    return op.get("k")


class Cfg:
    def __init__(self, body):
        self.body = body
        self.mir = body["mir"]
        self.blocks = self.mir["blocks"]
        n = len(self.blocks)
        self.n = n
        self.succ = [[] for _ in range(n)]
        self.pred = [[] for _ in range(n)]
        for i, b in enumerate(self.blocks):
            for t in b["term"].get("to", []):
                self.succ[i].append(t)
                self.pred[t].append(i)
        self._dom = None
        self._pdom = None
        self._defs = None

    # ---- iteration helpers --------------------------------------------
    def calls(self, suffix=None, pred=None):
        """[(bb, term)] for Call terminators whose resolved/generic callee ends with suffix."""
        out = []
        for i, b in enumerate(self.blocks):
            t = b["term"]
            if t["t"] != "Call":
                continue
            if self.blocks[i].get("cleanup"):
                continue
            f = op_const(t["f"]) or {}
            names = [f.get("rfn") or "", f.get("fn") or ""]
            if suffix is not None and not any(x.endswith(suffix) for x in names):
                continue
            if pred and not pred(t):
                continue
            out.append((i, t))
        return out

    @staticmethod
    def callee(term):
        f = op_const(term["f"]) or {}
        return f.get("rfn") or f.get("fn")

    @staticmethod
    def callee_generic(term):
        f = op_const(term["f"]) or {}
        return f.get("fn")

    def stmts(self, pred=None):
        for i, b in enumerate(self.blocks):
            if b.get("cleanup"):
                continue
            for j, s in enumerate(b["s"]):
                if pred is None or pred(s):
                    yield i, j, s

    def local_name(self, l):
        return self.mir["locals"][l].get("name")

    def local_ty(self, l):
        return self.mir["locals"][l]["ty"]

    def locals_named(self, name):
        return [i for i, l in enumerate(self.mir["locals"]) if l.get("name") == name]

    # ---- dominators ---------------------------------------------------
    def _compute_dom(self, succ, pred, roots):
        n = self.n
        ALL = (1 << n) - 1
        dom = [ALL] * n
        for r in roots:
            dom[r] = 1 << r
        changed = True
        order = list(range(n))
        while changed:
            changed = False
            for b in order:
                if b in roots:
                    continue
                ps = pred[b]
                if not ps:
                    new = 1 << b  # unreachable: dominated only by itself
                else:
                    new = ALL
                    for p in ps:
                        new &= dom[p]
                    new |= 1 << b
                if new != dom[b]:
                    dom[b] = new
                    changed = True
        return dom

    def dom(self):
        if self._dom is None:
            self._dom = self._compute_dom(self.succ, self.pred, {0})
        return self._dom

    def dominates(self, a, b):
        """Every path from entry to block b passes through block a."""
        return bool(self.dom()[b] >> a & 1)

    def exits(self):
        return [i for i, b in enumerate(self.blocks) if b["term"]["t"] == "Return"]

    def reachable_from(self, start, avoid=(), avoid_edges=()):
        """Blocks reachable from `start` (inclusive) without entering blocks in `avoid`
        and without traversing edges in avoid_edges."""
        avoid = set(avoid)
        avoid_edges = set(avoid_edges)
        seen = set()
        stack = [start] if start not in avoid else []
        while stack:
            b = stack.pop()
            if b in seen:
                continue
            seen.add(b)
            for s in self.succ[b]:
                if s in avoid or (b, s) in avoid_edges:
                    continue
                stack.append(s)
        return seen

    def exists_path(self, a, b, avoid=(), avoid_edges=()):
        """Is there a path a ->+ b (at least one edge unless a == b trivial) avoiding blocks."""
        avoid = set(avoid)
        seen = set()
        stack = [s for s in self.succ[a] if s not in avoid and (a, s) not in set(avoid_edges)]
        while stack:
            x = stack.pop()
            if x == b:
                return True
            if x in seen:
                continue
            seen.add(x)
            for s in self.succ[x]:
                if s in avoid or (x, s) in set(avoid_edges):
                    continue
                stack.append(s)
        return False

    def edge_dominates(self, edge, target):
        """Every path entry -> target traverses edge (a,b)."""
        a, b = edge
        if target == 0:
            return False
        # remove the edge; target must become unreachable from entry
        reach = self.reachable_from(0, avoid_edges=[(a, b)])
        return target not in reach

    def must_pass(self, start, through, target):
        """Every path start -> target passes through some block in `through`."""
        reach = self.reachable_from(start, avoid=through)
        return target not in reach or target in through

    # ---- def-use ------------------------------------------------------
    def defs(self):
        """local -> list of ('stmt', bb, idx, stmt) | ('call', bb, term) writing (any part of) local."""
        if self._defs is None:
            d = {}
            for i, b in enumerate(self.blocks):
                for j, s in enumerate(b["s"]):
                    d.setdefault(_place_local(s["d"]), []).append(("stmt", i, j, s))
                t = b["term"]
                if t["t"] == "Call":
                    d.setdefault(_place_local(t["d"]), []).append(("call", i, None, t))
            self._defs = d
        return self._defs

    def reachable_when_discr(self, adt_short, variant_index):
        """Blocks reachable from the entry when every value of enum `adt_short` read in this body has discriminant
        `variant_index`: at a switch on such a discriminant only the edge for that value is taken, and a switch on a
        bool local all of whose (reachable) definitions are the same constant follows that constant (this is how
        `matches!(x, A | B)` and `x == A` reach their users). Everything else keeps all its edges."""
        from facts import short as _short
        defs = self.defs()
        infeasible = set()
        for i, blk in enumerate(self.blocks):
            tm = blk["term"]
            if tm["t"] != "Switch":
                continue
            pl = op_place(tm["x"])
            if pl is None or not isinstance(pl, int):
                continue
            ds = defs.get(pl, [])
            if len(ds) != 1 or ds[0][0] != "stmt" or ds[0][3].get("r") != "Discr" or _short(ds[0][3].get("adt") or "") != adt_short:
                continue
            taken = tm["to"][-1]
            for v, tgt in zip(tm["vals"], tm["to"]):
                if v == variant_index:
                    taken = tgt
            infeasible |= {(i, tgt) for tgt in tm["to"] if tgt != taken}
        for _ in range(len(self.blocks)):
            reach = self.reachable_from(0, avoid_edges=infeasible)
            grew = False
            for i, blk in enumerate(self.blocks):
                tm = blk["term"]
                if i not in reach or tm["t"] != "Switch" or tm.get("xty") != "bool":
                    continue
                pl = op_place(tm["x"])
                if pl is None or not isinstance(pl, int):
                    continue
                vals = set()
                for d in defs.get(pl, []):
                    if d[1] not in reach:
                        continue
                    k = op_const(d[3]["x"]) if d[0] == "stmt" and d[3].get("r") == "Use" and d[3]["d"] == pl else None
                    vals.add(k.get("v") if k is not None and isinstance(k.get("v"), bool) else "?")
                if len(vals) == 1 and "?" not in vals:
                    c = int(vals.pop())
                    taken = tm["to"][-1]
                    for v, tgt in zip(tm["vals"], tm["to"]):
                        if v == c:
                            taken = tgt
                    new = {(i, tgt) for tgt in tm["to"] if tgt != taken} - infeasible
                    if new:
                        infeasible |= new
                        grew = True
            if not grew:
                return reach
        return self.reachable_from(0, avoid_edges=infeasible)

    def stmt_operands(self, s):
        """Operands / places read by a statement dict (Assign)."""
        r = s.get("r")
        ops = []
        if r in ("Use", "Repeat", "Cast", "Un"):
            ops.append(s["x"])
        elif r == "Bin":
            ops += [s["a"], s["b"]]
        elif r in ("Ref", "RawPtr", "Discr"):
            ops.append({"c": s["p"]})
        elif r == "Agg":
            ops += s["xs"]
        return ops

    def _controlling(self, def_blocks):
        """Locals tested by switches that decide which of several definitions of a variable executes."""
        out = set()
        dbs = set(def_blocks)
        if len(dbs) < 2:
            return out
        for i, b in enumerate(self.blocks):
            t = b["term"]
            if t["t"] != "Switch" or len(set(t["to"])) < 2:
                continue
            sets = []
            for s in dict.fromkeys(t["to"]):
                seen, stack, hit = set(), [s], set()
                while stack:
                    x = stack.pop()
                    if x in seen:
                        continue
                    seen.add(x)
                    if x in dbs:
                        hit.add(x)
                        continue
                    stack.extend(self.succ[x])
                sets.append(frozenset(hit))
            if len(set(sets)) > 1:
                p = op_place(t["x"])
                if p is not None:
                    out.add(_place_local(p))
        return out

    def slice(self, start_locals, max_nodes=4000, through_calls=True, stop_at_calls=(), control=False):
        """Flow-insensitive backward slice from a set of locals.
        Returns a Signature with leaves."""
        sig = Signature()
        seen = set()
        work = list(start_locals)
        argc = self.mir["argc"]
        defs = self.defs()
        while work and len(seen) < max_nodes:
            l = work.pop()
            if l in seen:
                continue
            seen.add(l)
            if 1 <= l <= argc:
                sig.params.add(l)
            if control and len(defs.get(l, [])) > 1:
                for cl in self._controlling([d[1] for d in defs.get(l, [])]):
                    work.append(cl)
            for d in defs.get(l, []):
                if d[0] == "stmt":
                    s = d[3]
                    r = s.get("r")
                    if r == "Bin":
                        sig.ops.add(s["op"])
                    elif r == "Un":
                        sig.ops.add("Un:" + s["op"])
                    elif r == "Cast":
                        sig.casts.add((s["kind"], s.get("from"), s.get("to")))
                    elif r == "Agg":
                        if s.get("agg") == "Adt":
                            sig.ctors.add((short(s["adt"]), s.get("variant")))
                    elif r == "Discr":
                        sig.discr.add(short(s.get("adt", "")))
                    for op in self.stmt_operands(s):
                        self._leaf(op, sig, work)
                    # index projections on the destination are not dependencies of the value
                else:
                    t = d[3]
                    cal = self.callee(t) or "?"
                    sig.calls.add(cal)
                    if any(cal.endswith(x) for x in stop_at_calls):
                        continue
                    if through_calls:
                        for a in t["args"]:
                            self._leaf(a, sig, work)
        sig.locals = seen
        return sig

    def _leaf(self, op, sig, work):
        p = op_place(op)
        if p is not None:
            work.append(_place_local(p))
            for pr in _place_proj(p):
                if isinstance(pr, dict):
                    if "f" in pr:
                        sig.fields.add((pr["of"], pr["f"]))
                    elif "idx" in pr:
                        work.append(pr["idx"])
        else:
            k = op_const(op) or {}
            if "v" in k:
                sig.consts.add(k["v"] if not isinstance(k["v"], list) else tuple(k["v"]))
            elif "fn" in k:
                sig.fnrefs.add(k.get("rfn") or k["fn"])
            elif "named" in k:
                sig.named.add(k["named"])


class Signature:
    def __init__(self):
        self.fields = set()   # (owner short, field name)
        self.consts = set()
        self.named = set()    # named consts
        self.fnrefs = set()
        self.calls = set()    # callee paths
        self.params = set()
        self.ops = set()
        self.casts = set()
        self.ctors = set()
        self.discr = set()
        self.locals = set()

    def has_field(self, name, owner=None):
        return any(f == name and (owner is None or o.endswith(owner)) for o, f in self.fields)

    def has_call(self, suffix):
        return any(c.endswith(suffix) for c in self.calls)

    def arith(self):
        return {o for o in self.ops if o.split("With")[0] in
                ("Add", "Sub", "Mul", "Div", "Rem", "Shl", "Shr", "BitAnd", "BitOr", "BitXor",
                 "AddUnchecked", "SubUnchecked", "MulUnchecked") or o in ("Un:Neg", "Un:Not")}


# ------------------------------------------------------------ call graph ----

class CallGraph:
    """Whole-workspace call graph over resolved callees. Closures are attributed to
    their parent function; fn items passed as values count as calls from the referrer."""

    def __init__(self, facts):
        self.facts = facts
        self.edges = {}   # caller path -> set(callee path)
        self.sites = {}   # (caller, callee) -> [line]
        for b in facts.bodies.values():
            if "mir" not in b:
                continue
            owner = b["parent"] if b["kind"] == "Closure" else b["path"]
            es = self.edges.setdefault(owner, set())
            for blk in b["mir"]["blocks"]:
                t = blk["term"]
                ops = []
                if t["t"] in ("Call", "TailCall"):
                    ops.append(t["f"])
                    ops += t["args"]
                for s in blk["s"]:
                    for key in ("x", "a", "b"):
                        if key in s and isinstance(s[key], dict):
                            ops.append(s[key])
                    ops += s.get("xs", [])
                for op in ops:
                    k = op.get("k") if isinstance(op, dict) else None
                    if k and "fn" in k:
                        for nm in {k.get("rfn"), k["fn"]} - {None}:
                            es.add(nm)
                            self.sites.setdefault((owner, nm), []).append(t.get("ln"))

    def reachable(self, roots, stop=()):
        seen = set()
        stack = list(roots)
        while stack:
            f = stack.pop()
            if f in seen:
                continue
            seen.add(f)
            if f in stop:
                continue
            for c in self.edges.get(f, ()):
                if c not in seen:
                    stack.append(c)
        return seen

    def callers_of(self, suffix):
        return sorted({c for c, es in self.edges.items() if any(e.endswith(suffix) for e in es)})

    def path_to(self, root, pred, stop=()):
        """A shortest call path root -> f with pred(f); None if none."""
        from collections import deque
        prev = {root: None}
        q = deque([root])
        while q:
            f = q.popleft()
            if pred(f) and f != root:
                out = []
                while f is not None:
                    out.append(f)
                    f = prev[f]
                return list(reversed(out))
            if f in stop:
                continue
            for c in sorted(self.edges.get(f, ())):
                if c not in prev:
                    prev[c] = f
                    q.append(c)
        return None


# ------------------------------------------------------------ guards (T2) ----

def bool_source(cfg, local, _depth=0):
    """Trace a boolean local backwards through copies and `!` to what produced it.
    Returns (source, negated) with source one of
      ('call', callee, bb) ('field', of, name, base_local) ('bin', op, stmt) ('discr', adt, place) ('unknown',)"""
    neg = False
    seen = set()
    while local not in seen and _depth < 50:
        seen.add(local)
        ds = cfg.defs().get(local, [])
        # ignore storage of constants when there is exactly one interesting def
        if len(ds) != 1:
            if 1 <= local <= cfg.mir["argc"]:
                return (("param", local), neg)
            return (("multi", local, len(ds)), neg)
        d = ds[0]
        if d[0] == "call":
            return (("call", cfg.callee(d[3]), d[1], d[3]), neg)
        s = d[3]
        r = s.get("r")
        if r == "Use":
            p = op_place(s["x"])
            if p is None:
                return (("const", op_const(s["x"]).get("v")), neg)
            projs = _place_proj(p)
            fields = [x for x in projs if isinstance(x, dict) and "f" in x]
            if fields:
                fl = fields[-1]
                return (("field", fl["of"], fl["f"], _place_local(p)), neg)
            local = _place_local(p)
            continue
        if r == "Un" and s["op"] == "Not":
            p = op_place(s["x"])
            if p is None:
                return (("unknown",), neg)
            neg = not neg
            projs = _place_proj(p)
            fields = [x for x in projs if isinstance(x, dict) and "f" in x]
            if fields:
                fl = fields[-1]
                return (("field", fl["of"], fl["f"], _place_local(p)), neg)
            local = _place_local(p)
            continue
        if r == "Bin":
            return (("bin", s["op"], s), neg)
        if r == "Discr":
            return (("discr", s.get("adt"), s["p"]), neg)
        return (("unknown", r), neg)
    return (("unknown",), neg)


def bool_switches(cfg):
    """[(bb, local, true_target, false_target)] for every two-way switch on a bool."""
    out = []
    for i, b in enumerate(cfg.blocks):
        t = b["term"]
        if t["t"] == "Switch" and t.get("xty") == "bool" and t["vals"] == [0]:
            p = op_place(t["x"])
            if p is None or not isinstance(p, int):
                if p is None:
                    continue
                # switch on a field (e.g. copy (*_1).is_const)
                out.append((i, p, t["to"][1], t["to"][0]))
                continue
            out.append((i, p, t["to"][1], t["to"][0]))
    return out


def guard_edges(cfg, pred):
    """Edges (bb, target) taken when the guard condition `pred(source)` is TRUE, and when FALSE.
    pred receives the source tuple from bool_source and returns True when it is the guard."""
    true_edges, false_edges = [], []
    for bb, p, t_true, t_false in bool_switches(cfg):
        if isinstance(p, int):
            src, neg = bool_source(cfg, p)
        else:
            fields = [x for x in _place_proj(p) if isinstance(x, dict) and "f" in x]
            if not fields:
                continue
            src, neg = ("field", fields[-1]["of"], fields[-1]["f"], _place_local(p)), False
        if pred(src):
            if neg:
                t_true, t_false = t_false, t_true
            true_edges.append((bb, t_true))
            false_edges.append((bb, t_false))
    return true_edges, false_edges


def dominated_by_guard(cfg, target_bb, pred, want=True):
    """Every path entry -> target_bb takes an edge on which guard `pred` has value `want`.
    Returns (ok, n_guards)."""
    te, fe = guard_edges(cfg, pred)
    edges = te if want else fe
    if not edges:
        return False, 0
    reach = cfg.reachable_from(0, avoid_edges=edges)
    return (target_bb not in reach), len(edges)


def is_call_result(suffix):
    return lambda src: src[0] == "call" and (src[1] or "").endswith(suffix)


def is_field(name, owner_suffix=None):
    return lambda src: src[0] == "field" and src[2] == name and (owner_suffix is None or src[1].endswith(owner_suffix))


# ------------------------------------------------------ abort inventory (T6) ----

_INT_TYS = ("u8", "u16", "u32", "u64", "u128", "usize", "i8", "i16", "i32", "i64", "i128", "isize")
_OP_TRAITS = {
    "core::ops::arith::Add::add": "Add", "core::ops::arith::Sub::sub": "Sub", "core::ops::arith::Mul::mul": "Mul",
    "core::ops::arith::Div::div": "Div", "core::ops::arith::Rem::rem": "Rem", "core::ops::arith::Neg::neg": "Neg",
    "core::ops::bit::Shl::shl": "Shl", "core::ops::bit::Shr::shr": "Shr",
    "core::ops::arith::AddAssign::add_assign": "Add", "core::ops::arith::SubAssign::sub_assign": "Sub",
    "core::ops::arith::MulAssign::mul_assign": "Mul", "core::ops::arith::DivAssign::div_assign": "Div",
    "core::ops::arith::RemAssign::rem_assign": "Rem", "core::ops::bit::ShlAssign::shl_assign": "Shl",
    "core::ops::bit::ShrAssign::shr_assign": "Shr",
}


def abort_sites(cfg):
    """Arithmetic that aborts on overflow / zero divisor in the dev profile:
    Assert terminators of the overflow class, and calls to the std operator traits on integer
    (reference) operands, which inherit the caller's overflow checks.
    Returns [(bb, kind, ln, operand_operands)]."""
    out = []
    for i, b in enumerate(cfg.blocks):
        if b.get("cleanup"):
            continue
        t = b["term"]
        if t["t"] == "Assert":
            k = t["kind"]
            if k.startswith(("Overflow", "DivisionByZero", "RemainderByZero")):
                out.append((i, k, t.get("ln"), t.get("ops", [])))
        elif t["t"] == "Call":
            f = op_const(t["f"]) or {}
            g = f.get("fn")
            if g in _OP_TRAITS:
                st = (f.get("self") or "").replace("&", "").replace("mut ", "").strip()
                if st in _INT_TYS:
                    out.append((i, "Overflow(%s) via %s on &%s" % (_OP_TRAITS[g], g.split("::")[-1], st), t.get("ln"), t["args"]))
    return out


def option_field_some_targets(cfg, field_names):
    """Blocks entered on the `Some` edge of a test of an Option-typed field named in field_names (however the test is
    written: `if let Some(x) = s.f`, `match s.f`, `let Some(x) = s.f else { return }`)."""
    out = []
    defs = cfg.defs()
    for i, b in enumerate(cfg.blocks):
        t = b["term"]
        if t["t"] != "Switch":
            continue
        p = op_place(t["x"])
        if p is None or not isinstance(p, int):
            continue
        ds = defs.get(p, [])
        if len(ds) != 1 or ds[0][0] != "stmt" or ds[0][3].get("r") != "Discr":
            continue
        if not (ds[0][3].get("adt") or "").endswith("Option"):
            continue
        pl = ds[0][3].get("p")
        names = set()
        seen = set()
        while pl is not None:
            if isinstance(pl, dict):
                names |= {x.get("f") for x in pl.get("p", []) if isinstance(x, dict) and "f" in x}
                root = pl.get("l")
            else:
                root = pl
            if root in seen:
                break
            seen.add(root)
            # follow plain copies / borrows of the field into a temporary
            rd = defs.get(root, [])
            pl = None
            if len(rd) == 1 and rd[0][0] == "stmt" and rd[0][3].get("r") in ("Use", "Ref"):
                src = rd[0][3].get("x") if rd[0][3].get("r") == "Use" else {"c": rd[0][3].get("p")}
                pl = op_place(src) if isinstance(src, dict) and ("c" in src or "m" in src) else None
        if not (names & set(field_names)):
            continue
        for v, tgt in zip(t["vals"], t["to"]):
            if v == 1:
                out.append(tgt)
        if 1 not in t["vals"] and 0 in t["vals"]:
            out.append(t["to"][-1])
    return out


def bounded_by_bool_cast(cfg, ops):
    """Value-range fact used to discharge Overflow(Add/Sub/Mul): one operand is `<bool> as <int>` (0 or 1, possibly
    through copies) and the other a constant of magnitude < 64, so the result fits every integer type."""
    def from_bool(op, depth=0):
        p = op_place(op)
        if p is None or not isinstance(p, int) or depth > 6:
            return False
        ds = cfg.defs().get(p, [])
        if len(ds) != 1 or ds[0][0] != "stmt":
            return False
        s = ds[0][3]
        if s.get("r") == "Cast" and s.get("from") == "bool":
            return True
        if s.get("r") == "Use":
            return from_bool(s["x"], depth + 1)
        return False

    def small_const(op):
        k = op_const(op)
        return k is not None and isinstance(k.get("v"), int) and not isinstance(k.get("v"), bool) and abs(k["v"]) < 64
    return len(ops) == 2 and ((from_bool(ops[0]) and small_const(ops[1])) or (from_bool(ops[1]) and small_const(ops[0])))


def known_nonnegative(cfg, local, _depth=0):
    """Value-range fact used to discharge OverflowNeg: the local is the result of
    `i64::try_from(<u64>).unwrap_or(<non-negative const>)` (possibly through copies), hence in [0, i64::MAX]."""
    seen = set()
    while local not in seen and _depth < 20:
        seen.add(local)
        ds = cfg.defs().get(local, [])
        if len(ds) != 1:
            return False
        d = ds[0]
        if d[0] == "stmt":
            s = d[3]
            if s.get("r") == "Use":
                p = op_place(s["x"])
                if p is None or not isinstance(p, int):
                    return False
                local = p
                continue
            return False
        t = d[3]
        cal = cfg.callee_generic(t) or ""
        if cal.endswith("Result::<T, E>::unwrap_or"):
            k = op_const(t["args"][1]) or {}
            nonneg_default = (k.get("named") or "").endswith("::MAX") or (isinstance(k.get("v"), int) and k["v"] >= 0)
            p = op_place(t["args"][0])
            if not nonneg_default or p is None:
                return False
            src = cfg.defs().get(_place_local(p), [])
            if len(src) == 1 and src[0][0] == "call":
                f = op_const(src[0][3]["f"]) or {}
                return (f.get("fn") or "").endswith("TryFrom::try_from") and f.get("targs", [None, None])[:2] == ["i64", "u64"]
            return False
        return False
    return False


# ------------------------------------------------------------ taint (T6) ----

TAINT_ADTS = ("rssl_ir::ir_types::Constant::", "rssl_ir::ir_types::RestrictedConstant::", "rssl_ast::ast_expressions::Literal::",
              "rssl_text::tokens::Token::Literal", "rssl_ir::ir_types::TypeLayer::Array")


def tainted_locals(cfg, extra_sources=()):
    """Locals that (transitively) hold a number written by the user: payloads of literal tokens, AST literals,
    IR constants, array lengths. Forward propagation through copies, casts, arithmetic and call results."""
    taint = set()

    def place_tainted(p):
        if p is None:
            return False
        if _place_local(p) in taint:
            return True
        for pr in _place_proj(p):
            if isinstance(pr, dict) and "f" in pr and pr.get("of", "").startswith(TAINT_ADTS):
                return True
        return False

    def operand_tainted(op):
        return place_tainted(op_place(op))
    changed = True
    n = 0
    while changed and n < 50:
        changed = False
        n += 1
        for b in cfg.blocks:
            for s in b["s"]:
                d = _place_local(s["d"])
                if d in taint:
                    continue
                ops = cfg.stmt_operands(s)
                if any(operand_tainted(o) for o in ops):
                    taint.add(d)
                    changed = True
            t = b["term"]
            if t["t"] == "Call":
                d = _place_local(t["d"])
                if d not in taint:
                    cal = cfg.callee(t) or ""
                    if any(operand_tainted(a) for a in t["args"]) or any(cal.endswith(x) for x in extra_sources):
                        # results of type-registry / context lookups are not numbers from the user
                        if short(cal) in ("get_type_layer", "remove_modifier", "get_type", "len", "is_empty", "clone_from"):
                            continue
                        taint.add(d)
                        changed = True
    return taint
