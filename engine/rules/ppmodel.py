"""Print o parse on declarations, read as a table.

The formatter's declaration printers (format_function_param, format_init_declarators, format_variable_definition,
format_global_variable, format_function, format_struct, format_enum, format_constant_buffer) are walked by the
finite-map reader on model syntax trees; the text is cut into tokens; the parser's function for the same construct is
walked on those tokens; the tree that comes back must be the one that was printed. Types, declarators, expressions and
location annotations are opaque: their printers are stand-ins that write an identifier with a telling prefix (T_, d_, e_,
s_), their parsers are stand-ins that accept exactly such an identifier. Nothing of rssl is executed."""
import re
import interp as I

FMT, PAR = "rssl_formatter", "rssl_parser"
KW = {"struct": "Struct", "enum": "Enum", "cbuffer": "ConstantBuffer", "typedef": "Typedef", "namespace": "Namespace", "register": "Register", "const": "Const", "volatile": "Volatile",
      "if": "If", "else": "Else", "for": "For", "while": "While", "do": "Do", "switch": "Switch", "break": "Break", "continue": "Continue", "discard": "Discard", "return": "Return",
      "case": "Case", "default": "Default", "template": "Template", "typename": "Typename"}
PU = {"*": "Asterix", "&": "Ampersand", "(": "LeftParen", ")": "RightParen", ";": "Semicolon", ":": "Colon", "{": "LeftBrace", "}": "RightBrace", "[": "LeftSquareBracket", "]": "RightSquareBracket", ",": "Comma", "=": "Equals"}


def opt(v):
    return I.Enum("Option", "None") if v is None else I.Enum("Option", "Some", {"0": v})


def ok(v):
    return I.Enum("Result", "Ok", {"0": v})


def loc(v):
    return I.Enum("Located", None, {"node": v, "location": I.Opaque("location")})


def deref(v):
    return v.get() if isinstance(v, I.Ref) else v


def T(t):
    return I.Enum("Type", "Tagged", {"tag": "T_" + t})


def D(t):
    return I.Enum("Declarator", "Tagged", {"tag": "d_" + t})


def E(t):
    return I.Enum("Expression", "Tagged", {"tag": "e_" + t})


def A(t):
    return I.Enum("LocationAnnotation", "Tagged", {"tag": "s_" + t})


def tk(k, v=None):
    return I.Enum("LexToken", None, {"0": I.Enum("Token", k, {} if v is None else {"0": v}), "1": I.Opaque("location")})


def lex(text):
    toks, pos = [], 0
    for m in re.finditer(r"(\w+)|([(){};:\[\],=*&])|\s+", text):
        if m.start() != pos:
            return None
        pos = m.end()
        if m.group(1):
            w = m.group(1)
            toks.append(tk(KW[w]) if w in KW else tk("Id", I.Enum("Identifier", None, {"0": w})))
        elif m.group(2):
            toks.append(tk(PU[m.group(2)]))
    return toks + [tk("Eof")] if pos == len(text) else None


def norm(v):
    if isinstance(v, I.Enum):
        if v.adt == "Located":
            return norm(v.fields["node"])
        return (v.adt, v.variant, tuple((k, norm(x)) for k, x in sorted(v.fields.items()) if k != "location"))
    if isinstance(v, (list, tuple)):
        return tuple(norm(x) for x in v)
    return "opaque" if isinstance(v, I.Opaque) else v


def _emit(prefix_text=""):
    def fn(a):
        e = deref(a[0])
        if isinstance(e, I.Enum) and e.adt == "Located":
            e = e.fields["node"]
        out = [x for x in a[1:] if isinstance(x, I.Ref) and isinstance(x.get(), str)][0]
        out.set(out.get() + prefix_text + e.fields["tag"])
        return ok(())
    return fn


def _emit_list(a):
    out = [x for x in a[1:] if isinstance(x, I.Ref) and isinstance(x.get(), str)][0]
    for e in deref(a[0]):
        out.set(out.get() + " : " + deref(e).fields["tag"])
    return ok(())


FEXT = {"format_type": _emit(), "format_type_id": _emit(), "format_declarator": _emit(" "), "format_expression": _emit(), "format_expression_no_seq": _emit(),
        "format_location_annotations": _emit_list, "format_location_annotation": _emit(" : "), "format_attributes": lambda a: ok(()), "format_attribute": lambda a: ok(()),
        "format_template_param_list": lambda a: ok(())}


def _fail(inp):
    return I.Enum("Result", "Err", {"0": I.Enum("ParseErrorContext", None, {"0": inp, "1": len(inp), "2": I.Enum("ParseErrorReason", "WrongToken")})})


def _consume(prefix, build, colon=False):
    def fn(a):
        inp = deref(a[0])
        i = 0
        if colon:
            if not (inp and inp[0].fields["0"].variant == "Colon"):
                return _fail(inp)
            i = 1
        if len(inp) > i and inp[i].fields["0"].variant == "Id":
            w = inp[i].fields["0"].fields["0"].fields["0"]
            if w.startswith(prefix):
                return ok((list(inp[i + 1:]), build(w)))
        return _fail(inp)
    return fn


PEXT = {"parse_type": _consume("T_", lambda w: I.Enum("Type", "Tagged", {"tag": w})), "parse_type_id": _consume("T_", lambda w: I.Enum("Type", "Tagged", {"tag": w})),
        "parse_declarator": _consume("d_", lambda w: I.Enum("Declarator", "Tagged", {"tag": w})),
        "parse_expression": _consume("e_", lambda w: loc(I.Enum("Expression", "Tagged", {"tag": w}))), "parse_expression_no_seq": _consume("e_", lambda w: loc(I.Enum("Expression", "Tagged", {"tag": w}))),
        "parse_location_annotation": _consume("s_", lambda w: I.Enum("LocationAnnotation", "Tagged", {"tag": w}), colon=True),
        "parse_attribute": lambda a: _fail(deref(a[0])), "parse_attribute_double_only": lambda a: _fail(deref(a[0])), "parse_template_params": lambda a: ok((deref(a[0]), I.Enum("TemplateParamList", None, {"0": []})))}


def roundtrip(facts, fmt_fn, parse_fn, value, extra_fmt_args=(), depth=16, real=()):
    """`real`: names of stand-ins to drop on both sides (the repository's own functions are walked instead)."""
    fext = {k: v for k, v in FEXT.items() if k not in real}
    pext = {k: v for k, v in PEXT.items() if k not in real}
    return _roundtrip(facts, fmt_fn, parse_fn, value, extra_fmt_args, depth, fext, pext)


def _roundtrip(facts, fmt_fn, parse_fn, value, extra_fmt_args, depth, FEXT, PEXT):
    """-> ('same', text) | ('differs', text, tree) | ('rejected', text) | ('prefix', text) | ('refused',) | ('aborts'|'unreadable', where, why)"""
    env = {"out": ""}
    ctx = I.Enum("FormatContext", None, {"indent": 0, "target": I.Enum("Target", "Hlsl")})
    try:
        r = I.Interp(facts, max_depth=depth, extern=FEXT).apply(fmt_fn, [value] + list(extra_fmt_args) + [I.Ref(env, "out"), ctx])
    except I.Unknown as e:
        return ("aborts" if "panicking" in str(e) else "unreadable", "printing", str(e)[:100])
    if not (isinstance(r, I.Enum) and r.variant == "Ok"):
        return ("refused",)
    text = env["out"]
    flat = " ".join(text.split())
    toks = lex(text)
    if toks is None:
        return ("rejected", flat)
    try:
        r2 = I.Interp(facts, max_depth=depth + 2, extern=PEXT).apply(parse_fn, [toks])
    except I.Unknown as e:
        return ("aborts" if "panicking" in str(e) else "unreadable", "parsing `%s`" % flat, str(e)[:100])
    if not (isinstance(r2, I.Enum) and r2.variant == "Ok"):
        return ("rejected", flat)
    rest, back = r2.fields["0"]
    if len(rest) != 1:
        return ("prefix", flat)
    return ("same", flat) if norm(back) == norm(value) else ("differs", flat, back)
