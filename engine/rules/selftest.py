"""Thorough tier: checker self-test (mutants that must be reported, applied to a scratch copy of /repo).
Filled in by engine/selftest/mutants/*.diff; see run()."""
import glob
import json
import os
import shutil
import subprocess
import tempfile

import facts as F
import report


def run(pid, chk):
    """Apply every mutant diff registered for `pid` to a scratch copy of /repo, re-extract facts
    (cargo check proves the mutant compiles) and require that the named rule instance is reported.
    Returns 0 when every mutant is caught, 1 otherwise."""
    mdir = os.path.join(F.VERIF, "engine", "selftest", "mutants")
    diffs = sorted(glob.glob(os.path.join(mdir, pid + "-*.diff")))
    if not diffs:
        print("  selftest: no mutants registered for %s" % pid)
        return 0
    import importlib
    mod = importlib.import_module(pid.lower())
    rc = 0
    results = []
    for d in diffs:
        meta_path = d[:-5] + ".json"
        expect = json.load(open(meta_path))["expect_keys"] if os.path.exists(meta_path) else []
        scratch = tempfile.mkdtemp(prefix="rssl-mutant-")
        try:
            repo = os.path.join(scratch, "repo")
            subprocess.check_call(["rsync", "-a", "--exclude", "target", "--exclude", ".git", F.REPO + "/", repo + "/"])
            p = subprocess.run(["patch", "-p1", "-s", "-i", d], cwd=repo, stdout=subprocess.PIPE, stderr=subprocess.STDOUT, text=True)
            if p.returncode != 0:
                print("  selftest: %s does not apply to the current tree (skipped: %s)" % (os.path.basename(d), p.stdout.strip()[:120]))
                results.append({"mutant": os.path.basename(d), "status": "not-applicable"})
                continue
            try:
                fdir, s2, _ = F.extract(repo=repo)
            except F.ExtractionError as e:
                print("  selftest: %s does not compile (skipped)" % os.path.basename(d))
                results.append({"mutant": os.path.basename(d), "status": "does-not-compile"})
                continue
            try:
                facts2 = F.Facts(fdir)
                c2 = report.Check(pid, facts2, tier="selftest")
                try:
                    mod.run(c2)
                except Exception as ex:  # fail closed counts as reported
                    c2.ob(pid + ".engine/exception", False, str(ex), "engine")
                known = report.load_known()
                failing = {o["key"] for o in c2.obligations if not o["ok"] and (pid, o["key"]) not in known}
                hit = [k for k in expect if k in failing] if expect else sorted(failing)
                ok = bool(hit)
                print("  selftest: mutant %-40s %s %s" % (os.path.basename(d), "CAUGHT" if ok else "MISSED", hit[:3]))
                results.append({"mutant": os.path.basename(d), "status": "caught" if ok else "missed", "keys": hit[:5]})
                if not ok:
                    rc = 1
                    rp = os.path.join(report.REPLAY_DIR, "%s-selftest-%s.json" % (pid, os.path.basename(d)))
                    os.makedirs(report.REPLAY_DIR, exist_ok=True)
                    json.dump({"property": pid, "key": pid + ".selftest/" + os.path.basename(d),
                               "instances": [{"where": d, "why": "checker self-test: this mutant is no longer reported"}]}, open(rp, "w"))
                    print("VIOLATION property=%s replay=%s" % (pid, rp))
            finally:
                shutil.rmtree(s2, ignore_errors=True)
        finally:
            shutil.rmtree(scratch, ignore_errors=True)
    # append self-test results to the evidence file
    ev_path = os.path.join(report.EVID_DIR, pid + ".json")
    if os.path.exists(ev_path):
        ev = json.load(open(ev_path))
        ev["coverage"]["selftest_mutants"] = results
        json.dump(ev, open(ev_path, "w"), indent=1)
    return rc
