"""Thorough tier: checker self-test.

Every mutant in engine/selftest/mutants/<PID>-*.diff (one broken rule instance each, still compiling) is applied to a
scratch copy of /repo outside /repo and /verif, the check is run against that copy (facts are re-extracted, so `cargo
check` proves the mutant compiles) and the named rule instance must be reported. The scratch copy and its build output
are removed immediately. A mutant that no longer applies to the current tree is reported as skipped (the tree moved),
a mutant that applies, compiles and is NOT reported makes the thorough check fail."""
import concurrent.futures
import glob
import json
import os
import re
import shutil
import subprocess
import tempfile

import facts as F
import report


def _one(pid, d):
    name = os.path.basename(d)
    meta_path = d[:-5] + ".json"
    expect = json.load(open(meta_path)).get("expect_keys", []) if os.path.exists(meta_path) else []
    if os.path.basename(d) == "patch.diff":          # a seeded change kept under /verif/seeded/<id>/
        name = "seeded-" + os.path.basename(os.path.dirname(d))
        mp = os.path.join(os.path.dirname(d), "meta.json")
        expect = (json.load(open(mp)).get("caught_by") or {}).get(pid, []) if os.path.exists(mp) else []
    scratch = tempfile.mkdtemp(prefix="rssl-mutant-")
    try:
        repo = os.path.join(scratch, "repo")
        subprocess.check_call(["rsync", "-a", "--exclude", "target", "--exclude", ".git", F.REPO + "/", repo + "/"])
        p = subprocess.run(["patch", "-p1", "-s", "-i", d], cwd=repo, stdout=subprocess.PIPE, stderr=subprocess.STDOUT, text=True)
        if p.returncode != 0:
            return {"mutant": name, "status": "not-applicable", "detail": p.stdout.strip()[:160]}
        env = dict(os.environ, VERIF_EVIDENCE_DIR=os.path.join(scratch, "evidence"))
        env.pop("FACTS_DIR", None)
        r = subprocess.run([os.path.join(F.VERIF, "bin", "check"), pid, "--repo", repo, "--tier", "quick"],
                           stdout=subprocess.PIPE, stderr=subprocess.STDOUT, text=True, env=env)
        if r.returncode == 2:
            return {"mutant": name, "status": "does-not-compile"}
        keys = re.findall(r"^  FAIL \S+(?: \S+)*?  (C\d+\.\S+)  ", r.stdout, flags=re.M)
        keys = [k for k in keys]
        hit = [k for k in expect if k in keys] if expect else keys
        if hit and r.returncode == 1:
            status = "caught"
        elif keys and r.returncode == 1:
            # reported, but by another rule instance than the recorded one (rule instances are renamed when a shape rule
            # becomes the fallback of a table): the change is still reported by this property's check
            status, hit = "caught-by-another-instance", keys
        else:
            status = "missed"
        return {"mutant": name, "status": status, "keys": hit[:4], "reported": len(keys)}
    finally:
        shutil.rmtree(scratch, ignore_errors=True)


def run(pid, chk):
    mdir = os.path.join(F.VERIF, "engine", "selftest", "mutants")
    diffs = sorted(glob.glob(os.path.join(mdir, pid + "-*.diff")))
    # seeded changes (made by independent agents, confirmed by hand) that this property's check is recorded to report
    for mp in sorted(glob.glob(os.path.join(F.VERIF, "seeded", "*", "meta.json"))):
        try:
            cb = json.load(open(mp)).get("caught_by") or {}
        except ValueError:
            continue
        pd = os.path.join(os.path.dirname(mp), "patch.diff")
        if cb.get(pid) and os.path.exists(pd):
            diffs.append(pd)
    if not diffs:
        print("  selftest: no mutants registered for %s" % pid)
        return 0
    rc = 0
    with concurrent.futures.ThreadPoolExecutor(max_workers=min(8, len(diffs))) as ex:
        results = list(ex.map(lambda d: _one(pid, d), diffs))
    for res in results:
        print("  selftest: mutant %-44s %s %s" % (res["mutant"], res["status"].upper(), res.get("keys", res.get("detail", ""))))
        if res["status"] == "missed":
            rc = 1
            os.makedirs(report.REPLAY_DIR, exist_ok=True)
            rp = os.path.join(report.REPLAY_DIR, "%s-selftest-%s.json" % (pid, res["mutant"]))
            json.dump({"property": pid, "key": pid + ".selftest/" + res["mutant"],
                       "instances": [{"where": res["mutant"], "why": "checker self-test: this mutant compiles but is no longer reported"}]}, open(rp, "w"))
            print("VIOLATION property=%s replay=%s" % (pid, rp))
    ev_path = os.path.join(report.EVID_DIR, pid + ".json")
    if os.path.exists(ev_path):
        ev = json.load(open(ev_path))
        ev["coverage"]["selftest_mutants"] = results
        ev["coverage"]["selftest_caught"] = sum(1 for r in results if r["status"].startswith("caught"))
        json.dump(ev, open(ev_path, "w"), indent=1)
    return rc
