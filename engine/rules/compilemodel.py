"""rssl::compile read as a table.

compile() is the glue between the stages: it builds the predefined macros, calls the preprocessor, the parser, the type
checker, optionally the layout checker, selects pipelines and calls build_pipeline for each. Here every stage is a
scripted stand-in (it returns what the scenario says and records what it was given), the function body itself is walked
by the finite-map reader. Nothing of rssl is executed.
"""
import interp as I


class Scenario:
    def __init__(self, target="HlslForDirectX", fail=None, pipelines=("A", "B", "C"), pipeline_name=None, no_pipeline_mode=False,
                 validate_layout=True, support_buffer_address=False):
        self.target, self.fail, self.pipelines = target, fail, list(pipelines)
        self.pipeline_name, self.no_pipeline_mode = pipeline_name, no_pipeline_mode
        self.validate_layout, self.sba = validate_layout, support_buffer_address


class Run:
    def __init__(self):
        self.calls = []         # names of the stages reached, in order
        self.defines = None
        self.built = []         # pipeline names handed to build_pipeline (None for the no-pipeline build)
        self.result = None      # ('Ok', [names]) | ('Err', 'Text', text) | ('Err', variant) | ('aborts', why) | ('unreadable', why)


def run_compile(facts, comp, sc):
    r = Run()
    ok = lambda v: I.Enum("Result", "Ok", {"0": v})
    err = lambda stage: I.Enum("Result", "Err", {"0": I.Enum("StageError", stage)})
    loc = lambda s_: I.Enum("Located", None, {"node": s_, "location": I.Opaque("loc")})
    module = I.Enum("Module", None, {"pipelines": [I.Enum("PipelineDefinition", None, {"name": loc(n), "stages": [], "graphics_pipeline_state": I.Enum("Option", "None")})
                                                   for n in sc.pipelines]})

    def stage(name, value):
        def f_(a):
            r.calls.append(name)
            if name == "preprocess":
                d = a[3] if len(a) > 3 else None
                d = d.get() if isinstance(d, I.Ref) else d
                r.defines = list(d) if isinstance(d, list) else d
            return err(name) if sc.fail == name else ok(value)
        return f_

    def build(a):
        r.calls.append("build_pipeline")
        p = a[4] if len(a) > 4 else None
        p = p.get() if isinstance(p, I.Ref) else p
        nm = None
        if isinstance(p, I.Enum) and p.variant == "Some":
            pd = p.fields["0"]
            pd = pd.get() if isinstance(pd, I.Ref) else pd
            nm = pd.fields["name"].fields["node"]
        r.built.append(nm)
        if sc.fail == "build_pipeline":
            return I.Enum("Result", "Err", {"0": I.Enum("CompileError", "Text", {"0": "export failed"})})
        return ok(I.Enum("CompiledPipeline", None, {"name": nm}))

    def display(a):
        e0 = a[0].get() if isinstance(a[0], I.Ref) else a[0]
        return "rendered diagnostic of %s" % (e0.variant if isinstance(e0, I.Enum) else "?")
    ext = {"preprocess::preprocess": stage("preprocess", I.Opaque("tokens")), "preprocess::prepare_tokens": lambda a: (r.calls.append("prepare_tokens") or I.Opaque("lex tokens")),
           "parser::parse": stage("parse", I.Opaque("ast")), "typer::type_check": stage("type_check", module), "type_check": stage("type_check", module),
           "layout_checker::check_layout": stage("check_layout", ()), "build_pipeline": build, "SourceManager::new": lambda a: I.Opaque("source manager"),
           "::display": display}
    ip = I.Interp(facts, max_depth=6, extern=ext)
    ip.max_loop = 64
    args = I.Enum("CompileArgs", None, {
        "target": I.Enum("Target", sc.target), "support_buffer_address": sc.sba, "defines": [("USER", "1")], "entry_file_name": "main.rssl",
        "include_handler": I.Opaque("includes"), "validate_layout_consistency": sc.validate_layout, "no_pipeline_mode": sc.no_pipeline_mode,
        "pipeline_name": I.Enum("Option", "Some", {"0": sc.pipeline_name}) if sc.pipeline_name is not None else I.Enum("Option", "None"),
        "source_info": False})
    try:
        v = ip.apply(comp, [args])
    except I.Unknown as e:
        msg = str(e)
        r.result = ("aborts" if "panicking" in msg else "unreadable", msg[:120])
        return r
    if isinstance(v, I.Enum) and v.variant == "Ok" and isinstance(v.fields.get("0"), list):
        r.result = ("Ok", [p.fields.get("name") if isinstance(p, I.Enum) else p for p in v.fields["0"]])
    elif isinstance(v, I.Enum) and v.variant == "Err":
        e0 = v.fields.get("0")
        if isinstance(e0, I.Enum) and e0.variant == "Text":
            r.result = ("Err", "Text", e0.fields.get("0"))
        else:
            r.result = ("Err", getattr(e0, "variant", repr(e0)))
    else:
        r.result = ("unreadable", repr(v)[:80])
    return r


def run_build(facts, bp, target, with_pipeline=True, fail_export=False):
    """build_pipeline walked by the reader for one target; select_pipeline / assign_api_bindings / the exporters are
    stand-ins that stamp the module they are given and record the order of the calls.
    -> dict(calls=[...], result=('Ok', CompiledPipeline fields) | ('Err', ..) | ('aborts'|'unreadable', why), ...)"""
    ok = lambda v: I.Enum("Result", "Ok", {"0": v})
    opt = lambda v: I.Enum("Option", "None") if v is None else I.Enum("Option", "Some", {"0": v})
    loc = lambda s_: I.Enum("Located", None, {"node": s_, "location": I.Opaque("location")})

    def deref(v):
        return v.get() if isinstance(v, I.Ref) else v
    calls = []
    stages = [("Compute", 3, (8, 4, 2)), ("Pixel", 5, None), ("Task", 7, (32, 1, 1))]
    pdef = I.Enum("PipelineDefinition", None, {
        "name": loc("P"), "default_bind_group_index": 0,
        "stages": [I.Enum("PipelineStage", None, {"stage": I.Enum("ShaderStage", s_), "entry_point": I.Enum("FunctionId", None, {"0": fid}),
                                                   "thread_group_size": opt(tg)}) for s_, fid, tg in stages],
        "graphics_pipeline_state": opt(I.Enum("GraphicsPipelineState", None, {"tag": "state of P"}))})
    module = I.Enum("Module", None, {"root_definitions": [], "function_registry": I.Opaque("function registry"), "pipelines": [pdef]})

    def stamped(m, what):
        m = deref(m)
        return I.Enum("Module", None, dict(m.fields, root_definitions=list(m.fields["root_definitions"]) + [what]))

    def select(a):
        nm = deref(a[1])
        nm = nm.fields.get("node") if isinstance(nm, I.Enum) else nm
        calls.append(("select_pipeline", nm, tuple(deref(a[0]).fields["root_definitions"])))
        return ok(stamped(a[0], "selected " + str(nm)))

    def assign(a):
        calls.append(("assign_api_bindings", deref(a[1]), tuple(deref(a[0]).fields["root_definitions"])))
        return stamped(a[0], "bound")

    def export(name):
        def f_(a):
            calls.append((name, tuple(deref(a[0]).fields["root_definitions"]), a[1] if len(a) > 1 else None))
            if fail_export:
                return I.Enum("Result", "Err", {"0": I.Enum("GenerateError", "Failed")})
            return ok(I.Enum("ExportedSource", None, {"source": "text from " + name, "pipeline_description": I.Enum("PipelineDescription", None, {"tag": "description from " + name})}))
        return f_
    ext = {"Module::select_pipeline": select, "Module::assign_api_bindings": assign, "export_to_hlsl": export("export_to_hlsl"), "export_to_msl": export("export_to_msl"),
           "FunctionRegistry::get_function_name": lambda a: "function%d" % deref(a[1]).fields["0"], "::display": lambda a: "rendered export error",
           "MetalCompiler::find": lambda a: I.Enum("Result", "Err", {"0": I.Enum("FindError", "NotFound")})}
    ip = I.Interp(facts, max_depth=6, extern=ext)
    ip.max_loop = 64
    args = I.Enum("CompileArgs", None, {"target": I.Enum("Target", target), "support_buffer_address": False, "no_pipeline_mode": not with_pipeline, "source_info": False})
    out = {"calls": calls, "stages": stages, "module": module}
    try:
        r = ip.apply(bp, [args, module, I.Opaque("source manager"), I.Enum("AssignBindingsParams", None, {"tag": "binding params"}), opt(pdef) if with_pipeline else opt(None), False])
    except I.Unknown as e:
        out["result"] = ("aborts" if "panicking" in str(e) else "unreadable", str(e)[:120])
        return out
    if isinstance(r, I.Enum) and r.variant == "Ok" and isinstance(r.fields.get("0"), I.Enum):
        out["result"] = ("Ok", r.fields["0"].fields)
    elif isinstance(r, I.Enum) and r.variant == "Err":
        e0 = r.fields.get("0")
        out["result"] = ("Err", getattr(e0, "variant", repr(e0)), e0.fields.get("0") if isinstance(e0, I.Enum) else None)
    else:
        out["result"] = ("unreadable", repr(r)[:80])
    return out
