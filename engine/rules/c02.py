"""C02 — MSL export preserves the meaning of every accepted program (structural necessary conditions)."""
import c01
import facts as F
import thirflow as TF
import interp as I
import itertools
from facts import short, where

EXPLANATION = (
    "Bit-identical results under Metal semantics are NOT decided (no Metal evaluator; Metal is not even parsed here). "
    "Decided structural necessary conditions: C02.op / C02.shape / C02.lit / C02.swz — the C01 rules applied to the MSL "
    "exporter (operator table composed with the typer's is the identity except the documented float `%` -> fmod "
    "lowering; each child position of every emitted node comes from the same child of the IR node; literal kind tables). "
    "C02.sibling — the MSL operator table equals the HLSL one on all common operators. C02.thread — implicit parameter "
    "threading: for every ImplicitFunctionParameter variant the identifier declared as parameter in "
    "generate_function_inner equals the identifier passed by append_arguments_for_globals, both iterate "
    "function_required_globals[id] in order; for globals both come from one GlobalMode::Parameter whose parameter "
    "declarator and argument are built from the same name; every construction of a user call is preceded by "
    "append_arguments_for_globals on the same argument vector; the required-globals list is computed from "
    "GlobalUsageAnalysis, whose visitors recurse into every sub-expression of every IR node kind (visitor totality) and "
    "record globals, cbuffers and callees. C02.out — the out/inout trampoline declares a local per non-`in` parameter, "
    "copies in exactly for inout, passes the local, and copies back after the call."
)
ASSUMPTIONS = ["rustc THIR/MIR is a faithful view of the source"]
MSL = "rssl_msl"


def run(chk):
    c01.run(chk, crate=MSL, P="C02")
    rule_sibling_ops(chk)
    rule_thread(chk)
    if not rule_usage_eval(chk):
        rule_usage(chk)
    rule_out(chk)
    rule_trampoline_when(chk)
    rule_operand_repeated(chk)
    rule_global_threading(chk)
    rule_simplify_cbuffers_eval(chk)
    import semmodel
    semmodel.rule_msl(chk, "C02.semantic")
    rule_float_remainder(chk)


def rule_float_remainder(chk):
    """Metal defines `%` for integer operands only; the remainder of floating-point operands (HLSL's `%`: truncated
    quotient, sign of the dividend) is metal::fmod. The Metal generate_expression walked on `L % R` for every scalar kind,
    as scalar and as vector: integer operands give the operator, floating ones a call of fmod, operands in order."""
    import interp as I
    import exportmodel as XM
    f = chk.facts
    if not f.fn("generate_expression", MSL):
        return
    rt = XM.RoundTrip(f, MSL)
    el = rt.el
    n = 0
    bad = None
    for t in ("Int32", "UInt32", "Int323", "UInt322", "Float16", "Float163", "Float32", "Float322", "Float324"):
        if t not in el.u.names:
            continue
        a, b = el.ety(t, 0, "Lvalue"), el.ety(t, 0, "Rvalue")
        node = I.Enum("Expression", "IntrinsicOp", {"0": I.Enum("IntrinsicOp", "Modulus"), "1": [el.operand_node("L", a), el.operand_node("R", b)]})
        r = rt.export(node, {"L": a, "R": b})
        if r[0] == "unreadable":
            chk.note("C02.remainder: the Metal generate_expression is not readable on a remainder (%s); not decided" % r[1][:80])
            return
        n += 1
        floating = t.startswith("Float")
        e = r[1] if r[0] == "Ok" else None
        def ast_leaves(v, out):
            # identifiers of the emitted syntax tree, left to right
            if isinstance(v, I.Enum):
                if v.variant == "Identifier" and v.adt == "Expression":
                    ids = v.fields["0"].fields.get("identifiers")
                    out.append("::".join(x.fields["node"] for x in ids) if isinstance(ids, list) else "?")
                    return out
                for k_ in sorted(v.fields):
                    ast_leaves(v.fields[k_], out)
            elif isinstance(v, (list, tuple)):
                for x in v:
                    ast_leaves(x, out)
            return out
        leaves = ast_leaves(e, []) if e is not None else None
        is_op = isinstance(e, I.Enum) and e.variant == "BinaryOperation" and getattr(e.fields.get("0"), "variant", None) == "Modulus"
        callee = None
        if isinstance(e, I.Enum) and e.variant == "Call":
            c = e.fields["0"]
            c = c.fields.get("node") if isinstance(c, I.Enum) and c.adt == "Located" else c
            ids = c.fields["0"].fields.get("identifiers") if isinstance(c, I.Enum) and c.variant == "Identifier" else None
            callee = "::".join(x.fields["node"] for x in ids) if isinstance(ids, list) else None
        okk = r[0] == "Ok" and ((is_op and not floating) or (floating and callee in ("metal::fmod", "fmod")))
        if okk and leaves is not None and [x for x in leaves if x in ("L", "R")] != ["L", "R"]:
            okk = False
        if not okk and bad is None:
            bad = "`L %% R` on %s operands is exported to Metal as %s; %s" % (t, ("the call %s(..)" % callee) if callee else ("the operator %" if is_op else str(r[:2])[:80]),
                                                                           "Metal has no % for floating-point operands, the remainder is metal::fmod(L, R)" if floating else "integer operands take the operator")
    chk.ob("C02.remainder/by-operand-kind", bad is None, bad or "%d operand kinds: integer remainders use %%, floating ones metal::fmod" % n, where(f.fn("generate_expression", MSL)), sample={"kinds": n})


def rule_sibling_ops(chk):
    f = chk.facts
    gh, th, _ = c01.exporter_op_table(f, "rssl_hlsl")
    gm, tm, _ = c01.exporter_op_table(f, MSL)
    if not gh or not gm:
        return
    for op in sorted(set(th) | set(tm)):
        a, b = th.get(op), tm.get(op)
        if a is None:
            continue      # internal operators HLSL never sees (created by MSL-only rewrites)
        if b is None and op in th:
            # operators MSL lowers differently must still be handled somewhere in generate_intrinsic_op
            handled = any(p.get("variant") == op for p in F.walk(gm["thir"]) if p.get("k") == "Variant" and short(p.get("adt", "")) == "IntrinsicOp")
            chk.ob("C02.sibling/op/%s" % op, handled, "lowered specially by the MSL exporter" if handled else "the MSL exporter has no case for IntrinsicOp::%s" % op, where(gm))
            continue
        chk.ob("C02.sibling/op/%s" % op, a == b, "same operator in HLSL and MSL: %s" % (a[2] if a else None) if a == b else
               "IntrinsicOp::%s prints as %s in HLSL but %s in MSL" % (op, a, b), where(gm), sample={"op": op, "hlsl": str(a), "msl": str(b)})


def ident_of(node, f):
    """The identifier string (literal or named constant) inside a ScopedIdentifier::trivial(..) under node."""
    out = []
    for c in F.exprs(node, "Call"):
        if short(c.get("fn") or "") == "trivial" and c.get("args"):
            a = F.strip(c["args"][0])
            l = F.lit(a)
            if l:
                out.append(l[1])
            elif a.get("k") == "Const":
                cb = f.bodies.get(a["path"])
                l2 = F.lit(cb["thir"]) if cb else None
                out.append(l2[1] if l2 else short(a["path"]))
    return out


def rule_thread(chk):
    f = chk.facts
    gfi = chk.anchor("C02.anchor/generate_function_inner", f.fn("generate_function_inner", MSL), "msl generate_function_inner")
    app = chk.anchor("C02.anchor/append_arguments_for_globals", f.fn("append_arguments_for_globals", MSL), "append_arguments_for_globals")
    if not gfi or not app:
        return

    def table(fn, want_decl):
        tab = {}
        src = None
        for m in F.find_matches(fn, "ImplicitFunctionParameter"):
            for arm in m["arms"]:
                pv = F.pat_variant(F.pat_alternatives(arm["pat"])[0])
                if not pv:
                    continue
                if pv[1] == "Global":
                    flds = set()
                    for mm in F.exprs(arm["body"], "Match"):
                        for a2 in mm["arms"]:
                            if F.pat_variant(a2["pat"]) == ("GlobalMode", "Parameter"):
                                flds |= {sp["f"] for sp in a2["pat"].get("subs", []) if sp["p"].get("k") == "Bind"}
                    tab["Global"] = sorted(flds)
                else:
                    ids = ident_of(arm["body"], f)
                    tab[pv[1]] = ids[-1] if ids else None
            src = m
        return tab, src
    dt, dm = table(gfi, True)
    at, am = table(app, False)
    chk.floor("C02.floor/implicit-parameter-kinds", len(at), 6, "ImplicitFunctionParameter kinds handled", where(app))
    for k in sorted(set(dt) | set(at)):
        if k == "Global":
            ok = dt.get(k) == ["param"] and at.get(k) == ["argument"]
            chk.ob("C02.thread/ident/Global", ok, "declared from GlobalMode::Parameter.param, passed from .argument" if ok else
                   "global parameters: declaration uses %s, call sites pass %s of GlobalMode::Parameter" % (dt.get(k), at.get(k)), where(app))
            continue
        ok = dt.get(k) is not None and dt.get(k) == at.get(k)
        chk.ob("C02.thread/ident/%s" % k, ok, "declared and passed as `%s`" % dt.get(k) if ok else
               "implicit parameter %s is declared as `%s` but call sites pass `%s`" % (k, dt.get(k), at.get(k)), where(app),
               sample={"kind": k, "declared": dt.get(k), "passed": at.get(k)})
    # both iterate function_required_globals.get(&id) plainly
    for fn, nm in ((gfi, "declaration"), (app, "call-site")):
        ok = False
        for (p, it, body, node) in F.for_loops(fn["thir"]):
            v = F.leftmost_var(it)
            if v is None or body is None or not any(True for _ in F.find_matches_node(body, "ImplicitFunctionParameter")):
                continue
            its = F.strip(it)
            plain = its.get("k") == "Var"
            # the iterated variable is bound to function_required_globals.get(&id).unwrap()[.clone()]
            for s in F.walk(fn["thir"]):
                if s.get("k") == "LetStmt" and s["pat"].get("k") == "Bind" and s["pat"]["id"] == v["id"]:
                    init = s["init"]
                    frg = any(x.get("name") == "function_required_globals" for x in F.exprs(init, "Field"))
                    calls = [short(c.get("fn") or "") for c in F.exprs(init, "Call")]
                    ok = plain and frg and set(calls) <= {"get", "unwrap", "clone", "deref"}
        chk.ob("C02.thread/same-list/%s" % nm, ok, "iterates function_required_globals[id] in order" if ok else
               "the %s side no longer iterates function_required_globals[id] as is (filtered / reordered)" % nm, where(fn))
    # GlobalMode::Parameter: param declarator and argument from the same name
    ag = f.fn("analyse_globals", MSL)
    if chk.anchor("C02.anchor/analyse_globals", ag, "msl analyse_globals"):
        ok = False
        for a in F.exprs(ag["thir"], "Adt"):
            if short(a["adt"]) == "GlobalMode" and a.get("variant") == "Parameter":
                fl = {x["f"]: x["e"] for x in a["fields"]}
                argv = F.leftmost_var(fl.get("argument", {}))
                # argument = Identifier(ScopedIdentifier::from(Located::none(name.as_str())))
                arg_src = None
                if argv is not None:
                    for s in F.walk(ag["thir"]):
                        if s.get("k") == "LetStmt" and s["pat"].get("k") == "Bind" and s["pat"]["id"] == argv["id"]:
                            vs = [v for v in F.exprs(s["init"], "Var")]
                            arg_src = vs[0]["id"] if vs else None
                decl_src = None
                for c in F.exprs(ag["thir"], "Call"):
                    if short(c.get("fn") or "") == "generate_type_and_declarator":
                        v = F.leftmost_var(c["args"][1])
                        decl_src = v["id"] if v else None
                ok = arg_src is not None and arg_src == decl_src
        chk.ob("C02.thread/global-name", ok, "the parameter declarator and the passed argument are built from the same name" if ok else
               "a global's implicit parameter and the argument passed for it are no longer built from the same name", where(ag))
        ok2 = any(short(c.get("fn") or "") == "get_usage_for_function" for c in F.exprs(ag["thir"], "Call")) and \
            any(short(c.get("fn") or "") == "calculate" and "GlobalUsageAnalysis" in (c.get("fn") or "") for c in F.exprs(ag["thir"], "Call"))
        chk.ob("C02.thread/from-usage-analysis", ok2, "required globals come from GlobalUsageAnalysis::get_usage_for_function" if ok2 else
               "the required-globals list is no longer derived from the transitive usage analysis", where(ag))
    # every user call site appends the global arguments
    callers = set()
    for b in f.crates[MSL]["bodies"]:
        if "thir" not in b:
            continue
        for c in F.exprs(b["thir"], "Call"):
            if c.get("fn") == app["path"]:
                callers.add(short(b.get("parent") or b["path"]))
    guc = f.fn("generate_user_call", MSL)
    tramp = f.fn("generate_function_out_trampoline_body", MSL)
    for fn in (guc, tramp):
        if not fn:
            chk.ob("C02.thread/appended/anchor", False, "anchor-missing: generate_user_call / trampoline", MSL)
            continue
        calls = [c for c in F.exprs(fn["thir"], "Call") if c.get("fn") == app["path"]]
        ok = False
        if calls:
            av = F.leftmost_var(calls[0]["args"][0])
            for a in F.exprs(fn["thir"], "Adt"):
                if short(a["adt"]) == "Expression" and a.get("variant") == "Call":
                    fl = {x["f"]: x["e"] for x in a["fields"]}
                    v = F.leftmost_var(fl.get("2", {}))
                    if v is not None and av is not None and v["id"] == av["id"] and (a.get("ln") or 0) > (calls[0].get("ln") or 0):
                        ok = True
        chk.ob("C02.thread/appended/%s" % fn["name"], ok, "the call's argument vector receives the global arguments before the Call node is built" if ok else
               "%s builds a user call whose arguments were not extended by append_arguments_for_globals" % fn["name"], where(fn))


def position_body(G):
    """An ir::ScopeBlock with G(<description>) planted in every expression position of every statement and expression kind."""
    import interp as I
    opt = lambda v: I.Enum("Option", "None") if v is None else I.Enum("Option", "Some", {"0": v})
    fid = lambda i: I.Enum("FunctionId", None, {"0": i})
    X = lambda v, **fl: I.Enum("Expression", v, {str(k)[1:]: x for k, x in fl.items()})
    lit = I.Enum("Expression", "Literal", {"0": I.Enum("Constant", "Int32", {"0": 1})})
    var = I.Enum("Expression", "Variable", {"0": I.Enum("VariableId", None, {"0": 0})})
    stmt = lambda kind, *a: I.Enum("Statement", None, {"kind": I.Enum("StatementKind", kind, {str(i): v for i, v in enumerate(a)}), "location": I.Opaque("location"), "attributes": []})
    block = lambda *ss: I.Enum("ScopeBlock", None, {"0": list(ss), "1": I.Opaque("declarations")})
    es = lambda w: stmt("Expression", G(w))
    iexpr = lambda w: I.Enum("Initializer", "Expression", {"0": G(w)})
    return block(
        stmt("Expression", G("expression statement")),
        stmt("Var", I.Enum("VarDef", None, {"id": 0, "init": opt(iexpr("variable initialiser"))})),
        stmt("Var", I.Enum("VarDef", None, {"id": 1, "init": opt(I.Enum("Initializer", "Aggregate", {"0": [iexpr("aggregate initialiser element"), I.Enum("Initializer", "Aggregate", {"0": [iexpr("nested aggregate element")]})]}))})),
        stmt("Block", block(es("nested block"))),
        stmt("If", G("if condition"), block(es("if body"))),
        stmt("IfElse", G("if-else condition"), block(es("if-else true branch")), block(es("if-else false branch"))),
        stmt("For", I.Enum("ForInit", "Expression", {"0": G("for init expression")}), opt(G("for condition")), opt(G("for increment")), block(es("for body"))),
        stmt("For", I.Enum("ForInit", "Definitions", {"0": [I.Enum("VarDef", None, {"id": 2, "init": opt(iexpr("for init declaration"))})]}), opt(None), opt(None), block()),
        stmt("While", G("while condition"), block(es("while body"))),
        stmt("DoWhile", block(es("do body")), G("do-while condition")),
        stmt("Switch", G("switch value"), block(stmt("CaseLabel", I.Enum("Constant", "Int32", {"0": 1})), es("switch body"), stmt("Break"), stmt("DefaultLabel"), stmt("Continue"), stmt("Discard"))),
        stmt("Return", opt(G("returned value"))),
        stmt("Expression", I.Enum("Expression", "TernaryConditional", {"0": G("ternary condition"), "1": G("ternary true value"), "2": G("ternary false value")})),
        stmt("Expression", I.Enum("Expression", "Sequence", {"0": [G("sequence first"), lit, G("sequence last")]})),
        stmt("Expression", I.Enum("Expression", "Swizzle", {"0": G("swizzled value"), "1": []})),
        stmt("Expression", I.Enum("Expression", "MatrixSwizzle", {"0": G("matrix-swizzled value"), "1": []})),
        stmt("Expression", I.Enum("Expression", "ArraySubscript", {"0": G("subscripted value"), "1": G("subscript index")})),
        stmt("Expression", I.Enum("Expression", "StructMember", {"0": G("struct member object"), "1": I.Enum("StructId", None, {"0": 0}), "2": 0})),
        stmt("Expression", I.Enum("Expression", "ObjectMember", {"0": G("object member object"), "1": "Load"})),
        stmt("Expression", I.Enum("Expression", "Call", {"0": fid(1), "1": I.Enum("CallType", "FreeFunction"), "2": [var, G("call argument"), G("second call argument")]})),
        stmt("Expression", I.Enum("Expression", "Constructor", {"0": I.Opaque("type"), "1": [I.Enum("ConstructorSlot", None, {"arity": 1, "expr": G("constructor slot")}),
                                                                                                I.Enum("ConstructorSlot", None, {"arity": 1, "expr": G("second constructor slot")})]})),
        stmt("Expression", I.Enum("Expression", "Cast", {"0": I.Opaque("type"), "1": G("cast operand")})),
        stmt("Expression", I.Enum("Expression", "IntrinsicOp", {"0": I.Enum("IntrinsicOp", "Add"), "1": [G("operator left operand"), G("operator right operand")]})),
        stmt("Expression", I.Enum("Expression", "IntrinsicOp", {"0": I.Enum("IntrinsicOp", "Assignment"), "1": [var, I.Enum("Expression", "Cast", {"0": I.Opaque("type"), "1": I.Enum("Expression", "ArraySubscript", {"0": var, "1": G("deeply nested operand")})})]})),
        stmt("Expression", I.Enum("Expression", "SizeOf", {"0": I.Opaque("type")})), stmt("Expression", I.Enum("Expression", "EnumValue", {"0": I.Opaque("enum value")})),
        stmt("Return", opt(None)),
    )


def rule_usage_eval(chk, prefix="C02.usage"):
    """GlobalUsageAnalysis::calculate read as a function of the module: one function whose body has a distinct global
    planted in every expression position of every statement and expression kind (conditions, branches, loop parts,
    initialisers, call arguments, constructor slots, subscripts, members, casts, operators), calling a chain of two more
    functions that reach another global and a constant buffer; a fourth function that nobody calls. What a function
    requires must be exactly what it mentions plus what its callees require - in both hash orders."""
    import interp as I
    f = chk.facts
    calc = f.fn("calculate", "rssl_ir", self_ty="GlobalUsageAnalysis")
    get = f.fn("get_usage_for_function", "rssl_ir")
    if not calc or not get:
        return False
    opt = lambda v: I.Enum("Option", "None") if v is None else I.Enum("Option", "Some", {"0": v})
    fid = lambda i: I.Enum("FunctionId", None, {"0": i})
    gid = lambda i: I.Enum("GlobalId", None, {"0": i})
    counter = [0]
    planted = {}

    def G(where_):
        counter[0] += 1
        planted[counter[0]] = where_
        return I.Enum("Expression", "Global", {"0": gid(counter[0])})
    stmt = lambda kind, *a: I.Enum("Statement", None, {"kind": I.Enum("StatementKind", kind, {str(i): v for i, v in enumerate(a)}), "location": I.Opaque("location"), "attributes": []})
    block = lambda *ss: I.Enum("ScopeBlock", None, {"0": list(ss), "1": I.Opaque("declarations")})
    body0 = position_body(G)
    n_planted = counter[0]
    g_far, g_unused, g_mid = n_planted + 1, n_planted + 2, n_planted + 3
    cbm = I.Enum("Expression", "ConstantVariable", {"0": I.Enum("ConstantBufferMemberId", None, {"0": I.Enum("ConstantBufferId", None, {"0": 0}), "1": 2})})
    bodies = {0: body0,
              1: block(stmt("Expression", I.Enum("Expression", "Global", {"0": gid(g_mid)})), stmt("Return", opt(I.Enum("Expression", "Call", {"0": fid(2), "1": I.Enum("CallType", "FreeFunction"), "2": []})))),
              2: block(stmt("Expression", I.Enum("Expression", "Global", {"0": gid(g_far)})), stmt("Expression", cbm)),
              3: block(stmt("Expression", I.Enum("Expression", "Global", {"0": gid(g_unused)}))), 4: None}

    def deref(v):
        return v.get() if isinstance(v, I.Ref) else v
    # (function 2 is the instantiation of a function template: it keeps its template parameter list AND has a body of its own)
    ext = {"FunctionRegistry::get_function_signature": lambda a: I.Enum("FunctionSignature", None, {"return_type": I.Opaque("return type"), "param_types": [],
                                                                                                 "template_params": [I.Opaque("template parameter")] if deref(a[1]).fields["0"] == 2 else []}),
           "FunctionRegistry::get_template_source": lambda a: opt(None), "FunctionRegistry::get_template_instantiation_data": lambda a: opt(I.Opaque("instantiation data") if deref(a[1]).fields["0"] == 2 else None),
           "FunctionRegistry::iter": lambda a: [fid(i) for i in sorted(bodies)],
           "FunctionRegistry::get_function_implementation": lambda a: opt(None) if bodies[deref(a[1]).fields["0"]] is None else opt(I.Enum("FunctionImplementation", None, {"scope_block": bodies[deref(a[1]).fields["0"]], "params": [], "attributes": []}))}
    module = I.Enum("Module", None, {"function_registry": I.Opaque("function registry"), "global_registry": [I.Opaque("global")] * (g_mid + 1), "cbuffer_registry": [I.Opaque("cbuffer")]})
    want = {0: ({i for i in planted} | {g_mid, g_far}, {1, 2}, {0}), 1: ({g_mid, g_far}, {2}, {0}), 2: ({g_far}, set(), {0}), 3: ({g_unused}, set(), set()), 4: (set(), set(), set())}
    bad = None
    for reverse in (False, True):
        ip = I.Interp(f, max_depth=40, extern=ext)
        ip.max_loop = 4096
        ip.reverse_hash_order = reverse
        try:
            ua = ip.apply(calc, [module])
            got = {}
            for i in sorted(bodies):
                s_ = ip.apply(get, [ua, fid(i)])
                s_ = s_.get() if isinstance(s_, I.Ref) else s_
                items = list(s_.items) if isinstance(s_, I.HSet) else list(s_)
                gl, fn_, cb = set(), set(), set()
                for x in items:
                    x = x[0] if isinstance(x, tuple) else x
                    (gl if x.variant == "GlobalVariable" else fn_ if x.variant == "Function" else cb).add(x.fields["0"].fields["0"])
                got[i] = (gl, fn_, cb)
        except I.Unknown as e:
            if "panicking" in str(e):
                bad = bad or "GlobalUsageAnalysis::calculate aborts on the model module (%s)" % str(e)[:80]
                continue
            chk.note("%s: GlobalUsageAnalysis::calculate is not readable (%s); the shape rule decides" % (prefix, str(e)[:80]))
            return False
        for i in sorted(bodies):
            if got[i] != want[i] and not bad:
                miss = want[i][0] - got[i][0]
                if i == 0 and miss - {g_mid, g_far}:
                    k = sorted(miss - {g_mid, g_far})[0]
                    bad = "a global read in the %s of a function is not recorded as used by it: a function that only reaches a resource there does not get it passed (Metal), and the binding is reported unused" % planted[k]
                else:
                    bad = "function %d requires globals %s, functions %s, constant buffers %s; it must require %s, %s, %s (what it mentions plus what its callees require)%s" % (
                        i, sorted(got[i][0])[-4:], sorted(got[i][1]), sorted(got[i][2]), sorted(want[i][0])[-4:], sorted(want[i][1]), sorted(want[i][2]), " [hash order reversed]" if reverse else "")
    chk.ob(prefix + "/model", bad is None, bad or "%d planted positions, a call chain of three and an uncalled function: usage is exact in both hash orders" % n_planted, where(calc), sample={"positions": n_planted})
    chk.floor(prefix.split(".")[0] + ".floor/usage-positions", n_planted, 40, "expression positions planted", where(calc))
    return True


def rule_simplify_cbuffers_eval(chk, prefix="C02.cbuffers"):
    """simplify_cbuffers (the Metal exporter's first pass) read as a function of the module: three constant buffers - one
    of them without members - a function whose body reads a cbuffer member in every expression position of every
    statement and expression kind, a parameter default and a global initialiser that read one. Afterwards no cbuffer and
    no cbuffer-member expression is left; every cbuffer, the empty one included, has become exactly one global that keeps
    its name, explicit binding and assigned slot (that is what the reflection data is built from), with one struct whose
    members are the cbuffer's in order; every read became member j of the right global; the root definitions keep their
    order."""
    import interp as I
    f = chk.facts
    fn = f.fn("simplify_cbuffers", "rssl_ir")
    if not fn:
        return False
    opt = lambda v: I.Enum("Option", "None") if v is None else I.Enum("Option", "Some", {"0": v})
    loc = lambda v: I.Enum("Located", None, {"node": v, "location": I.Opaque("location")})
    tid = lambda n: I.Enum("TypeId", None, {"0": n})
    cbid = lambda i: I.Enum("ConstantBufferId", None, {"0": i})
    planted = []

    def G(where_):
        k = len(planted)
        cb, mem = (0, k % 2) if k % 3 else (2, k % 3)
        planted.append((where_, cb, mem))
        return I.Enum("Expression", "ConstantVariable", {"0": I.Enum("ConstantBufferMemberId", None, {"0": cbid(cb), "1": mem})})
    body = position_body(G)
    n_body = len(planted)
    default_expr = G("default value of a parameter")
    global_init = I.Enum("Initializer", "Expression", {"0": G("initialiser of a global")})
    cbs = []
    for i, (name, nmem) in enumerate((("Frame", 2), ("Empty", 0), ("Material", 3))):
        cbs.append(I.Enum("ConstantBuffer", None, {"name": loc(name), "namespace": opt(None), "lang_binding": I.Enum("LanguageBinding", None, {"set": opt(i), "index": opt(10 + i)}),
                                                   "api_binding": opt(I.Enum("ApiBinding", None, {"tag": "slot of " + name})),
                                                   "members": [I.Enum("ConstantVariable", None, {"name": loc("%s_m%d" % (name, j)), "type_id": tid(30 + j), "offset": opt(None)}) for j in range(nmem)]}))
    impl = I.Enum("FunctionImplementation", None, {"params": [I.Enum("FunctionParam", None, {"default_expr": opt(default_expr)}), I.Enum("FunctionParam", None, {"default_expr": opt(None)})],
                                                   "scope_block": body, "attributes": []})
    g0 = I.Enum("GlobalVariable", None, {"name": loc("g0"), "init": opt(global_init), "type_id": tid(3)})
    made_types = []

    def deref(v):
        return v.get() if isinstance(v, I.Ref) else v
    ext = {"TypeRegistry::register_type": lambda a: (made_types.append(deref(a[1])) or tid(500 + len(made_types))), "FunctionRegistry::iter": lambda a: [I.Enum("FunctionId", None, {"0": 0})],
           "FunctionRegistry::get_function_implementation_mut": lambda a: opt(impl)}
    roots = [I.Enum("RootDefinition", "GlobalVariable", {"0": I.Enum("GlobalId", None, {"0": 0})}), I.Enum("RootDefinition", "ConstantBuffer", {"0": cbid(0)}),
             I.Enum("RootDefinition", "Function", {"0": I.Enum("FunctionId", None, {"0": 0})}), I.Enum("RootDefinition", "ConstantBuffer", {"0": cbid(1)}), I.Enum("RootDefinition", "ConstantBuffer", {"0": cbid(2)})]
    module = I.Enum("Module", None, {"cbuffer_registry": list(cbs), "struct_registry": [], "global_registry": [g0], "root_definitions": list(roots), "type_registry": I.Opaque("type registry"),
                                     "function_registry": I.Opaque("function registry")})
    ip = I.Interp(f, max_depth=40, extern=ext)
    ip.max_loop = 4096
    try:
        ip.apply(fn, [module])
    except I.Unknown as e:
        if "panicking" in str(e):
            chk.ob(prefix + "/model", False, "simplify_cbuffers aborts on the model module (%s)" % str(e)[:80], where(fn))
            return True
        chk.note("%s: simplify_cbuffers is not readable (%s)" % (prefix, str(e)[:80]))
        return False
    mf = module.fields
    bad = None
    globs, structs = mf["global_registry"], mf["struct_registry"]
    flat = lambda o: o.fields["0"] if isinstance(o, I.Enum) and o.variant == "Some" else None
    if mf["cbuffer_registry"]:
        bad = "constant buffers are left in the module"
    elif len(globs) != 1 + len(cbs) or len(structs) != len(cbs):
        bad = "%d constant buffers (one of them without members) become %d globals and %d structs: a cbuffer without a global is missing from the Metal reflection data, so the targets report different binding names" % (
            len(cbs), len(globs) - 1, len(structs))
    else:
        for i, cb in enumerate(cbs):
            g = globs[1 + i].fields
            if g["name"].fields["node"] != cb.fields["name"].fields["node"] or flat(g["lang_slot"].fields["set"]) != i or flat(g["lang_slot"].fields["index"]) != 10 + i or \
                    flat(g["api_slot"]) is None or flat(g["api_slot"]).fields.get("tag") != "slot of " + cb.fields["name"].fields["node"] or g["storage_class"].variant != "Extern":
                bad = "cbuffer %s becomes a global named %s with binding (%s, %s) / slot %s: name, explicit binding and assigned slot must carry over" % (
                    cb.fields["name"].fields["node"], g["name"].fields["node"], flat(g["lang_slot"].fields["set"]), flat(g["lang_slot"].fields["index"]), flat(g["api_slot"]))
                break
            want_m = [(m_.fields["name"].fields["node"], m_.fields["type_id"].fields["0"]) for m_ in cb.fields["members"]]
            got_m = [(m_.fields["name"], m_.fields["type_id"].fields["0"]) for m_ in structs[i].fields["members"]]
            if got_m != want_m:
                bad = "the struct made for cbuffer %s has members %s, the cbuffer has %s" % (cb.fields["name"].fields["node"], got_m, want_m)
                break
    if not bad:
        kinds = [(r_.variant, r_.fields["0"].fields["0"]) for r_ in mf["root_definitions"]]
        want_roots = [("GlobalVariable", 0), ("Struct", 0), ("GlobalVariable", 1), ("Function", 0), ("Struct", 1), ("GlobalVariable", 2), ("Struct", 2), ("GlobalVariable", 3)]
        if kinds != want_roots:
            bad = "the root definitions become %s, must be %s (each cbuffer replaced in place by its struct and its global)" % (kinds, want_roots)
    if not bad:
        def walk(v, path, out):
            if isinstance(v, I.Enum):
                if v.adt == "Expression" and v.variant == "ConstantVariable":
                    out.append(("left", path))
                    return
                if v.adt == "Expression" and v.variant == "StructMember" and isinstance(v.fields.get("0"), I.Enum) and v.fields["0"].variant == "Global":
                    out.append(("member", v.fields["0"].fields["0"].fields["0"], v.fields["1"].fields["0"], v.fields["2"]))
                    return
                for x in v.fields.values():
                    walk(x, path, out)
            elif isinstance(v, (list, tuple)):
                for x in v:
                    walk(x, path, out)
        found = []
        walk(impl.fields["scope_block"], "body", found)
        walk(impl.fields["params"], "parameter default", found)
        walk(globs[0], "global initialiser", found)
        left = [x for x in found if x[0] == "left"]
        want = [("member", 1 + cb, cb, mem) for _w, cb, mem in planted]
        if left:
            k = len([x for x in found[:found.index(left[0])]])
            bad = "a cbuffer member read in the %s is not rewritten: the Metal exporter meets a constant-buffer expression it no longer has a cbuffer for" % planted[k][0]
        elif [x for x in found if x[0] == "member"] != want:
            got = [x for x in found if x[0] == "member"]
            k = [i for i in range(min(len(got), len(want))) if got[i] != want[i]]
            bad = ("the cbuffer member read in the %s becomes member %s of global %s, must be member %s of global %s" % (planted[k[0]][0], got[k[0]][3], got[k[0]][1], want[k[0]][3], want[k[0]][1])) if k else \
                "%d cbuffer member reads were planted, %d member expressions come back" % (len(want), len(got))
    chk.ob(prefix + "/model", bad is None, bad or "%d planted reads rewritten; 3 cbuffers (one empty) become 3 globals with their names and bindings" % len(planted), where(fn), sample={"positions": len(planted)})
    return True


def rule_usage(chk):
    f = chk.facts
    total = 0
    for name, adt in (("gather_usage_for_expression", "Expression"), ("gather_usage_for_statement", "StatementKind"), ("gather_usage_for_init", "Initializer")):
        fn = f.fn(name, "rssl_ir")
        if not chk.anchor("C02.anchor/" + name, fn, name):
            continue
        ms = F.find_matches(fn, adt)
        if not ms:
            chk.ob("C02.usage/" + name, False, "anchor-missing: match over %s" % adt, where(fn))
            continue
        m = max(ms, key=lambda x: len(x["arms"]))
        vs = f.variants("::" + adt, "rssl_ir") or f.variants(adt, "rssl_ir") or []
        covered = set()
        catch = False
        for arm in m["arms"]:
            for alt in F.pat_alternatives(arm["pat"]):
                pv = F.pat_variant(alt)
                if not pv:
                    catch = catch or F.pat_is_catchall(alt)
                    continue
                covered.add(pv[1])
                loops = F.for_loops(arm["body"])
                inner_matches = [mm for mm in F.exprs(arm["body"], "Match") if not mm.get("src", "").startswith("ForLoop")]
                for bid, bname, bpath in F.pat_binds(alt):
                    bty = ""
                    node = alt
                    for step in bpath:
                        nxt = None
                        for sp in node.get("subs", []):
                            if str(sp["f"]) == step:
                                nxt = sp["p"]
                        node = nxt or {}
                    bty = node.get("ty", "")
                    if not any(x in bty for x in ("Expression", "ScopeBlock", "ForInit", "Initializer", "ConstructorSlot", "VarDef")):
                        continue
                    total += 1
                    used = False
                    for c in F.exprs(arm["body"], "Call"):
                        if short(c.get("fn") or "").startswith("gather_usage"):
                            for a in c.get("args", []):
                                v = F.leftmost_var(a)
                                if v is not None and v["id"] == bid:
                                    used = True
                    for (p, it, body, ln) in loops:
                        v = F.leftmost_var(it)
                        if v is not None and v["id"] == bid and body is not None and any(short(c.get("fn") or "").startswith("gather_usage") for c in F.exprs(body, "Call")):
                            used = True
                    for mm in inner_matches:
                        v = F.leftmost_var(mm["scrut"])
                        if v is not None and v["id"] == bid and any(short(c.get("fn") or "").startswith("gather_usage") for c in F.exprs(mm, "Call")):
                            used = True
                    for n in F.exprs(arm["body"], "If"):
                        c = F.strip(n["cond"])
                        if c.get("k") == "Let":
                            v = F.leftmost_var(c["e"])
                            if v is not None and v["id"] == bid and any(short(cc.get("fn") or "").startswith("gather_usage") for cc in F.exprs(n["then"], "Call")):
                                used = True
                    chk.ob("C02.usage/%s/%s.%s" % (name, pv[1], "/".join(bpath)), used,
                           "sub-expression `%s` is visited" % bname if used else
                           "the usage visitor does not recurse into `%s` of %s::%s: globals used there are not passed to the function (dropped implicit parameter)" % (bname, adt, pv[1]),
                           where(fn, arm), sample={"visitor": name, "variant": pv[1], "child": bname})
        missing = [v for v in vs if v not in covered]
        chk.ob("C02.usage/%s/total" % name, not missing and not catch, "every %s variant has an explicit visitor arm" % adt if not missing and not catch else
               "visitor %s has no explicit arm for %s%s" % (name, missing, " (catch-all)" if catch else ""), where(fn))
    ge = f.fn("gather_usage_for_expression", "rssl_ir")
    if ge:
        ins = {}
        m = max(F.find_matches(ge, "Expression"), key=lambda x: len(x["arms"]))
        for arm in m["arms"]:
            pv = F.pat_variant(F.pat_alternatives(arm["pat"])[0])
            syms = [a["variant"] for c in F.exprs(arm["body"], "Call") if short(c.get("fn") or "") == "insert" for a in F.exprs(c, "Adt") if short(a["adt"]) == "UsageSymbol"]
            if pv and syms:
                ins[pv[1]] = syms[0]
        want = {"Global": "GlobalVariable", "ConstantVariable": "ConstantBuffer", "Call": "Function"}
        for k, v in want.items():
            chk.ob("C02.usage/records/%s" % k, ins.get(k) == v, "%s records UsageSymbol::%s" % (k, v) if ins.get(k) == v else
                   "Expression::%s no longer records UsageSymbol::%s (records %s)" % (k, v, ins.get(k)), where(ge))
    chk.floor("C02.floor/visitor-children", total, 30, "sub-expression positions of the usage visitors")


def ident_name(e):
    """name of an ast::Expression::Identifier value built by ScopedIdentifier::trivial / unqualified"""
    while isinstance(e, I.Enum) and e.adt == "Located":
        e = e.fields.get("node")
    if isinstance(e, I.Enum) and e.variant == "Identifier":
        e = e.fields.get("0")
    if isinstance(e, I.Enum) and e.adt == "ScopedIdentifier":
        ids = e.fields.get("identifiers")
        if isinstance(ids, list) and len(ids) == 1:
            x = ids[0]
            while isinstance(x, I.Enum) and x.adt == "Located":
                x = x.fields.get("node")
            return x if isinstance(x, str) else None
    return None


def rule_out_eval(chk, tr):
    """generate_function_out_trampoline_body evaluated (finite-map reader) for every parameter list over {In, Out,
    InOut}^<=3 and both return kinds: the emitted statements must be - one local per out/inout parameter, initialised
    from the parameter exactly when it is inout; one call passing the local for out/inout and the parameter itself for
    in, in order; then one `parameter = local` per out/inout parameter, after the call. True when readable."""
    f = chk.facts
    mods = f.variants("InputModifier", "rssl_ir") or []
    bad = []
    n = 0
    for ln in range(0, 4):
        for ms in itertools.product(mods, repeat=ln):
            for needs_return in (False, True):
                n += 1
                names = ["p%d" % i for i in range(ln)]
                decl = I.Enum("FunctionImplementation", None, {"params": [I.Enum("FunctionParam", None, {
                    "id": I.Enum("VariableId", None, {"0": i}),
                    "param_type": I.Enum("ParamType", None, {"type_id": I.Enum("TypeId", None, {"0": i}), "input_modifier": I.Enum("InputModifier", m)})}) for i, m in enumerate(ms)]})
                sig = I.Enum("FunctionSignature", None, {"return_type": I.Enum("FunctionReturn", None, {"return_type": I.Enum("TypeId", None, {"0": 99})})})
                ext = {"get_variable_name": lambda a: I.Enum("Result", "Ok", {"0": "p%d" % a[1].fields["0"]}),
                       "generate_type_and_declarator": lambda a: I.Enum("Result", "Ok", {"0": (I.Opaque("type"), I.Enum("Declarator", "Named", {"0": a[1]}))}),
                       "TypeRegistry::is_void": lambda a, nr=needs_return: not nr,
                       "append_arguments_for_globals": lambda a: (),
                       "metal_lib_identifier": lambda a: I.Enum("ScopedIdentifier", None, {"identifiers": [a[0] + "!lib"]})}
                ip = I.Interp(f, max_depth=8, extern=ext)
                try:
                    r = ip.apply(tr, ["callee", I.Opaque("id"), sig, decl, I.Opaque("return type"), I.Opaque("context")])
                except I.Unknown as e:
                    if n == 1:
                        return False
                    bad.append((ms, "not readable: %s" % e))
                    continue
                stmts = r.fields.get("0") if isinstance(r, I.Enum) and r.variant == "Ok" else None
                if not isinstance(stmts, list):
                    bad.append((ms, "returns %r" % (r,)))
                    continue
                # classify statements
                seq = []
                for s in stmts:
                    k = s.fields.get("kind") if isinstance(s, I.Enum) else None
                    if isinstance(k, I.Enum) and k.variant == "Var":
                        vd = k.fields.get("0")
                        defs = vd.fields.get("defs") if isinstance(vd, I.Enum) else None
                        d0 = defs[0] if isinstance(defs, list) and defs else None
                        decl_ = d0.fields.get("declarator") if isinstance(d0, I.Enum) else None
                        init = d0.fields.get("init") if isinstance(d0, I.Enum) else None
                        lname = decl_.fields.get("0") if isinstance(decl_, I.Enum) and decl_.variant == "Named" else None
                        iv = None
                        call = None
                        if isinstance(init, I.Enum) and init.variant == "Some":
                            ie = init.fields.get("0")
                            ie = ie.fields.get("0") if isinstance(ie, I.Enum) and ie.variant == "Expression" else ie
                            iv = ident_name(ie)
                            x = ie
                            while isinstance(x, I.Enum) and x.adt == "Located":
                                x = x.fields.get("node")
                            if isinstance(x, I.Enum) and x.variant == "Call":
                                call = x
                        if call is not None:
                            seq.append(("call", call))
                        else:
                            seq.append(("local", lname, iv, isinstance(init, I.Enum) and init.variant == "Some"))
                    elif isinstance(k, I.Enum) and k.variant == "Expression":
                        x = k.fields.get("0")
                        if isinstance(x, I.Enum) and x.variant == "Call":
                            seq.append(("call", x))
                        elif isinstance(x, I.Enum) and x.variant == "BinaryOperation" and isinstance(x.fields.get("0"), I.Enum) and x.fields["0"].variant == "Assignment":
                            seq.append(("assign", ident_name(x.fields.get("1")), ident_name(x.fields.get("2"))))
                        else:
                            seq.append(("other", x))
                    elif isinstance(k, I.Enum) and k.variant == "Return":
                        seq.append(("return",))
                    else:
                        seq.append(("other", k))
                refs = [i for i, m in enumerate(ms) if m != "In"]
                locals_ = [s for s in seq if s[0] == "local"]
                calls = [(j, s) for j, s in enumerate(seq) if s[0] == "call"]
                assigns = [(j, s) for j, s in enumerate(seq) if s[0] == "assign"]
                why = None
                if len(locals_) != len(refs) or len(calls) != 1:
                    why = "%d local(s) and %d call(s) for %d out/inout parameter(s)" % (len(locals_), len(calls), len(refs))
                else:
                    lname = {}
                    for i, l in zip(refs, locals_):
                        lname[i] = l[1]
                        if ms[i] == "InOut" and not (l[3] and l[2] == names[i]):
                            why = "the local for inout parameter %d is not initialised from the parameter" % i
                        if ms[i] == "Out" and l[3]:
                            why = "the local for out parameter %d is initialised (%s)" % (i, l[2])
                        if not isinstance(l[1], str) or l[1] in names:
                            why = "the local for parameter %d has no name of its own (%r)" % (i, l[1])
                    cj, c = calls[0]
                    args = c[1].fields.get("2") if isinstance(c[1], I.Enum) else None
                    passed = [ident_name(a) for a in (args or [])][:ln]
                    want_args = [lname.get(i, names[i]) for i in range(ln)]
                    if why is None and passed != want_args:
                        why = "the call passes %s, must pass %s" % (passed, want_args)
                    want_assign = [(names[i], lname[i]) for i in refs]
                    got_assign = [(s[1], s[2]) for j, s in assigns]
                    if why is None and got_assign != want_assign:
                        why = "copy-back statements are %s, must be %s" % (got_assign, want_assign)
                    if why is None and any(j < cj for j, s in assigns):
                        why = "a copy-back statement precedes the call"
                    if why is None and any(j > cj for j, s in enumerate(seq) if s[0] == "local"):
                        why = "a local is declared after the call"
                if why:
                    bad.append((ms, why))
    ok = not bad
    chk.ob("C02.out/copy-in-out", ok,
           "%d parameter lists: local per out/inout parameter (initialised iff inout), locals passed, parameters copied back after the call" % n if ok else
           "out/inout trampoline for parameters (%s): %s (%d of %d cases): the Metal function no longer has copy-in/copy-out semantics" % (", ".join(bad[0][0]), bad[0][1], len(bad), n),
           where(tr), sample={"cases": n, "wrong": len(bad)})
    chk.ob("C02.out/copy-back-after-call", ok, "decided by the evaluated trampoline" if ok else "see C02.out/copy-in-out", where(tr), trivial=True)
    return True


def rule_out(chk):
    """Shape of the copy-in / copy-out trampoline, with every variable identified by its role (not its name)."""
    f = chk.facts
    tr = f.fn("generate_function_out_trampoline_body", MSL)
    if not chk.anchor("C02.anchor/trampoline", tr, "generate_function_out_trampoline_body"):
        return
    try:
        if rule_out_eval(chk, tr):
            return
    except (I.ReturnEx, I.BreakEx, I.ContinueEx, KeyError, AttributeError, TypeError, IndexError):
        pass

    def var_ids(n):
        return {v["id"] for v in F.exprs(n, "Var")}

    def pushes(n):
        out = []
        for cc in F.exprs(n, "Call"):
            if short(cc.get("fn") or "") == "push" and len(cc.get("args", [])) > 1:
                rv = F.leftmost_var(cc["args"][0])
                if rv is not None:
                    out.append((rv["id"], cc))
        return out
    lets = {}
    for s in F.walk(tr["thir"]):
        if s.get("k") == "LetStmt" and "init" in s and s["pat"].get("k") == "Bind":
            lets[s["pat"]["id"]] = s["init"]
    ok_branch = False
    roles = {}
    for n in F.exprs(tr["thir"], "If"):
        c = F.strip(n["cond"])
        is_ne_in = ((c.get("k") == "Binary" and c.get("op") == "Ne") or (c.get("k") == "Call" and short(c.get("fn") or "") == "ne")) and \
            any((F.adt_ctor(a) or (0, 0))[1] == "In" for a in F.walk(c) if a.get("k") == "Adt")
        if not is_ne_in or "else" not in n:
            continue
        then, els = n["then"], n["else"]
        ep = pushes(els)
        if len(ep) != 1:
            continue
        args_vec, epush = ep[0]
        input_ids = var_ids(epush["args"][1])                       # what an `in` parameter passes: the parameter's own name
        tp = pushes(then)
        local_pushes = [cc for rid, cc in tp if rid == args_vec]
        local_ids = set()
        for cc in local_pushes:
            local_ids |= var_ids(cc["args"][1])
        local_ids -= input_ids
        # the local's name must be derived from nothing else than a fresh name (a let in the then-branch)
        vardefs = [a for a in F.exprs(then, "Adt") if short(a["adt"]) == "StatementKind" and a.get("variant") == "Var"]
        vardef = bool(vardefs)
        assign_back = False
        after_vec = None
        for rid, cc in tp:
            for a in F.exprs(cc["args"][1], "Adt"):
                if short(a["adt"]) == "Expression" and a.get("variant") == "BinaryOperation":
                    fl = {str(x["f"]): x["e"] for x in a["fields"]}
                    op = F.adt_ctor(fl["0"])
                    if op and op[1] == "Assignment" and (var_ids(fl["1"]) & input_ids) and (var_ids(fl["2"]) & local_ids) and not (var_ids(fl["1"]) & local_ids):
                        assign_back = True
                        after_vec = rid
        decl_vec = None
        for rid, cc in tp:
            if any(short(a["adt"]) == "StatementKind" and a.get("variant") == "Var" for a in F.exprs(cc["args"][1], "Adt")):
                decl_vec = rid
        # copy-in only for InOut: `if modifier == InOut { Some(<input name>) } else { None }`
        copy_in = False
        for n2 in F.exprs(then, "If"):
            c2 = F.strip(n2["cond"])
            is_eq_inout = ((c2.get("k") == "Binary" and c2.get("op") == "Eq") or (c2.get("k") == "Call" and short(c2.get("fn") or "") == "eq")) and \
                any((F.adt_ctor(a) or (0, 0))[1] == "InOut" for a in F.walk(c2) if a.get("k") == "Adt")
            th, el = F.adt_ctor(F.tail(n2["then"])), F.adt_ctor(F.tail(n2.get("else", {})))
            if is_eq_inout and th and th[1] == "Some" and el and el[1] == "None":
                copy_in = bool(var_ids(n2["then"]) & input_ids) and not (var_ids(n2["then"]) & local_ids)
        passes_local = bool(local_pushes) and bool(local_ids)
        distinct = len({args_vec, after_vec, decl_vec}) == 3 and None not in (after_vec, decl_vec)
        ok_branch = vardef and assign_back and copy_in and passes_local and distinct
        roles = {"args": args_vec, "after": after_vec, "decl": decl_vec}
        chk.ob("C02.out/copy-in-out", ok_branch,
               "non-`in` parameters: local declared (initialised iff inout), local passed, copied back after the call; `in` parameters passed directly" if ok_branch else
               "out/inout trampoline shape changed (local declared=%s assign-back=%s copy-in-iff-inout=%s passes-local=%s three distinct lists=%s)" % (vardef, assign_back, copy_in, passes_local, distinct),
               where(tr, n))
    if not ok_branch:
        chk.ob("C02.out/copy-in-out", False, "anchor-missing or wrong: `if input_modifier != In {..} else {..}` of the trampoline", where(tr))
        return
    # order: declarations, call, then the copy-back list is appended after the statement holding the call
    appends = [(c.get("ln") or 0, (F.leftmost_var(c["args"][1]) or {}).get("id")) for c in F.exprs(tr["thir"], "Call") if short(c.get("fn") or "") in ("append", "extend") and len(c.get("args", [])) > 1]
    after = [ln for ln, vid in appends if vid == roles["after"]]
    calls = [a.get("ln") or 0 for a in F.exprs(tr["thir"], "Adt") if short(a["adt"]) == "Expression" and a.get("variant") == "Call" and
             any(v["id"] == roles["args"] for v in F.exprs(a, "Var"))]
    ok = bool(after) and bool(calls) and min(after) > max(calls)
    chk.ob("C02.out/copy-back-after-call", ok, "the copy-back statements are appended after the call" if ok else
           "the copy-back statements are no longer appended after the call to the real function", where(tr))


def rule_trampoline_when(chk):
    """generate_function_and_trampoline read as a decision table: over every parameter list of length 0..3 with modifiers
    {In, Out, InOut}, called/not called, declaration/definition: the copy-in/copy-out trampoline is emitted exactly when
    some parameter is not `in` and the function is called, and then the real body is the trampoline target."""
    f = chk.facts
    fn = chk.anchor("C02.anchor/generate_function_and_trampoline", f.fn("generate_function_and_trampoline", MSL), "generate_function_and_trampoline")
    mods = f.variants("InputModifier", "rssl_ir") or []
    if not fn or not chk.anchor("C02.anchor/InputModifier", set(mods) == {"In", "Out", "InOut"} and mods, "InputModifier {In, Out, InOut}"):
        return
    bad = []
    n = 0
    for ln in range(0, 4):
        for ms in itertools.product(mods, repeat=ln):
            for called in (False, True):
                for only_declare in (False, True):
                    n += 1
                    rec = []
                    sig = I.Enum("FunctionSignature", None, {"param_types": [I.Enum("ParamType", None, {"input_modifier": I.Enum("InputModifier", m)}) for m in ms]})

                    def inner(a, rec=rec):
                        rec.append((a[1], a[2], a[3]))
                        return I.Enum("Result", "Ok", {"0": I.Opaque("def")})
                    ip = I.Interp(f, extern={"get_function_signature": lambda a: sig, "HashSet::<T, S, A>::contains": lambda a: called,
                                             "generate_function_inner": inner, "Vec::<T, A>::push": lambda a: ()})
                    try:
                        ip.apply(fn, [I.Opaque("id"), only_declare, I.Opaque("functions"), I.Opaque("context")])
                        got = rec
                    except I.Unknown as e:
                        got = "unreadable (%s)" % e
                    needs = any(m != "In" for m in ms) and called
                    want = []
                    if not needs or not only_declare:
                        want.append((only_declare, needs, False))
                    if needs:
                        want.append((only_declare, False, True))
                    if got != want:
                        bad.append(("(%s)" % ", ".join(ms), called, only_declare, got, want))
    ok = not bad
    chk.ob("C02.out/trampoline-when", ok,
           "%d cases: trampoline emitted iff some parameter is out/inout and the function is called; the body then takes the trampoline-target signature" % n if ok else
           "%d of %d cases differ, e.g. parameters %s called=%s only_declare=%s: emits (only_declare, trampoline_target, out_trampoline) = %s, must be %s: "
           "an out/inout parameter %s" % ((len(bad), n) + bad[0] + ("binds directly to the argument (aliasing instead of copy-in/copy-out)" if len(str(bad[0][3])) < len(str(bad[0][4])) else "is handled differently",)),
           where(fn), sample={"cases": n, "wrong": len(bad)})


def rule_global_threading(chk):
    """How the Metal exporter threads a global through the call graph, read as a table: analyse_globals is walked on
    one-global modules (storage class x {float, const float, texture, texture array, struct}). Metal has no mutable
    globals, so a static or groupshared global lives in the entry point and every function that needs it must receive it
    BY REFERENCE in its address space (thread / threadgroup) - a by-value copy loses every write made in a callee. Only a
    static const becomes a constant, and only an extern resource handle may be passed by value."""
    import interp as I
    f = chk.facts
    fn = f.fn("analyse_globals", "rssl_msl")
    if not fn:
        return
    ok = lambda v: I.Enum("Result", "Ok", {"0": v})
    opt = lambda v: I.Enum("Option", "None") if v is None else I.Enum("Option", "Some", {"0": v})
    loc = lambda v: I.Enum("Located", None, {"node": v, "location": I.Opaque("location")})
    tid = lambda n: I.Enum("TypeId", None, {"0": n})

    def deref(v):
        return v.get() if isinstance(v, I.Ref) else v
    LAYER = {3: I.Enum("TypeLayer", "Scalar", {"0": I.Enum("ScalarType", "Float32")}), 40: I.Enum("TypeLayer", "Object", {"0": I.Enum("ObjectType", "Texture2D", {"0": tid(3)})}),
             41: I.Enum("TypeLayer", "Object", {"0": I.Enum("ObjectType", "ByteAddressBuffer")}), 50: I.Enum("TypeLayer", "Array", {"0": tid(40), "1": opt(4)}),
             60: I.Enum("TypeLayer", "Struct", {"0": I.Enum("StructId", None, {"0": 0})})}
    TYPES = {3: "float", 1003: "const float", 40: "Texture2D", 41: "ByteAddressBuffer", 50: "Texture2D[4]", 60: "struct"}
    SPACE = {"Extern": "Constant", "Static": "Thread", "GroupShared": "ThreadGroup"}

    def has_ref(d):
        return isinstance(d, I.Enum) and (d.variant == "Reference" or any(has_ref(x) for x in d.fields.values()))
    bad = {}
    n = 0
    for st in (f.variants("GlobalStorage", "rssl_ir") or []):
        for ty, tname in TYPES.items():
            g = I.Enum("GlobalVariable", None, {"name": loc("g"), "type_id": tid(ty), "storage_class": I.Enum("GlobalStorage", st), "is_intrinsic": False, "static_sampler": opt(None), "init": opt(None)})
            modes = I.HMap()
            ext = {"GlobalUsageAnalysis::calculate": lambda a: I.Opaque("usage"), "TypeRegistry::is_const": lambda a: deref(a[1]).fields["0"] >= 1000,
                   "TypeRegistry::remove_modifier": lambda a: tid(deref(a[1]).fields["0"] % 1000), "TypeRegistry::get_type_layer": lambda a: LAYER[deref(a[1]).fields["0"]],
                   "::get_global_name": lambda a: ok("g"), "generate_initializer": lambda a: ok(opt(None)), "FunctionRegistry::iter": lambda a: [],
                   "generate_type_and_declarator": lambda a: ok((I.Enum("Type", None, {"layout": I.Opaque("layout"), "modifiers": I.Enum("TypeModifierSet", None, {"modifiers": []}), "location": I.Opaque("location")}),
                                                                 I.Enum("Declarator", "Identifier", {"0": "g", "1": []})))}
            ctx = I.Enum("GenerateContext", None, {"module": I.Enum("Module", None, {"global_registry": [g], "type_registry": I.Opaque("type registry"), "function_registry": I.Opaque("function registry")}),
                                                   "global_variable_modes": modes, "function_required_globals": I.HMap()})
            what = "a %s global of type %s" % (st.lower(), tname)
            try:
                I.Interp(f, max_depth=8, extern=ext).apply(fn, [ctx])
            except I.Unknown as e:
                if "panicking" in str(e):
                    bad.setdefault(st, "analyse_globals aborts on %s (%s)" % (what, str(e)[:60]))
                    continue
                chk.unreadable("C02.globals/readable", "analyse_globals on the one-global model", str(e)[:100], where(fn))
                return
            n += 1
            ms = list(modes.items())
            if len(ms) != 1 or not isinstance(ms[0][1], I.Enum):
                bad.setdefault(st, "%s gets %d threading modes" % (what, len(ms)))
                continue
            mode = ms[0][1]
            const = ty >= 1000
            if mode.variant == "Constant":
                if not (st == "Static" and const):
                    bad.setdefault(st, "%s is emitted as a global constant: its value can change (or comes from the host), a constant freezes it" % what)
                continue
            p = mode.fields["param"].fields
            by_ref = has_ref(p["declarator"])
            spaces = [m_.fields["node"].fields["0"].variant for m_ in p["param_type"].fields["modifiers"].fields["modifiers"]
                      if isinstance(m_.fields.get("node"), I.Enum) and m_.fields["node"].variant == "AddressSpace"]
            if st == "Static" and const:
                continue
            if st != "Extern" and not by_ref:
                bad.setdefault(st, "%s is handed to the functions that use it BY VALUE: Metal has no mutable globals, the variable lives in the entry point, and a write made in one function "
                               "is lost when it returns" % what)
            elif by_ref and spaces != [SPACE[st]]:
                bad.setdefault(st, "%s is passed by reference in address space %s, it lives in %s" % (what, spaces, SPACE[st]))
            elif st == "Extern" and not by_ref and LAYER[ty % 1000].variant != "Object":
                bad.setdefault(st, "%s (not a resource handle) is passed by value" % what)
    for st in (f.variants("GlobalStorage", "rssl_ir") or []):
        chk.ob("C02.globals/" + st, st not in bad, bad.get(st) or "threaded by reference in its address space (extern resource handles by value, static const as constants)", where(fn), sample={"storage": st})
    chk.floor("C02.floor/global-threading-cases", n, 15, "one-global modules evaluated", where(fn))


def rule_operand_repeated(chk):
    """Scalar-to-struct casts are emitted as S{e, e, ..}: the operand is written once per member, which keeps its meaning
    only if evaluating it has no effect. The `no_side_effects` decision in generate_expression is a match over the IR
    operand: every variant it declares repeatable must be a leaf of ir::Expression (no sub-expression that could hide a
    call or an assignment); anything else may only be allowed when nothing is repeated (member count 1)."""
    f = chk.facts
    ge = chk.anchor("C02.anchor/generate_expression", f.fn("generate_expression", MSL), "msl generate_expression")
    adt = f.adt("ir_expressions::Expression", "rssl_ir")
    if not ge or not chk.anchor("C02.anchor/ir::Expression", adt, "ir::Expression"):
        return
    leaf = {v["name"]: not any("Expression" in (x.get("ty") or "") or "ConstructorSlot" in (x.get("ty") or "") for x in v["fields"]) for v in adt["variants"]}
    found = 0
    for m in F.exprs(ge["thir"], "Match"):
        if m.get("ty") != "bool" or "ir_expressions::Expression" not in F.strip(m["scrut"]).get("ty", "").replace("ir::", "rssl_ir::"):
            continue
        if not all(a["body"].get("ty") == "bool" for a in m["arms"]):
            continue
        found += 1
        for arm in m["arms"]:
            tl = F.lit(F.strip(F.tail(arm["body"])))
            alts = [F.pat_variant(a) for a in F.pat_alternatives(arm["pat"])]
            if tl == ("bool", True):
                for pv in alts:
                    name = pv[1] if pv else "_"
                    ok = pv is not None and leaf.get(name, False)
                    chk.ob("C02.dup/struct-cast/%s" % name, ok, "leaf operand: repeating it is harmless" if ok else
                           "a struct cast repeats its operand once per member, and an operand of kind %s is declared free of side effects although it %s: a call or assignment inside it is emitted (and executed) several times"
                           % (name, "has sub-expressions" if pv else "can be anything"), where(ge, arm), sample={"variant": name, "leaf": ok})
            else:
                body = F.strip(F.tail(arm["body"]))
                ok = tl == ("bool", False) or (body.get("k") == "Binary" and body.get("op") == "Eq" and F.lit(body["r"]) == ("int", 1))
                chk.ob("C02.dup/struct-cast/other", ok, "any other operand only when a single member is initialised" if ok else
                       "non-leaf operands of a struct cast are accepted under another condition than `member_count == 1`", where(ge, arm))
    chk.floor("C02.floor/struct-cast-decision", found, 1, "side-effect decision of the struct cast", where(ge))
