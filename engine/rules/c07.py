"""C07 — compilation is deterministic (sufficient condition: no ambient inputs, no observable hash order)."""
import facts as F
import mirs as M
from facts import short, where

EXPLANATION = (
    "Decided as a sufficient condition: a single-threaded Rust function that reads no ambient state and never lets the "
    "iteration order of std HashMap/HashSet reach its result is a function of its arguments. C07.ambient: in the "
    "whole-workspace call graph (resolved callees, closures attributed to their parents, fn items passed as values) no "
    "function reachable from rssl::compile calls std::time / env / fs / process / thread / net / RandomState / "
    "DefaultHasher, except inside metal_invoker, and every call into metal_invoker is dominated by the "
    "Target::MetalBytecode test. C07.hash: every place where hash iteration order can be observed (for-loops over hash "
    "containers and their keys/values/iter adaptors, from_iter/collect/fold/extend from a hash source) is inventoried "
    "from MIR over ALL functions of the workspace and classified: sorted-after (the Vec sink reaches a sort* call after "
    "the loop, post-dominating it up to the function's return), collected-then-sorted, keyed-sink-only (the loop body "
    "only writes into hash containers / commutative min-max / asserts), or reviewed (one line of reason, keyed by "
    "function + container). Anything else is a violation; removing an anchored sort flips its site. C07.sort-key: each "
    "sort that fixes an order uses a total key (derived Ord via sort(), or a comparator over the unique map key / slot index)."
)
ASSUMPTIONS = [
    "std/alloc/core are deterministic apart from RandomState (hash iteration order)",
    "the include handler is an argument of compile (its behaviour is part of the input)",
]

AMBIENT_PREFIXES = ("std::time::", "std::env::", "std::fs::", "std::process::", "std::thread::", "std::net::", "std::io::stdin",
                    "std::hash::random::", "std::collections::hash::map::RandomState", "std::collections::hash::map::DefaultHasher",
                    "core::hash::BuildHasher::hash_one", "rand::", "std::os::")

HASH_TY = ("std::collections::hash::map::", "std::collections::hash::set::")
ITER_METHODS = {"iter", "iter_mut", "into_iter", "keys", "values", "values_mut", "into_keys", "into_values", "drain"}

# sites whose order-insensitivity is an argument about the algorithm; one line each, keyed by (function, what)
REVIEWED = {
    ("recurse", "keys->collect"): "GlobalUsageAnalysis::recurse: worklist for the least fixpoint of a monotone set equation; "
                                   "the loop repeats until nothing changes, so the visiting order cannot change the result",
    ("recurse", "for HashSet"): "same fixpoint: the inner loop only unions sets (extend into a HashSet)",
    ("build_function_template_signature", "for HashMap values"): "body consists of assert!(matches!(..)) only",
    ("build_function_template_signature", "for HashMap"): "pushes (name, symbol) pairs that are consumed only by keyed "
                                                            "insertion into the new scope's symbol map; names are unique map keys",
    ("end_enum", "for HashMap"): "enum_values is consumed by min/max folds and by keyed updates of the enum registry / parent scope only",
    ("extract_locals", "iter->fold"): "result is stored in ir::ScopedDeclarations.variables, which no exporter reads "
                                      "(only `retain` in rewrite_mesh_output); it is not part of compile's value",
}


def is_hash_ty(t):
    t = (t or "").replace("&mut ", "").replace("&", "").strip()
    return t.startswith(HASH_TY) and not ("Iter<" in t.split("<")[0])



def rule_enum_diagnostics(chk):
    """Context::end_enum walked in both hash orders (the enumerators of an enum live in a HashMap) on rejected and
    accepted model enums whose enumerators carry distinct source locations: result, error payload (location, range) and
    every recorded value must be the same in both orders."""
    import interp as I
    f = chk.facts
    fn = f.fn("end_enum", "rssl_typer")
    if not fn:
        return
    opt = lambda v: I.Enum("Option", "None") if v is None else I.Enum("Option", "Some", {"0": v})
    sloc = lambda n: I.Enum("SourceLocation", None, {"0": n})

    def deref(v):
        return v.get() if isinstance(v, I.Ref) else v
    C = lambda k, v: I.Enum("Constant", k, {"0": v})
    sets = {"two-above-int-and-negative": [C("IntLiteral", -1), C("IntLiteral", 0x90000000), C("IntLiteral", 0xA0000000), C("IntLiteral", 5)],
            "both-ends": [C("IntLiteral", -2147483649), C("IntLiteral", 7), C("IntLiteral", 4294967296)], "accepted-uint": [C("IntLiteral", 3), C("IntLiteral", 4000000000), C("IntLiteral", 9)],
            "accepted-int": [C("IntLiteral", -3), C("IntLiteral", 4), C("Int32", 9), C("Bool", True)]}

    def norm(v):
        if isinstance(v, I.Enum):
            return (v.adt, v.variant, tuple((k, norm(x)) for k, x in sorted(v.fields.items())))
        if isinstance(v, (list, tuple)):
            return tuple(norm(x) for x in v)
        return "opaque" if isinstance(v, I.Opaque) else v
    for sname, vals in sets.items():
        outs = []
        unread = None
        for reverse in (False, True):
            evs = {i: I.Enum("EnumValue", None, {"value": c, "name": I.Enum("Located", None, {"node": "v%d" % i, "location": sloc(100 + 10 * i)})}) for i, c in enumerate(vals)}
            updated = {}
            ext = {"EnumRegistry::get_enum_value": lambda a, evs=evs: evs[deref(a[1]).fields["0"]],
                   "EnumRegistry::get_enum_definition": lambda a: I.Enum("EnumDefinition", None, {"name": I.Enum("Located", None, {"node": "E", "location": sloc(50)})}),
                   "EnumRegistry::set_underlying_type_id": lambda a, u=updated: u.__setitem__("type", deref(a[3]).variant) or (),
                   "EnumRegistry::update_underlying_type": lambda a, u=updated: u.__setitem__(deref(a[1]).fields["0"], norm(deref(a[2]))) or (),
                   "TypeRegistry::register_type": lambda a: I.Enum("TypeId", None, {"0": 50}), "Context::pop_scope": lambda a: ()}
            sym = lambda i: [I.Enum("ScopeSymbol", "EnumValueUntyped", {"0": I.Enum("EnumValueId", None, {"0": i})})]
            es, ps = I.HMap(), I.HMap()
            for i in range(len(vals)):
                es.put("v%d" % i, sym(i))
                ps.put("v%d" % i, sym(i))
            scopes = [I.Enum("ScopeData", None, {"symbols": ps, "parent_scope": 0, "owning_enum": opt(None)}),
                      I.Enum("ScopeData", None, {"symbols": es, "parent_scope": 0, "owning_enum": opt(I.Enum("EnumId", None, {"0": 0}))})]
            ctx = I.Enum("Context", None, {"scopes": scopes, "current_scope": 1, "module": I.Enum("Module", None, {"enum_registry": I.Opaque("enum registry"), "type_registry": I.Opaque("type registry")})})
            ip = I.Interp(f, max_depth=6, extern=ext)
            ip.reverse_hash_order = reverse
            try:
                r = ip.apply(fn, [ctx])
                outs.append((norm(r), sorted((str(k), v) for k, v in updated.items())))
            except I.Unknown as e:
                if "panicking" in str(e):
                    outs.append(("aborts", str(e)[:60]))
                else:
                    unread = str(e)[:100]
                    break
        key = "C07.enum/" + sname
        if unread:
            chk.unreadable(key, "Context::end_enum on a model enum", unread, where(fn))
            continue
        same = outs[0] == outs[1]
        chk.ob(key, same, "same result and recorded values in both hash orders" if same else
               "end_enum gives %s when the enumerator map is walked one way and %s the other way: the diagnostic (or the values) of the same source depends on the process's hash seed"
               % (str(outs[0][0])[:160], str(outs[1][0])[:160]), where(fn), sample={"enum": sname})

def run(chk):
    f = chk.facts
    cg = M.CallGraph(f)
    comp = chk.anchor("C07.anchor/compile", f.fn("compile", "rssl", path_contains="compile::compile"), "rssl::compile")
    if not comp:
        return
    reach = cg.reachable([comp["path"]])
    chk.floor("C07.floor/reachable", len([p for p in reach if p in f.bodies]), 700, "workspace functions reachable from compile")
    rule_ambient(chk, cg, comp, reach)
    rule_hash(chk, reach)
    rule_enum_diagnostics(chk)
    import c02
    c02.rule_usage_eval(chk, prefix="C07.usage")       # the usage closure is exact in both hash orders, hence the same in both


def rule_ambient(chk, cg, comp, reach):
    f = chk.facts
    offenders = {}
    for caller, callees in cg.edges.items():
        if caller not in reach and caller not in f.bodies:
            continue
        if caller not in reach:
            continue
        cb = f.bodies.get(caller)
        if cb is None:
            continue
        for c in callees:
            if c.startswith(AMBIENT_PREFIXES):
                offenders.setdefault(caller, set()).add(c)
    n = 0
    for caller, cs in sorted(offenders.items()):
        cb = f.bodies[caller]
        in_metal = cb["crate"] == "metal_invoker"
        n += 1
        chk.ob("C07.ambient/%s" % short(caller), in_metal,
               "ambient calls confined to metal_invoker: %s" % sorted(short(c) for c in cs) if in_metal else
               "%s (reachable from compile) reads ambient state: %s" % (caller, sorted(cs)), where(cb),
               sample={"fn": caller, "calls": sorted(cs)[:4]})
    chk.ob("C07.ambient/inventory", True, "%d reachable functions call ambient std APIs (all must be inside metal_invoker)" % n, where(comp), trivial=True)
    # calls into metal_invoker from outside are dominated by Target::MetalBytecode
    tv = f.variants("compile::Target", "rssl")
    for p in sorted(reach):
        b = f.bodies.get(p)
        if b is None or "mir" not in b or b["crate"] == "metal_invoker":
            continue
        cfg = M.Cfg(b)
        sites = [(bb, t) for bb, t in cfg.calls() if (cfg.callee(t) or "").startswith("metal_invoker::")]
        if not sites:
            continue
        if not tv or "MetalBytecode" not in tv:
            chk.ob("C07.ambient/metal-gate", False, "anchor-missing: Target enum", where(b))
            continue
        idx = tv.index("MetalBytecode")
        edges = discr_value_edges(cfg, "Target", idx)
        reach_wo = cfg.reachable_from(0, avoid_edges=edges) if edges else set(range(cfg.n))
        for bb, t in sites:
            ok = bool(edges) and bb not in reach_wo
            if not ok:
                # the calls may sit in a helper that is itself only called under the test (`compile_metal_bytecode(..)`)
                ok = called_only_under(f, reach, p, "Target", idx, 3)
            chk.ob("C07.ambient/metal-gate/%s" % short(cfg.callee(t)), ok,
                   "only under Target::MetalBytecode" if ok else
                   "%s calls %s without being dominated by the Target::MetalBytecode test: the external Metal compiler "
                   "(a process, the file system) would influence other targets" % (short(p), cfg.callee(t)), where(b, t.get("ln")))


def called_only_under(f, reach, path, adt_short, index, depth):
    """Is every call of `path` (from a function reachable from compile, outside metal_invoker) made only on the edge where
    the enum <adt_short> has variant <index> - directly, or in a function for which the same holds?"""
    if depth == 0:
        return False
    found = False
    for q in sorted(reach):
        b = f.bodies.get(q)
        if b is None or "mir" not in b or b["crate"] == "metal_invoker" or q == path:
            continue
        cfg = M.Cfg(b)
        sites = [bb for bb, t in cfg.calls() if cfg.callee(t) == path]
        if not sites:
            continue
        found = True
        edges = discr_value_edges(cfg, adt_short, index)
        reach_wo = cfg.reachable_from(0, avoid_edges=edges) if edges else set(range(cfg.n))
        for bb in sites:
            if not (edges and bb not in reach_wo) and not called_only_under(f, reach, b.get("parent") or q, adt_short, index, depth - 1):
                return False
    return found


def discr_value_edges(cfg, adt_short, index):
    edges = []
    for i, b in enumerate(cfg.blocks):
        t = b["term"]
        if t["t"] != "Switch":
            continue
        p = M.op_place(t["x"])
        if p is None or not isinstance(p, int):
            continue
        ds = cfg.defs().get(p, [])
        if len(ds) != 1 or ds[0][0] != "stmt" or ds[0][3].get("r") != "Discr" or short(ds[0][3].get("adt") or "") != adt_short:
            continue
        hit = False
        for v, tgt in zip(t["vals"], t["to"]):
            if v == index:
                edges.append((i, tgt))
                hit = True
        if not hit:
            edges.append((i, t["to"][-1]))
    return edges


# ------------------------------------------------------------------ hash order

def hash_sites(b):
    """Hash-order exposure sites of one body, from THIR:
    [(what, node, loop or None)] ; what in 'for HashMap', 'for HashSet', 'for HashMap values', 'keys->collect', 'from_iter', ..."""
    out = []
    t = b["thir"]
    loops = F.for_loops(t)
    loop_iters = set()
    for (p, it, body, node) in loops:
        loop_iters.add(id(node["scrut"]))
        loop_iters.add(id(F.strip(node["scrut"])))
        ity = F.strip(it).get("ty", "") if F.strip(it).get("k") != "Call" else ""
        desc = None
        its = F.strip(it)
        if its.get("k") == "Call":
            nm = short(its.get("fn") or "")
            recv_ty = its["args"][0].get("ty", "") if its.get("args") else ""
            if nm in ITER_METHODS and is_hash_ty(recv_ty):
                desc = "for %s %s" % ("HashMap" if "map::" in recv_ty else "HashSet", nm)
                loop_iters.add(id(its))
            elif is_hash_ty(its.get("ty", "")):
                desc = "for %s" % ("HashMap" if "map::" in its.get("ty", "") else "HashSet")
        else:
            if is_hash_ty(it.get("ty", "")) or is_hash_ty(its.get("ty", "")):
                ty = it.get("ty", "") + its.get("ty", "")
                desc = "for %s" % ("HashMap" if "map::" in ty else "HashSet")
        if desc:
            out.append((desc.replace(" iter", "").replace(" into_iter", ""), node, (p, it, body, node)))
    for c in F.exprs(t, "Call"):
        nm = short(c.get("fn") or "")
        if id(c) in loop_iters or not c.get("args"):
            continue
        a0ty = c["args"][0].get("ty", "")
        if nm in ITER_METHODS and is_hash_ty(a0ty):
            # an adaptor chain starting at a hash container that is not a for-loop head: find how it ends
            out.append(("%s->chain" % nm, c, None))
        elif nm in ("from_iter",) and is_hash_ty(a0ty):
            out.append(("from_iter", c, None))
        elif nm == "extend" and len(c["args"]) > 1 and is_hash_ty(c["args"][1].get("ty", "")) and not is_hash_ty(a0ty):
            out.append(("extend-into-ordered", c, None))
    return out


def chain_end(b, start):
    """For `map.iter()/keys()...` not heading a for loop: the outermost call of the method chain it starts."""
    cur = start
    changed = True
    names = [short(start.get("fn") or "")]
    while changed:
        changed = False
        for c in F.exprs(b["thir"], "Call"):
            if c is cur or not c.get("args"):
                continue
            a0 = F.strip(c["args"][0])
            if a0 is cur or c["args"][0] is cur:
                cur = c
                names.append(short(c.get("fn") or ""))
                changed = True
                break
    return cur, names


ORDER_FREE_CALLS = {"insert", "contains", "contains_key", "get", "get_mut", "entry", "or_default", "or_insert", "or_insert_with",
                    "len", "is_empty", "clone", "eq", "ne", "min", "max", "unwrap", "expect", "is_some", "is_none", "to_string",
                    "remove", "assert_failed", "panic_fmt", "panic", "deref", "deref_mut", "index", "index_mut", "as_str", "cmp",
                    "branch", "from_residual", "into_iter", "next", "iter", "from", "into", "as_ref", "borrow", "new", "default",
                    "extend", "matches", "unreachable_display", "format", "must_use", "get_enum_value", "get_intrinsic_data",
                    "get_template_instantiation_data", "contains", "sort_by", "sort", "from_iter", "push_str_internal"}


COMMUTATIVE_ASSIGN_OPS = {"Add", "BitOr", "BitAnd", "BitXor", "Mul", "AddAssign", "BitOrAssign", "BitAndAssign", "BitXorAssign", "MulAssign"}


def order_sensitive_assignments(body, local_ids):
    """Assignments inside a loop body to variables that outlive an iteration, other than commutative / idempotent
    updates: `x = min(x, v)` / `x = max(x, v)` / `x = x.min(v)`, `if v < x { x = v }`, `x += v` / `|=` / `&=`, and
    `x = <loop-invariant constant>`. Anything else is 'last writer wins': its final value depends on the visiting order.
    Returns [(name, node)]."""
    out = []
    parent = {}
    local_ids = set(local_ids)
    for n in F.walk(body):
        if isinstance(n, dict) and n.get("k") == "Bind" and "id" in n:
            local_ids.add(n["id"])          # inner loop / match-arm / let bindings live inside one iteration
        for c in F.children(n):
            if isinstance(c, dict):
                parent[id(c)] = n
    for a in F.walk(body):
        if a.get("k") not in ("Assign", "AssignOp"):
            continue
        lv = F.leftmost_var(a["l"])
        if lv is None or lv["id"] in local_ids:
            continue
        lhs = F.strip(a["l"])
        if lhs.get("k") not in ("Var", "Field", "Deref"):
            continue       # indexed / keyed element update
        if any(x.get("k") == "Index" or (x.get("k") == "Call" and short(x.get("fn") or "") in ("index_mut", "get_mut", "entry", "unwrap")) for x in F.walk(a["l"])):
            continue
        if a.get("k") == "AssignOp":
            if a.get("op") in COMMUTATIVE_ASSIGN_OPS:
                continue
            out.append((lv.get("name"), a))
            continue
        r = F.strip(a["r"])
        # x = min(x, v) / max / x.min(v)
        if r.get("k") == "Call" and short(r.get("fn") or "") in ("min", "max") and any((F.leftmost_var(g) or {}).get("id") == lv["id"] for g in r.get("args", [])):
            continue
        # loop-invariant value: no variable of the loop (pattern / let) occurs in the right-hand side
        rvars = {v["id"] for v in F.exprs(a["r"], "Var")}
        if not (rvars & local_ids) and not any(x.get("k") == "Call" and short(x.get("fn") or "") not in ("from", "into", "clone", "to_string", "new", "default") for x in F.walk(a["r"])):
            continue
        # if v < x { x = v }
        guard = parent.get(id(a))
        ok = False
        hops = 0
        while guard is not None and hops < 4:
            if guard.get("k") == "If":
                c = F.strip(guard["cond"])
                cmpop = (c.get("k") == "Binary" and c.get("op") in ("Lt", "Le", "Gt", "Ge")) or (c.get("k") == "Call" and short(c.get("fn") or "") in ("lt", "le", "gt", "ge"))
                if cmpop and any(v["id"] == lv["id"] for v in F.exprs(c, "Var")):
                    ok = True
                break
            guard = parent.get(id(guard))
            hops += 1
        if not ok:
            out.append((lv.get("name"), a))
    return out


def hash_ordered_vec_consumers(b, loop, all_loops):
    """A hash loop that pushes into a plain local Vec leaves that Vec in hash order. Every later loop over that Vec is
    then a hash-order loop too: returns the order-sensitive assignments found in those consumer loops [(vec, var)]."""
    p, it, body, node = loop
    if body is None:
        return []
    out = []
    vecs = {}
    for c in F.exprs(body, "Call"):
        if short(c.get("fn") or "") in ("push", "push_back") and c.get("args"):
            rv = F.leftmost_var(c["args"][0])
            if rv is not None and not field_path(c["args"][0]):
                vecs[rv["id"]] = rv.get("name")
    for (p2, it2, body2, node2) in all_loops:
        if body2 is None or node2 is node:
            continue
        v = F.leftmost_var(it2)
        if v is None or v["id"] not in vecs:
            continue
        its = F.strip(it2)
        if not (its.get("k") == "Var" or (its.get("k") == "Call" and short(its.get("fn") or "") in ("iter", "iter_mut", "into_iter", "deref", "enumerate"))):
            continue
        local_ids = {i for i, n, _ in F.pat_binds(p2)}
        for s in F.walk(body2):
            if s.get("k") == "LetStmt":
                local_ids |= {i for i, n, _ in F.pat_binds(s["pat"])}
        for name, a in order_sensitive_assignments(body2, local_ids):
            out.append((vecs[v["id"]], name))
        # leaving the loop (return / break / `?`) at an element: which element is reached first depends on the order
        desugared = set()
        for m_ in F.walk(body2):
            if isinstance(m_, dict) and m_.get("k") == "Match" and (m_.get("src") or "").startswith("ForLoopDesugar"):
                for arm_ in m_["arms"]:
                    if (F.pat_variant(arm_["pat"]) or (None, None))[1] == "None":
                        desugared |= {id(y) for y in F.walk(arm_["body"]) if isinstance(y, dict) and y.get("k") == "Break"}
        for x in F.walk(body2):
            if isinstance(x, dict) and x.get("k") in ("Return", "Break") and id(x) not in desugared:
                out.append((vecs[v["id"]], "the point where the loop is left (%s)" % ("return" if x["k"] == "Return" else "break")))
                break
    # positional queries on the hash-ordered Vec: which element is "the first that ..." depends on the order
    POSITIONAL = {"find", "find_map", "position", "rposition", "first", "last", "next", "nth", "first_mut", "last_mut", "split_first", "split_last"}
    if vecs and isinstance(b, dict) and "thir" in b:
        for c in F.exprs(b["thir"], "Call"):
            nm = short(c.get("fn") or "")
            if nm in POSITIONAL and c.get("args"):
                rv = F.leftmost_var(c["args"][0])
                if rv is not None and rv["id"] in vecs and not any(c is y for y in F.walk(body)):
                    out.append((vecs[rv["id"]], "`%s` on it (which element comes first)" % nm))
    return out


def classify_loop(b, loop, all_loops):
    """Returns (class, detail). Sinks are Vec::push calls in the loop body whose receiver is not loop-local."""
    p, it, body, node = loop
    if body is None:
        return "unknown", "loop body not found"
    local_ids = {i for i, n, _ in F.pat_binds(p)}
    for s in F.walk(body):
        if s.get("k") == "LetStmt":
            local_ids |= {i for i, n, _ in F.pat_binds(s["pat"])}
    sinks = []
    for c in F.exprs(body, "Call"):
        nm = short(c.get("fn") or "")
        if nm in ("push", "push_back", "push_str", "insert_str", "extend_from_slice", "write_fmt", "write_str") \
                or (nm == "extend" and c.get("args") and not is_hash_ty(c["args"][0].get("ty", ""))) \
                or (nm == "insert" and c.get("args") and "Vec<" in c["args"][0].get("ty", "")):
            rv = F.leftmost_var(c["args"][0]) if c.get("args") else None
            if rv is None or rv["id"] not in local_ids:
                sinks.append((c, rv, field_path(c["args"][0])))
    # cross-iteration state: a container that lives outside the loop is both written and read inside it, so what one
    # iteration sees depends on which iterations ran before it
    WRITES = {"insert", "push", "push_back", "remove", "extend", "clear", "retain", "entry", "append", "pop"}
    READS = {"contains", "contains_key", "get", "get_mut", "len", "is_empty", "iter", "keys", "values", "first", "last", "index",
             "get_key_value", "is_subset", "is_superset", "intersection", "difference"}
    written, read = {}, {}
    for c in F.exprs(body, "Call"):
        nm = short(c.get("fn") or "")
        if not c.get("args") or nm not in WRITES | READS:
            continue
        rv = F.leftmost_var(c["args"][0])
        if rv is None or rv["id"] in local_ids:
            continue
        recv_ty = c["args"][0].get("ty", "") + F.strip(c["args"][0]).get("ty", "")
        if not any(x in recv_ty for x in ("HashMap", "HashSet", "Vec<", "BTreeMap", "BTreeSet")):
            continue
        key = (rv["id"], field_path(c["args"][0]))
        name = "%s%s" % (rv.get("name"), "." + ".".join(key[1]) if key[1] else "")
        if nm in WRITES:
            written[key] = name
        if nm in READS:
            read[key] = name
    both = sorted(written[k] for k in written if k in read)
    if both:
        return "cross-iteration-state", "the loop both updates and reads %s, which outlives an iteration: the result depends on the hash order of the iterations" % ", ".join(both)
    lww = order_sensitive_assignments(body, local_ids)
    if lww:
        return "last-writer-wins", "the loop assigns %s from the element being visited (not a min/max/sum-style update): the value left after the loop depends on the hash order" % ", ".join(sorted({n or "?" for n, _ in lww}))
    early = [x for x in F.walk(body) if x.get("k") == "Return" and "e" in x and x.get("mac") is None]
    if early:
        return "early-exit", "the loop returns a value from inside a hash iteration"
    if not sinks:
        return "keyed-sink-only", "loop body writes only into hash containers / loop-local values"
    # each sink must be sorted after the loop
    missing = []
    for c, rv, fp in sinks:
        if not sorted_after(b, node, rv, fp):
            missing.append("%s%s" % (rv.get("name") if rv else "?", "." + ".".join(fp) if fp else ""))
    if missing:
        return "ordered-sink-unsorted", "pushes into %s in hash order and no sort of it follows the loop" % ", ".join(sorted(set(missing)))
    return "sorted-after", "ordered sink(s) sorted after the loop"


DEREFISH = ("deref", "deref_mut", "as_mut_slice", "as_slice", "as_mut", "as_ref", "borrow_mut", "borrow")


def field_path(e):
    out = []
    e = F.strip(e)
    while isinstance(e, dict):
        if e.get("k") in ("Field", "Deref", "Borrow"):
            if e.get("k") == "Field":
                out.append(e["name"])
            e = F.strip(e["e"])
        elif e.get("k") == "Call" and short(e.get("fn") or "") in DEREFISH and e.get("args"):
            e = F.strip(e["args"][0])
        else:
            break
    return tuple(reversed(out))


def sorted_after(b, after_node, rv, fp):
    """A sort*/sort_by* call on the same Vec (same root variable and field path) textually after the loop."""
    ln = after_node.get("ln") or 0
    for c in F.exprs(b["thir"], "Call"):
        nm = short(c.get("fn") or "")
        if not nm.startswith("sort") or not c.get("args"):
            continue
        v = F.leftmost_var(c["args"][0])
        if rv is not None and v is not None and v["id"] == rv["id"] and field_path(c["args"][0]) == fp and (c.get("ln") or 0) > ln:
            return True
    return False


def rule_hash(chk, reach):
    f = chk.facts
    n_sites = 0
    classes = {}
    for b in f.bodies.values():
        if "thir" not in b or b["kind"] not in ("Fn", "AssocFn", "Closure"):
            continue
        owner = b.get("parent") or b["path"]
        if b["crate"] == "metal_invoker":
            continue
        sites = hash_sites(b)
        if not sites:
            continue
        loops = F.for_loops(b["thir"])
        fname = short(owner)
        for what, node, loop in sites:
            n_sites += 1
            rkey = None
            if loop is not None:
                cls, detail = classify_loop(b, loop, loops)
                rkey = (fname, what if what in ("for HashMap", "for HashSet") else what.replace("for HashMap values", "for HashMap values"))
            elif what == "from_iter":
                # let mut v = Vec::from_iter(hash); v.sort*()
                cls, detail = collected_then_sorted(b, node)
            elif what.endswith("->chain"):
                end, names = chain_end(b, node)
                head = names[0]
                if names[-1] in ("any", "all", "count", "min", "max", "sum", "len", "find_map") and names[-1] not in ("find_map",):
                    cls, detail = "commutative-fold", "%s(..) over the hash iterator" % names[-1]
                elif names[-1] in ("collect", "from_iter") or "from_iter" in names:
                    cls, detail = collected_then_sorted(b, end)
                    if cls != "collected-then-sorted":
                        rkey = (fname, "%s->collect" % head)
                elif names[-1] == "fold":
                    cls, detail = "ordered-fold", "fold over a hash iterator"
                    rkey = (fname, "%s->fold" % head)
                else:
                    # feeds a for loop or another call: attribute to the enclosing for-loop if it heads one
                    hl = [l for l in loops if any(x is end for x in F.walk(l[1])) or F.strip(l[1]) is end]
                    # the chain feeds `vec.extend(<chain>)`: the Vec is an ordered sink, fine when it is sorted afterwards
                    feeds = [c2 for c2 in F.exprs(b["thir"], "Call") if short(c2.get("fn") or "") in ("extend", "append") and len(c2.get("args", [])) > 1
                             and (F.strip(c2["args"][1]) is end or c2["args"][1] is end)]
                    if hl:
                        cls, detail = classify_loop(b, hl[0], loops)
                        rkey = (fname, "for %s %s" % ("HashMap" if "map::" in node["args"][0].get("ty", "") else "HashSet", head))
                    elif feeds and not is_hash_ty(feeds[0]["args"][0].get("ty", "")):
                        rv = F.leftmost_var(feeds[0]["args"][0])
                        fp = field_path(feeds[0]["args"][0])
                        if sorted_after(b, feeds[0], rv, fp):
                            cls, detail = "sorted-after", "extends an ordered sink that is sorted afterwards"
                        else:
                            cls, detail = "ordered-sink-unsorted", "extends %s in hash order and no sort of it follows" % ((rv or {}).get("name"),)
                        rkey = (fname, "for HashMap")
                    else:
                        cls, detail = "unknown-chain", "hash iterator consumed by %s" % names
                        rkey = (fname, "%s->%s" % (head, names[-1]))
            else:
                cls, detail = "ordered-sink-unsorted", what
            key = "C07.hash/%s/%s" % (fname, (rkey[1] if rkey else what).replace(" ", "-"))
            ok = cls in ("sorted-after", "collected-then-sorted", "keyed-sink-only", "commutative-fold")
            reason = None
            if not ok and rkey and rkey in REVIEWED:
                ok, reason = True, REVIEWED[rkey]
                cls = "reviewed"
                if loop is not None:
                    cons = hash_ordered_vec_consumers(b, loop, loops)
                    if cons:
                        ok = False
                        cls = "hash-ordered-vec-consumer"
                        detail = "the Vec `%s` filled in hash order is later walked by a loop that determines %s from the element being visited (not a min/max/sum-style update): the result depends on the hash order" % (
                            cons[0][0], ", ".join(sorted({c[1] or "?" for c in cons})))
            classes[cls] = classes.get(cls, 0) + 1
            in_reach = owner in reach
            chk.ob(key, ok, "%s: %s" % (cls, reason or detail) if ok else
                   "hash iteration order can reach the output: %s (%s)%s" % (detail, cls, "" if in_reach else " [not reachable from compile today]"),
                   where(b, node), sample={"fn": fname, "site": what, "class": cls})
    chk.floor("C07.floor/hash-sites", n_sites, 10, "hash-order exposure sites in the workspace")
    chk.note("hash site classes: %s" % dict(sorted(classes.items())))
    rule_sort_keys(chk)
    rule_models_order(chk)


def collected_then_sorted(b, node):
    """node = the from_iter / collect call; its value is bound to a variable that is sorted before use."""
    for s in F.walk(b["thir"]):
        if s.get("k") == "LetStmt" and "init" in s and any(x is node for x in F.walk(s["init"])) and s["pat"].get("k") == "Bind":
            vid = s["pat"]["id"]
            ln = s.get("ln") or 0
            # first use of the variable after the let must be a sort
            uses = sorted([(c.get("ln") or 0, short(c.get("fn") or "")) for c in F.exprs(b["thir"], "Call")
                           if c.get("args") and (F.leftmost_var(c["args"][0]) or {}).get("id") == vid and (c.get("ln") or 0) >= ln
                           and c is not node and not any(x is c for x in F.walk(s["init"]))
                           and short(c.get("fn") or "") not in DEREFISH])
            if uses and uses[0][1].startswith("sort"):
                return "collected-then-sorted", "collected into a Vec that is sorted before its first use"
            return "collected-unsorted", "collected into `%s` in hash order; first use is %s" % (s["pat"]["name"], uses[:1])
    return "collected-unsorted", "collected in hash order into a temporary"


SORTS = [
    # (crate, function, receiver field/var name, accepted comparator description)
    ("rssl_ir", "build", "name_to_symbol_vec", "by-unique-key"),
    ("rssl_msl", "analyse_globals", "required_globals", "derived-ord"),
    ("rssl_ir", "assign_api_bindings", "inline_constant_buffers", "derived-ord"),
    ("rssl_msl", "generate_helpers", "objects", "by-unique-key"),
    ("rssl_msl", "generate_helpers", "ordered", "derived-ord"),
]


def rule_sort_keys(chk):
    f = chk.facts
    for crate, fn_name, recv, kind in SORTS:
        cands = [b for b in f.by_name.get(fn_name, []) if b["crate"] == crate and b["kind"] in ("Fn", "AssocFn")]
        found = None
        for b in cands:
            for c in F.exprs(b["thir"], "Call"):
                nm = short(c.get("fn") or "")
                if nm.startswith("sort") and c.get("args"):
                    v = F.leftmost_var(c["args"][0])
                    fp = field_path(c["args"][0])
                    if (v and v.get("name") == recv) or (fp and fp[-1] == recv):
                        found = (b, c, nm)
        key = "C07.sort-key/%s/%s" % (fn_name, recv)
        if not found:
            chk.ob(key, False, "anchor-missing: the sort of `%s` in %s that fixes an order after hash iteration is gone" % (recv, fn_name), crate)
            continue
        b, c, nm = found
        if kind == "derived-ord":
            ok = nm in ("sort", "sort_unstable")
            chk.ob(key, ok, "%s() with the element type's total Ord" % nm if ok else
                   "`%s` is sorted with %s; a partial key can leave hash order visible among equal elements" % (recv, nm), where(b, c))
        else:
            # comparator closure must compare field/tuple position 0 (the unique map key) of both elements
            ok = nm in ("sort_by", "sort_by_key", "sort_unstable_by", "sort_unstable_by_key", "sort")
            clos = [x for x in F.exprs(c, "Closure")]
            detail = nm
            if ok and clos:
                cb = f.bodies.get(clos[0]["path"])
                if cb:
                    cmpc = [x for x in F.exprs(cb["thir"], "Call") if short(x.get("fn") or "") in ("cmp", "partial_cmp")]
                    def pos0(e):
                        e = F.strip(e)
                        if e.get("k") == "Field" and e["name"] == "0":
                            return True
                        v = F.leftmost_var(e)
                        if v is None:
                            return False
                        for i, n, pth in [x for p in cb.get("params", []) if "pat" in p for x in F.pat_binds(p["pat"])]:
                            if i == v["id"]:
                                return pth[-1:] == ("0",) or pth == ("0",) or (len(pth) >= 1 and pth[-1] == "0")
                        return False
                    ok = bool(cmpc) and all(pos0(a) for a in cmpc[0]["args"][:2])
                    detail = "comparator compares the map key (tuple position 0) of both elements" if ok else "comparator does not compare the unique map key"
            chk.ob(key, ok, detail if ok else "`%s` in %s: %s" % (recv, fn_name, detail), where(b, c))


def rule_models_order(chk):
    """Two passes that walk hash containers are small enough to be evaluated on model modules (finite-map reader with
    modelled HashMap / HashSet): NameMap::build and Module::assign_api_bindings give the same result when every hash
    container is iterated forwards and backwards."""
    f = chk.facts
    try:
        import namemodel as NM
        import interp as I
        m = NM.NameModel(f)
        spec = dict(namespaces=[("N", None), ("M", None), ("K", 0)], structs=[("f", 2), ("half", None)], enums=[("E", 1)], globals=[("v", None), ("v", 0), ("v", 1), ("float", 2)],
                    functions=[("f", 0, "plain"), ("f", 0, "plain"), ("f", 1, "plain"), ("f", 1, "plain"), ("f", 1, "plain"), ("f_0", 1, "plain"), ("g", None, "plain"), ("g", None, "plain")],
                    locals=["f_0", "f_2", "v", "g_1", "half"])
        r1, r2 = m.run(spec, ["half", "float"], reverse=False), m.run(spec, ["half", "float"], reverse=True)
        if isinstance(r1, tuple) or isinstance(r2, tuple):
            bad = r1 if isinstance(r1, tuple) else r2
            if bad[0] == "unreadable":
                chk.note("NameMap::build model not readable: %s" % bad[1][:80])
            else:
                chk.ob("C07.model/NameMap::build", False, "NameMap::build %s on the model module (%s)" % (bad[0], bad[1][:80]), where(m.fn))
        else:
            d = [k for k in r1 if r1.get(k) != r2.get(k)]
            chk.ob("C07.model/NameMap::build", not d, "%d names are the same in both hash orders" % len(r1) if not d else
                   "the emitted name of %s %d depends on the iteration order of a hash container (%s or %s): two compilations of the same input differ" % (d[0] + (r1[d[0]][1], r2[d[0]][1])),
                   where(m.fn), sample={"names": len(r1), "order_dependent": len(d)})
    except Exception as e:
        chk.note("NameMap::build model not evaluated: %r" % (e,))
    try:
        import bindmodel as BM
        bm = BM.BindModel(f)
        o = {k: bm.obj(k) for k in ("Texture2D", "BufferAddress", "RWBufferAddress", "StructuredBuffer")}
        decls = [("global", o["BufferAddress"], 3, False), ("global", o["Texture2D"], None, False), ("global", o["RWBufferAddress"], 1, False), ("global", o["BufferAddress"], 0, False),
                 ("global", o["StructuredBuffer"], 3, False), ("cbuffer", 1)]
        params = {"require_slot_type": False, "support_buffer_address": True, "metal_slot_layout": False, "static_samplers_have_slots": True}
        a, b = bm.run(decls, 2, params, reverse=False), bm.run(decls, 2, params, reverse=True)
        if len(a) == 3 and len(b) == 3:
            same = (a[0], a[1]) == (b[0], b[1])
            chk.ob("C07.model/assign_api_bindings", same, "placements and inline constant buffers are the same in both hash orders" if same else
                   "assign_api_bindings depends on hash iteration order: %s vs %s" % (a[:2], b[:2]), where(bm.fn))
    except Exception as e:
        chk.note("assign_api_bindings model not evaluated: %r" % (e,))
