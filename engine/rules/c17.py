"""C17 — pipelines are selected and compiled independently."""
import facts as F
import mirs as M
from facts import short, where

EXPLANATION = (
    "Equality of outputs with and without other pipelines present is a run-time comparison and is not decided beyond "
    "isolation of state. Decided: C17.select — compile() iterates ir.pipelines itself, in order, skips exactly when a "
    "name was requested and differs, passes the loop's pipeline to build_pipeline, builds once with None in "
    "no-pipeline mode, and returns the two 'does not contain' errors under is_empty(). C17.isolate — build_pipeline's "
    "only use of the shared `&ir::Module` is Clone::clone; select_pipeline / assign_api_bindings / the exporters are "
    "applied to the clone (every other use of the parameter is reported); the per-pipeline metadata "
    "(graphics_pipeline_state, stages) is read from the selected PipelineDefinition only. C17.dup — the typer's "
    "registration of a pipeline is dominated by a duplicate-name rejection, so select_pipeline's assert / compile's "
    "panic on two equal names are unreachable."
)
ASSUMPTIONS = ["rustc THIR/MIR is a faithful view of the source",
               "Module::clone is a deep copy apart from reference-counted parts that are never mutated after type checking"]


def run(chk):
    f = chk.facts
    comp = chk.anchor("C17.anchor/compile", f.fn("compile", "rssl", path_contains="compile::compile"), "rssl::compile")
    bp = chk.anchor("C17.anchor/build_pipeline", f.fn("build_pipeline", "rssl"), "build_pipeline")
    if comp and bp:
        if not rule_select_eval(chk, comp):
            rule_select(chk, comp, bp)
    if bp:
        import c18
        built = c18.rule_build_eval(chk, prefix="C17.build")       # each pipeline is selected, bound and exported on its own copy, in that order
        rule_isolate(chk, bp, shape=not built)
    rule_dup(chk)
    rule_pipeline_definition_is_local(chk)

def rule_pipeline_definition_is_local(chk):
    """A pipeline definition only adds a pipeline: parse_pipeline is walked on a model module that has globals, constant
    buffers and another pipeline, for a definition with a stage and every property from the table (DefaultBindGroup
    among them). Afterwards everything the module held before - the globals' and constant buffers' bindings, the other
    pipeline - is unchanged, and exactly one pipeline was added. (All pipelines of a file are compiled from this one
    module: what one definition writes into shared declarations, every other pipeline sees.)"""
    import interp as I
    import c08
    f = chk.facts
    pp = f.fn("parse_pipeline", "rssl_typer")
    if not pp:
        chk.note("C17.isolate/definition: parse_pipeline not found; not decided")
        return
    opt = lambda v: I.Enum("Option", "None") if v is None else I.Enum("Option", "Some", {"0": v})
    loc = lambda s_: I.Enum("Located", None, {"node": s_, "location": I.Opaque("loc")})
    prop = lambda n_: I.Enum("PipelineProperty", None, {"property": loc(n_), "value": I.Opaque("value")})

    def add_stage(a):
        p_ = a[3].get() if isinstance(a[3], I.Ref) else a[3]
        p_.fields["stages"].append(I.Enum("PipelineStage", None, {"stage": a[1]}))
        return I.Enum("Result", "Ok", {"0": ()})
    okv = lambda v: (lambda a: I.Enum("Result", "Ok", {"0": v}))
    ext = {"add_stage": add_stage, "parse_blend_state": okv(I.Opaque("blend state")), "extract_string": okv("format"), "extract_uint32": okv(2),
           "extract_cull_mode": okv(I.Opaque("cull mode")), "extract_winding_order": okv(I.Opaque("winding order"))}

    def module():
        binding = lambda: I.Enum("LanguageBinding", None, {"set": opt(None), "index": opt(None)})
        g = lambda nm, intr=False: I.Enum("GlobalVariable", None, {"name": loc(nm), "type_id": I.Enum("TypeId", None, {"0": 3}), "storage_class": I.Enum("GlobalStorage", "Extern"), "lang_slot": binding(),
                                                                    "api_slot": opt(None), "is_bindless": False, "is_intrinsic": intr, "static_sampler": opt(None), "init": opt(None)})
        cb = I.Enum("ConstantBuffer", None, {"name": loc("CB"), "namespace": opt(None), "lang_binding": binding(), "api_binding": opt(None), "members": []})
        other = I.Enum("PipelineDefinition", None, {"name": loc("Zed"), "stages": [], "default_bind_group_index": 0, "graphics_pipeline_state": opt(None)})
        return I.Enum("Module", None, {"pipelines": [other], "global_registry": [g("a"), g("b"), g("intrinsic", True)], "cbuffer_registry": [cb], "struct_registry": [], "flags": I.Opaque("flags")})
    flat = lambda v: repr(v)
    bad = None
    n = 0
    for stage in ("PixelShader", "ComputeShader"):
        for p1 in c08.PIPELINE_PROPS:
            m0 = module()
            before = {k: flat(v) for k, v in m0.fields.items() if k != "pipelines"}
            first = flat(m0.fields["pipelines"][0])
            d = I.Enum("PipelineDefinition", None, {"name": loc("P"), "properties": [prop(stage), prop(p1)]})
            ctx = I.Enum("Context", None, {"module": m0})
            ip = I.Interp(f, max_depth=8, extern=ext)
            ip.max_loop = 64
            try:
                r = ip.apply(pp, [d, ctx])
            except I.Unknown as e:
                if "panicking" in str(e):
                    continue        # (aborts are C08.pipeline's business)
                chk.unreadable("C17.isolate/definition", "parse_pipeline on a model module with globals and constant buffers", str(e)[:100], where(pp))
                return
            n += 1
            after = {k: flat(v) for k, v in m0.fields.items() if k != "pipelines"}
            changed = sorted(k for k in before if before[k] != after.get(k))
            pls = m0.fields["pipelines"]
            accepted = isinstance(r, I.Enum) and r.variant == "Ok"
            if changed and bad is None:
                bad = "`Pipeline P { %s = ..; %s = ..; }` changes the module's %s: a declaration shared by all pipelines is rewritten by one pipeline's definition, and every other pipeline is compiled from the rewritten module" % (stage, p1, ", ".join(changed))
            elif (flat(pls[0]) != first or len(pls) != (2 if accepted else 1)) and bad is None:
                bad = "`Pipeline P { %s = ..; %s = ..; }` (%s) after `Pipeline Zed` leaves %d pipelines in the module%s" % (stage, p1, "accepted" if accepted else "refused", len(pls),
                      ": P is not added after the pipelines declared before it (compile() returns one result per pipeline in source order)" if len(pls) == 2 and flat(pls[1]) == first else (", the earlier pipeline changed" if flat(pls[0]) != first else ""))
    chk.ob("C17.isolate/definition", bad is None, bad or "%d definitions: only a pipeline is added, the shared declarations are untouched" % n, where(pp), sample={"definitions": n})
    chk.floor("C17.floor/pipeline-definitions", n, 30, "pipeline definitions evaluated against a populated module", where(pp))


def rule_select_eval(chk, comp):
    """compile() walked with scripted stages (compilemodel.py) on selection scenarios: which pipelines are handed to
    build_pipeline, in which order, and what is returned - for no name / a present name / an absent name / no pipelines /
    no-pipeline mode, on every target. True when readable."""
    import compilemodel as CMP
    f = chk.facts
    targets = f.variants("Target", "rssl") or ["HlslForDirectX"]
    SC = [
        ("all", dict(), ("Ok", ["A", "B", "C"]), ["A", "B", "C"]),
        ("by-name", dict(pipeline_name="B"), ("Ok", ["B"]), ["B"]),
        ("by-name-first", dict(pipeline_name="A"), ("Ok", ["A"]), ["A"]),
        ("by-name-last", dict(pipeline_name="C"), ("Ok", ["C"]), ["C"]),
        ("absent-name", dict(pipeline_name="Z"), ("Err", "Text"), []),
        ("no-pipelines", dict(pipelines=()), ("Err", "Text"), []),
        ("no-pipelines-by-name", dict(pipelines=(), pipeline_name="A"), ("Err", "Text"), []),
        ("no-pipeline-mode", dict(no_pipeline_mode=True), ("Ok", [None]), [None]),
        ("no-pipeline-mode-empty", dict(pipelines=(), no_pipeline_mode=True), ("Ok", [None]), [None]),
        ("single", dict(pipelines=("A",)), ("Ok", ["A"]), ["A"]),
        ("export-error", dict(fail="build_pipeline"), ("Err", "Text"), ["A"]),
    ]
    for name, kw, want, want_built in SC:
        bad = None
        for tgt in targets:
            r = CMP.run_compile(f, comp, CMP.Scenario(target=tgt, **kw))
            if r.result[0] == "unreadable":
                chk.note("C17.select: compile() is not readable (%s); the shape rules decide" % r.result[1])
                return False
            got = r.result[:2] if r.result[0] == "Err" else r.result
            if r.result[0] == "aborts":
                bad = bad or "%s: compile aborts (%s)" % (tgt, r.result[1])
            elif got != want or r.built != want_built:
                bad = bad or "%s: pipelines %s, requested %s%s: build_pipeline is called for %s and compile returns %s; must build %s and return %s" % (
                    tgt, list(kw.get("pipelines", ("A", "B", "C"))), kw.get("pipeline_name"), ", no-pipeline mode" if kw.get("no_pipeline_mode") else "", r.built, r.result, want_built, want)
        chk.ob("C17.select/model/" + name, bad is None, "%d targets: builds %s, returns %s" % (len(targets), want_built, want) if bad is None else bad, where(comp),
               sample={"scenario": name, "targets": len(targets)})
    for k_, txt in (("C17.select/source-order", "source order"), ("C17.select/skip-iff-other-name", "skip iff another name is requested"), ("C17.select/passes-loop-pipeline", "the selected pipeline is the one built"),
                    ("C17.select/no-pipeline-mode", "no-pipeline mode builds once with no pipeline"), ("C17.select/missing-pipeline-errors", "missing pipelines are errors"),
                    ("C17.select/returns-all-built", "everything built is returned")):
        chk.ob(k_, True, "decided by the evaluated selection scenarios (%s)" % txt, where(comp), trivial=True)
    return True


def rule_select(chk, comp, bp):
    f = chk.facts
    loops = [l for l in F.for_loops(comp["thir"]) if l[2] is not None and any(c.get("fn") == bp["path"] for c in F.exprs(l[2], "Call"))]
    if not chk.anchor("C17.anchor/selection-loop", loops[0] if len(loops) == 1 else None, "for pipeline in &ir.pipelines { build_pipeline(..) }", where(comp)):
        return
    p, it, body, node = loops[0]
    its = F.strip(it)
    ok = its.get("k") == "Field" and its["name"] == "pipelines"
    chk.ob("C17.select/source-order", ok, "iterates ir.pipelines directly (source order)" if ok else
           "the selection loop no longer iterates `ir.pipelines` directly (filtered / reordered / truncated)", where(comp, node))
    lv = {i for i, n, pth in F.pat_binds(p)}
    # skip condition
    skips = [n for n in F.exprs(body, "If") if any(x.get("k") == "Continue" for x in F.walk(n["then"]))]
    ok_skip = False
    if len(skips) == 1:
        c = skips[0]["cond"]
        lets = [x for x in F.walk(c) if x.get("k") == "Let"]
        has_name = any(F.pat_variant(x["pat"]) == ("Option", "Some") and F.strip(x["e"]).get("k") == "Field" and F.strip(x["e"])["name"] == "pipeline_name" for x in lets)
        bound = {i for x in lets for i, n, pth in F.pat_binds(x["pat"])}
        ne = []
        for x in F.walk(c):
            if (x.get("k") == "Binary" and x.get("op") == "Ne") or (x.get("k") == "Call" and short(x.get("fn") or "") == "ne"):
                args = x["args"] if x.get("k") == "Call" else [x["l"], x["r"]]
                a, b = F.leftmost_var(args[0]), F.leftmost_var(args[1])
                names = [y.get("name") for y in F.exprs(args[0], "Field")]
                if a and b and a["id"] in lv and b["id"] in bound and "name" in names:
                    ne.append(x)
        ok_skip = has_name and len(ne) == 1 and not any(x.get("k") == "Logical" and x.get("op") == "Or" for x in F.walk(c))
    if not ok_skip:
        # the same decision written differently: evaluate the loop body for (requested name, pipeline name) and see whether
        # build_pipeline is reached
        import interp as I
        args_ids = [q.get("pat", {}).get("id") for q in comp["params"] if "CompileArgs" in q.get("ty", "")]
        if args_ids and lv:
            res = []
            readable = True
            for req, pname in ((None, "P"), ("P", "P"), ("Q", "P"), ("", "P")):
                called = []
                ipx = I.Interp(f, extern={bp["path"]: lambda a, called=called: (called.append(1), I.Enum("Result", "Ok", {"0": I.Opaque("compiled")}))[1],
                                          "Vec::<T, A>::push": lambda a: ()})
                env = {i: I.Enum("PipelineDefinition", None, {"name": I.Enum("Located", None, {"node": pname, "location": I.Opaque("loc")})}) for i in lv}
                env[args_ids[0]] = I.Enum("CompileArgs", None, {"pipeline_name": I.Enum("Option", "None") if req is None else I.Enum("Option", "Some", {"0": req}),
                                                                  "no_pipeline_mode": False})
                try:
                    ipx.ev(body, env)
                except I.ContinueEx:
                    pass
                except (I.Unknown, I.ReturnEx, I.BreakEx):
                    readable = False
                res.append(bool(called))
            ok_skip = readable and res == [True, True, False, False]
    chk.ob("C17.select/skip-iff-other-name", ok_skip, "a pipeline is skipped iff a name is requested and pipeline.name != name" if ok_skip else
           "the selection loop's skip condition is no longer `Some(name) = pipeline_name && pipeline.name != name`", where(comp, node))
    # the pipeline passed is the loop's
    calls = [c for c in F.exprs(body, "Call") if c.get("fn") == bp["path"]]
    ok_arg = False
    for c in calls:
        sel = F.adt_ctor(c["args"][4])
        v = F.leftmost_var(sel[2]["0"]) if sel and sel[1] == "Some" else None
        ok_arg = v is not None and v["id"] in lv
    chk.ob("C17.select/passes-loop-pipeline", ok_arg, "build_pipeline(.., Some(pipeline), ..) with the loop's pipeline" if ok_arg else
           "build_pipeline is not called with Some(<the loop's pipeline>)", where(comp, node))
    # no-pipeline mode: exactly one call with None outside the loop
    outside = [c for c in F.exprs(comp["thir"], "Call") if c.get("fn") == bp["path"] and not any(x is c for x in F.walk(body))]
    ok_np = len(outside) == 1 and (F.adt_ctor(outside[0]["args"][4]) or (0, 0))[1] == "None"
    guard_np = False
    for n in F.exprs(comp["thir"], "If"):
        c = F.strip(n["cond"])
        if c.get("k") == "Field" and c["name"] == "no_pipeline_mode":
            guard_np = any(x is outside[0] for x in F.walk(n["then"])) if outside else False
            guard_np = guard_np and any(x is node for x in F.walk(n.get("else", {})))
    chk.ob("C17.select/no-pipeline-mode", ok_np and guard_np, "no_pipeline_mode builds exactly once with None, otherwise the loop runs" if ok_np and guard_np else
           "no-pipeline mode no longer builds exactly one result with `None` in place of the loop", where(comp))
    # errors
    cfg = M.Cfg(comp)
    is_empty = M.is_call_result("is_empty")
    errs = []
    for i, b in enumerate(cfg.blocks):
        for s in b["s"]:
            if s.get("r") == "Agg" and short(s.get("adt", "")) == "CompileError" and s.get("variant") == "Text":
                errs.append((i, s.get("ln")))
    guarded = [i for i, ln in errs if M.dominated_by_guard(cfg, i, is_empty, want=True)[0]]
    chk.ob("C17.select/missing-pipeline-errors", len(guarded) >= 2, "%d error returns are guarded by output_pipelines.is_empty()" % len(guarded) if len(guarded) >= 2 else
           "the 'does not contain the pipeline' / 'does not contain a single pipeline' errors under is_empty() are gone (%d found)" % len(guarded), where(comp))
    lits = {l.get("v") for l in F.exprs(comp["thir"], "Lit") if l.get("t") == "str"}
    from facts import fmt_template
    # Ok(output_pipelines): the vector the loop pushes into
    pushes = [c for c in F.exprs(body, "Call") if (c.get("fn") or "").endswith("Vec::<T, A>::push")]
    okv = False
    if pushes:
        pv = F.leftmost_var(pushes[0]["args"][0])
        t = F.adt_ctor(F.tail(comp["thir"]))
        rv = F.leftmost_var(t[2]["0"]) if t and t[1] == "Ok" else None
        okv = pv is not None and rv is not None and pv["id"] == rv["id"]
    chk.ob("C17.select/returns-all-built", okv, "Ok(<the vector the loop pushed into>)" if okv else "compile no longer returns the vector of pipelines it built", where(comp))


def rule_isolate(chk, bp, shape=True):
    """The shape rules about build_pipeline (which variable each step is applied to, where the reported state and stages
    come from) are the fallback of C17.build/* (build_pipeline read as a table: the exporter is handed the module that went
    through select and bind, state and stages are the selected pipeline's)."""
    params = bp["params"]
    if not shape:
        for k in ("isolate/shared-module-only-cloned", "isolate/select_pipeline-on-clone", "isolate/assign_api_bindings-on-clone", "isolate/export_to_hlsl-on-clone", "isolate/export_to_msl-on-clone",
                  "meta/graphics-state", "meta/stages"):
            chk.ob("C17." + k, True, "decided by C17.build/* (build_pipeline read as a table)", where(bp), trivial=True)
        rule_selected_only(chk)
        return
    pid = None
    for p in params:
        if "ir_module::Module" in p["ty"] and p.get("pat", {}).get("k") == "Bind":
            pid = p["pat"]["id"]
    if not chk.anchor("C17.anchor/module-param", pid, "build_pipeline's &ir::Module parameter", where(bp)):
        return
    uses = [v for v in F.exprs(bp["thir"], "Var") if v["id"] == pid]
    clone_args = set()
    for c in F.exprs(bp["thir"], "Call"):
        if short(c.get("fn") or "") == "clone" and c.get("args"):
            for v in F.exprs(c["args"][0], "Var"):
                if v["id"] == pid:
                    clone_args.add(id(v))
    other = [v for v in uses if id(v) not in clone_args]
    chk.ob("C17.isolate/shared-module-only-cloned", bool(uses) and not other,
           "the shared module is only cloned (%d use)" % len(uses) if uses and not other else
           "build_pipeline uses the shared &ir::Module other than by cloning it (lines %s): per-pipeline processing can leak into other pipelines"
           % sorted({v.get("ln") for v in other}), where(bp))
    # select_pipeline / assign_api_bindings / exporters on the clone chain
    clone_vars = set()
    for s in F.walk(bp["thir"]):
        if s.get("k") == "LetStmt" and "init" in s and s["pat"].get("k") == "Bind":
            if any(short(c.get("fn") or "") == "clone" and any(v["id"] == pid for v in F.exprs(c, "Var")) for c in F.exprs(s["init"], "Call")):
                clone_vars.add(s["pat"]["id"])
    grew = True
    while grew:          # values derived from the clone (`let ir = ir.select_pipeline(..)`, `let ir = ir.assign_api_bindings(..)`)
        grew = False
        for s in F.walk(bp["thir"]):
            if s.get("k") == "LetStmt" and "init" in s and s["pat"].get("k") == "Bind" and s["pat"]["id"] not in clone_vars:
                vs = {v["id"] for v in F.exprs(s["init"], "Var")}
                if vs & clone_vars and pid not in vs and "Module" in s["pat"].get("ty", ""):
                    clone_vars.add(s["pat"]["id"])
                    grew = True
    for name in ("select_pipeline", "assign_api_bindings", "export_to_hlsl", "export_to_msl"):
        cs = [c for c in F.exprs(bp["thir"], "Call") if short(c.get("fn") or "") == name]
        ok = bool(cs)
        for c in cs:
            v = F.leftmost_var(c["args"][0])
            ok = ok and v is not None and v["id"] != pid and v["id"] in clone_vars
        chk.ob("C17.isolate/%s-on-clone" % name, ok, "%s runs on the per-pipeline clone" % name if ok else
               "%s is not applied to the per-pipeline clone" % name, where(bp))
    rule_selected_only(chk)
    # metadata from the selected pipeline
    sel = None
    for p in params:
        if "PipelineDefinition" in p["ty"] and p.get("pat", {}).get("k") == "Bind":
            sel = p["pat"]["id"]
    ok_gps = False
    for s in F.walk(bp["thir"]):
        if s.get("k") == "LetStmt" and s["pat"].get("k") == "Bind" and "init" in s and "GraphicsPipelineState" in s["pat"].get("ty", ""):
            flds = [x for x in F.exprs(s["init"], "Field") if x["name"] == "graphics_pipeline_state"]
            lets = [x for x in F.walk(s["init"]) if x.get("k") == "Let"]
            srcs = {F.leftmost_var(x["e"])["id"] for x in lets if F.leftmost_var(x["e"])}
            ok_gps = bool(flds) and sel in srcs
    chk.ob("C17.meta/graphics-state", ok_gps, "graphics_pipeline_state copied from the selected pipeline" if ok_gps else
           "graphics_pipeline_state is not taken from the selected PipelineDefinition", where(bp))
    n_stage_loops = 0
    for (p, it, body, node) in F.for_loops(bp["thir"]):
        its = F.strip(it)
        if its.get("k") == "Field" and its["name"] == "stages":
            n_stage_loops += 1
    # or as an iterator chain: `pipeline.stages.iter().map(|stage| CompiledPipelineStage {..}).collect()`
    for c in F.exprs(bp["thir"], "Call"):
        if short(c.get("fn") or "") in ("map", "for_each") and c.get("args") and F.strip(c["args"][-1]).get("k") == "Closure":
            recv = c["args"][0]
            if any(x.get("k") == "Field" and x.get("name") == "stages" for x in F.walk(recv)) and \
                    not any(short(x.get("fn") or "") in ("skip", "take", "rev", "filter", "step_by") for x in F.exprs(recv, "Call")):
                cb = chk.facts.bodies.get(F.strip(c["args"][-1]).get("path"))
                if cb and any(short(a["adt"]) == "CompiledPipelineStage" for a in F.exprs(cb["thir"], "Adt")):
                    n_stage_loops += 1
    chk.ob("C17.meta/stages", n_stage_loops >= 2, "stages iterate the selected pipeline's stages (%d exporter arms)" % n_stage_loops if n_stage_loops >= 2 else
           "reported stages are no longer built from `pipeline.stages` in both exporter arms", where(bp))


def rule_dup(chk):
    f = chk.facts
    pp = chk.anchor("C17.anchor/parse_pipeline", f.fn("parse_pipeline", "rssl_typer"), "typer parse_pipeline")
    if not pp:
        return
    cfg = M.Cfg(pp)
    pushes = [(bb, t) for bb, t in cfg.calls("Vec::<T, A>::push") if "PipelineDefinition" in str(t["f"])]
    chk.ob("C17.dup/site", bool(pushes), "module.pipelines.push site", where(pp), trivial=True)
    # a guard: result of an `any` / `contains` / name comparison over the existing pipelines, false edge dominates the push
    def is_dup_test(src):
        if src[0] == "call" and short(src[1] or "") in ("any", "contains", "is_some", "position"):
            return True
        return False
    for bb, t in pushes:
        ok_f, n = M.dominated_by_guard(cfg, bb, is_dup_test, want=False)
        # the test must look at the existing pipelines' names
        names_compared = False
        for c in F.exprs(pp["thir"], "Call"):
            if short(c.get("fn") or "") in ("any", "position", "find"):
                if any(x.get("name") == "pipelines" for x in F.exprs(c["args"][0], "Field")):
                    for cl in F.exprs(c, "Closure"):
                        cb = f.bodies.get(cl["path"])
                        if cb and any(x.get("name") == "name" for x in F.exprs(cb["thir"], "Field")):
                            names_compared = True
        ok = ok_f and names_compared
        chk.ob("C17.dup/unique-names", ok, "a pipeline is registered only if no earlier pipeline has the same name" if ok else
               "pipelines are registered without a duplicate-name check: two pipelines with one name make "
               "Module::select_pipeline's assert / compile's `Multiple pipelines` panic reachable", where(pp, t.get("ln")))


def rule_selected_only(chk):
    """The per-pipeline clone still lists every pipeline of the file; an exporter may only look at the selected one:
    every read of Module::pipelines in rssl_hlsl / rssl_msl is `pipelines[<variable>]` (never an iteration, never a
    constant index), so what is emitted for one pipeline cannot depend on which other pipelines are declared."""
    f = chk.facts
    n = 0
    for crate in ("rssl_hlsl", "rssl_msl"):
        for b in f.crates[crate]["bodies"]:
            if "thir" not in b:
                continue
            par = {}
            for x in F.walk(b["thir"]):
                for c in F.children(x):
                    if isinstance(c, dict):
                        par[id(c)] = x
            owner = short(b.get("parent") or b["path"])
            k = 0
            for x in F.walk(b["thir"]):
                if not (x.get("k") == "Field" and x.get("name") == "pipelines" and "ir_module::Module" in x.get("of", "")):
                    continue
                y = par.get(id(x))
                while y is not None and y.get("k") in ("Borrow", "Deref", "Coerce"):
                    y = par.get(id(y))
                ok = False
                how = "used as a whole"
                if y is not None and y.get("k") == "Call" and short(y.get("fn") or "") in ("index", "index_mut") and len(y.get("args", [])) > 1:
                    ix = F.strip(y["args"][1])
                    ok = ix.get("k") == "Var"
                    how = "indexed by %s" % ("a variable" if ok else "a constant / computed index")
                elif y is not None and y.get("k") == "Index":
                    ix = F.strip(y["i"])
                    ok = ix.get("k") == "Var"
                    how = "indexed by %s" % ("a variable" if ok else "a constant / computed index")
                elif y is not None and y.get("k") == "Call":
                    how = "passed to %s" % short(y.get("fn") or "?")
                n += 1
                chk.ob("C17.isolate/selected-only/%s/%s#%d" % (crate.replace("rssl_", ""), owner, k), ok,
                       "module.pipelines[<selected>]" if ok else
                       "%s reads module.pipelines %s: every pipeline declared in the file (not only the selected one) influences what is emitted for this pipeline" % (owner, how),
                       where(b, x))
                k += 1
    chk.floor("C17.floor/pipelines-reads", n, 5, "reads of Module::pipelines in the exporters", "rssl_hlsl / rssl_msl")
