"""C12 — macro expansion and inclusion equal reference textual substitution (necessary structural conditions)."""
import facts as F
import mirs as M
from facts import short, where

EXPLANATION = (
    "Equality with a reference substitution over all macro programs is a property of the rescanning algorithm and is "
    "not decided. Decided necessary conditions: C12.redef — #define removes every macro with the same name "
    "(macros.retain(name !=)) before pushing the new one, #undef retains by name; lookup compares the identifier with "
    "the macro name over the live list. C12.term — the recursive rescan is bracketed by the disable flag and disabled "
    "macros are skipped (shared with C08.macro). C12.args — split_macro_args: '(' and ')' adjust the nesting depth, a "
    "comma splits only at depth 0, the closing ')' at depth 0 ends the list; the argument-count test precedes "
    "substitution; the body substitution replaces MacroArg(i) by args[i] and copies every other token; Macro::parse maps "
    "a parameter name to MacroArg(its index) and ## to Concat. C12.once — FileLoader::load returns empty contents "
    "exactly when the file id is in pragma_once_files, and #pragma once marks the id of the file being processed. "
    "C12.include — #include processes the loaded file with the including file's buffer, macro list and condition chain. "
    "C12.defines — initial defines are turned into object-like macros with the same name before the entry file is "
    "processed. Known and not decidable here: `##` touching a command-line define aborts in unlex (the define has no "
    "source location), see the property text."
)
ASSUMPTIONS = ["rustc THIR/MIR is a faithful view of the source"]
PP = "rssl_preprocess"


def run(chk):
    f = chk.facts
    pc = chk.anchor("C12.anchor/preprocess_command", f.fn("preprocess_command", PP), "preprocess_command")
    if pc:
        rule_redef(chk, pc)
        rule_include(chk, pc)
    expanded = rule_expand_eval(chk)
    rule_args(chk, shape=not expanded)
    rule_paste_eval(chk)
    rule_once(chk, rule_loader_eval(chk))
    rule_defines(chk)
    import c08
    c08.rule_macro.__globals__["__name__"]
    # C12.term shares the checks of C08.macro under its own keys
    class Proxy:
        def __init__(self, chk):
            self.chk = chk
            self.facts = chk.facts
        def anchor(self, key, obj, what, where=None):
            return self.chk.anchor(key.replace("C08.", "C12.term-"), obj, what, where)
        def ob(self, key, ok, why="", where=None, trivial=False, sample=None):
            return self.chk.ob(key.replace("C08.macro/", "C12.term/").replace("C08.", "C12."), ok, why, where, trivial, sample)
        def floor(self, key, count, floor, what, where=None):
            return self.chk.floor(key.replace("C08.", "C12."), count, floor, what, where)
        def unreadable(self, key, what, reason, where=None):
            return self.chk.unreadable(key.replace("C08.macro/", "C12.term/").replace("C08.", "C12."), what, reason, where)
        def note(self, t):
            self.chk.note(t)
        @property
        def tier(self):
            return self.chk.tier
    if not expanded:
        c08.rule_macro(Proxy(chk), evaluate=False)      # (the shape rules about the disabled set: only when apply_macros is not readable as a table)


def closure_compares_name(f, call, neq=True):
    """The closure passed to retain/any compares `m.name` with something using != (or ==)."""
    for cl in F.exprs(call, "Closure"):
        cb = f.bodies.get(cl["path"])
        if not cb:
            continue
        for c in F.walk(cb["thir"]):
            is_cmp = (c.get("k") == "Binary" and c.get("op") == ("Ne" if neq else "Eq")) or \
                     (c.get("k") == "Call" and short(c.get("fn") or "") == ("ne" if neq else "eq"))
            if is_cmp and any(x.get("name") == "name" for x in F.exprs(c, "Field")):
                return True
    return False


def rule_lookup_by_name(chk, fsm):
    if fsm:
        ok = False
        for n in F.exprs(fsm["thir"], "If"):
            c = F.strip(n["cond"])
            # `if id == macro_def.name { .. use .. }` or `if id != macro_def.name { continue }`: the equal case is the one used
            is_cmp = (c.get("k") == "Binary" and c.get("op") in ("Eq", "Ne")) or (c.get("k") == "Call" and short(c.get("fn") or "") in ("eq", "ne"))
            if not (is_cmp and any(x.get("name") == "name" and "Macro" in x.get("of", "") for x in F.exprs(c, "Field"))):
                continue
            eq = (c.get("op") == "Eq") if c.get("k") == "Binary" else short(c.get("fn") or "") == "eq"
            uses = any(a.get("variant") == "User" for a in F.exprs(n["then"], "Adt"))
            skips = any(x.get("k") == "Continue" for x in F.walk(n["then"])) and not uses
            ok = ok or (eq and uses) or (not eq and skips)
        chk.ob("C12.redef/lookup-by-name", ok, "a macro is found by `id == macro_def.name`" if ok else "find_single_macro no longer compares the identifier with the macro name", where(fsm))


def rule_redef(chk, pc):
    f = chk.facts
    try:
        if rule_redef_eval(chk, pc):
            fsm = f.fn("find_single_macro", PP)
            rule_lookup_by_name(chk, fsm)
            return
    except Exception as e:
        chk.note("directive model not evaluated: %r" % (e,))
    retains = [c for c in F.exprs(pc["thir"], "Call") if short(c.get("fn") or "") == "retain"]
    pushes = [c for c in F.exprs(pc["thir"], "Call") if (c.get("fn") or "").endswith("Vec::<T, A>::push") and "Macro" in str(c.get("targs"))]
    chk.floor("C12.floor/retain-sites", len(retains), 2, "macros.retain sites (#define, #undef)", where(pc))
    ok_all = bool(retains) and all(closure_compares_name(f, c, neq=True) for c in retains)
    chk.ob("C12.redef/retain-by-name", ok_all, "retain(|m| m.name != <name>) in #define and #undef" if ok_all else
           "a macros.retain no longer keeps exactly the macros whose name differs", where(pc))
    ok_order = False
    if pushes and retains:
        pl = pushes[0].get("ln") or 0
        before = [c for c in retains if (c.get("ln") or 0) < pl]
        # the retain that precedes the push uses the new definition's name
        ok_order = bool(before)
    chk.ob("C12.redef/remove-before-push", ok_order, "#define removes the previous definition before pushing the new one" if ok_order else
           "#define no longer removes an existing macro of the same name before pushing (both definitions would be live)", where(pc))
    rule_lookup_by_name(chk, f.fn("find_single_macro", PP))


def rule_include(chk, pc):
    f = chk.facts
    calls = [c for c in F.exprs(pc["thir"], "Call") if short(c.get("fn") or "") == "preprocess_included_file"]
    params = {p["pat"]["name"]: p["pat"]["id"] for p in pc["params"] if p.get("pat", {}).get("k") == "Bind"}
    ok = False
    for c in calls:
        a = c["args"]
        ids = [(F.leftmost_var(x) or {}).get("id") for x in a]
        ok = len(a) >= 5 and ids[0] == params.get("buffer") and ids[1] == params.get("file_loader") and \
            ids[3] == params.get("macros") and ids[4] == params.get("condition_chain")
    chk.ob("C12.include/shared-state", ok, "#include continues with the including file's buffer, macros and condition chain" if ok else
           "the included file is not processed with the including file's buffer / macro list / condition chain", where(pc))
    loads = [c for c in F.exprs(pc["thir"], "Call") if short(c.get("fn") or "") == "load" and "FileLoader" in (c.get("fn") or "")]
    ok2 = False
    for c in loads:
        par = F.adt_ctor(c["args"][2]) if len(c["args"]) > 2 else None
        v = F.leftmost_var(par[2]["0"]) if par and par[1] == "Some" else None
        ok2 = v is not None and v["id"] == params.get("file_id")
    chk.ob("C12.include/relative-to-current", ok2, "the include is resolved relative to the current file" if ok2 else
           "FileLoader::load is no longer given the including file's id as parent", where(pc))


def rule_args(chk, shape=True):
    """The shape rules about split_macro_args and the body substitution are the fallback of the expansion table
    (C12.expand/*, whose inputs nest parentheses and commas in arguments): they decide only when apply_macros is not
    readable as a table."""
    f = chk.facts
    sm = chk.anchor("C12.anchor/split_macro_args", f.fn("split_macro_args", PP), "split_macro_args")
    if not shape:
        for k in ("open-paren", "close-paren", "comma-at-depth-0", "substitution"):
            chk.ob("C12.args/" + k, True, "decided by the evaluated apply_macros (C12.expand/*)", where(sm) if sm else PP, trivial=True)
    if sm and shape:
        m = None
        for mm in F.exprs(sm["thir"], "Match"):
            vs = {pv[1] for arm in mm["arms"] for alt in F.pat_alternatives(arm["pat"]) for p in F.walk(alt) if p.get("k") == "Variant" for pv in [F.pat_variant(p)] if pv and pv[0] == "Token"}
            if {"Comma", "LeftParen", "RightParen"} <= vs:
                m = mm
        if chk.anchor("C12.anchor/args-match", m, "match over Comma / LeftParen / RightParen", where(sm)):
            info = {}
            for arm in m["arms"]:
                toks = [F.pat_variant(p)[1] for p in F.walk(arm["pat"]) if p.get("k") == "Variant" and F.pat_variant(p) and F.pat_variant(p)[0] == "Token"]
                if not toks:
                    continue
                tk = toks[0]
                b = arm["body"]
                ifs = [n for n in F.exprs(b, "If")]
                ops = [(a["op"], F.lit(a["r"]), (F.leftmost_var(a["l"]) or {}).get("id")) for a in F.exprs(b, "AssignOp") if F.strip(a["l"]).get("k") == "Var"]
                info[tk] = (ifs, ops, b)
            lp = info.get("LeftParen", (0, [], 0))[1]
            depth_var = lp[0][2] if len(lp) == 1 else None       # the nesting-depth counter is the variable '(' increments
            okl = len(lp) == 1 and lp[0][:2] in (("AddAssign", ("int", 1)), ("Add", ("int", 1)))
            chk.ob("C12.args/open-paren", okl, "'(' increases the nesting depth" if okl else "'(' no longer increases brace_scope by 1", where(sm))
            rp = info.get("RightParen")
            okr = False
            if rp and rp[0]:
                c = F.strip(rp[0][0]["cond"])
                gt0 = c.get("k") == "Binary" and c["op"] == "Gt" and F.lit(c["r"]) == ("int", 0)
                dec = len(rp[1]) == 1 and rp[1][0][:2] in (("SubAssign", ("int", 1)), ("Sub", ("int", 1))) and rp[1][0][2] == depth_var
                gt0 = gt0 and (F.leftmost_var(c["l"]) or {}).get("id") == depth_var
                ends = any(x.get("k") == "Break" for x in F.walk(rp[0][0].get("else", {}))) and \
                    any(short(cc.get("fn") or "") == "push" for cc in F.exprs(rp[0][0].get("else", {}), "Call"))
                okr = gt0 and dec and ends
            chk.ob("C12.args/close-paren", okr, "')' closes a nested parenthesis at depth > 0 and ends the argument list at depth 0" if okr else
                   "')' handling changed: must decrement at depth > 0, otherwise push the last argument and stop", where(sm))
            cm = info.get("Comma")
            okc = False
            if cm and cm[0]:
                c = F.strip(cm[0][0]["cond"])
                eq0 = c.get("k") == "Binary" and c["op"] == "Eq" and F.lit(c["r"]) == ("int", 0) and (F.leftmost_var(c["l"]) or {}).get("id") == depth_var
                splits = any(short(cc.get("fn") or "") == "push" for cc in F.exprs(cm[0][0]["then"], "Call"))
                nosplit = not any(short(cc.get("fn") or "") == "push" for cc in F.exprs(cm[0][0].get("else", {}), "Call"))
                okc = eq0 and splits and nosplit
            chk.ob("C12.args/comma-at-depth-0", okc, "a comma separates arguments only at depth 0" if okc else
                   "a comma no longer splits arguments exactly when brace_scope == 0", where(sm))
    asm = f.fn("apply_single_macro", PP)
    if shape and chk.anchor("C12.anchor/apply_single_macro", asm, "apply_single_macro"):
        # body substitution: if let MacroArg(i) = token.0 { output.extend_from_slice(&args[i]) } else { output.push(token.clone()) }
        ok = False
        for body_fn in F.family(f, asm, depth=1):
            for br in F.branches(body_fn["thir"]):
                arg_arms = [(pt, bd) for pt, bd in br["arms"] if any(p.get("variant") == "MacroArg" for p in F.walk(pt) if isinstance(p, dict) and p.get("k") == "Variant")]
                other = [(pt, bd) for pt, bd in br["arms"] if F.pat_is_catchall(pt)]
                if len(arg_arms) != 1 or len(other) != 1 or len(br["arms"]) != 2:
                    continue
                bind = [i for i, nm, pth in F.pat_binds(arg_arms[0][0])]
                ext = [cc for cc in F.exprs(arg_arms[0][1], "Call") if short(cc.get("fn") or "") in ("extend_from_slice", "extend")]
                idx_ok = False
                for cc in ext:
                    for ix in list(F.exprs(cc, "Index")) + [x for x in F.exprs(cc, "Call") if short(x.get("fn") or "") == "index"]:
                        iv = F.leftmost_var(ix["i"] if ix.get("k") == "Index" else ix["args"][1])
                        av = F.leftmost_var(ix["e"] if ix.get("k") == "Index" else ix["args"][0])
                        if iv is not None and iv["id"] in bind and av is not None and "PreprocessToken" in av.get("ty", ""):
                            idx_ok = True
                push = [cc for cc in F.exprs(other[0][1], "Call") if short(cc.get("fn") or "") == "push"]
                clone_tok = any(short(x.get("fn") or "") == "clone" for cc in push for x in F.exprs(cc, "Call"))
                ok = ok or (idx_ok and bool(push) and clone_tok)
        chk.ob("C12.args/substitution", ok, "MacroArg(i) is replaced by args[i]; other tokens are copied" if ok else
               "the macro body substitution no longer replaces MacroArg(i) by args[i] and copies the remaining tokens unchanged", where(asm))
    mp = f.fn("parse", PP, self_ty="Macro")
    if mp and rule_macro_parse_eval(chk):
        chk.ob("C12.args/param-index", True, "decided by the evaluated Macro::parse (C12.args/define/*)", where(mp), trivial=True)
        chk.ob("C12.args/concat-token", True, "decided by the evaluated Macro::parse (C12.args/define/*)", where(mp), trivial=True)
    elif chk.anchor("C12.anchor/Macro::parse", mp, "Macro::parse"):
        ok_arg = ok_cat = False
        for cb in [mp] + f.closures_of(mp["path"]):
            for (p, it, body, node) in F.for_loops(cb["thir"]):
                its = F.strip(it)
                if its.get("k") == "Call" and short(its.get("fn") or "") == "enumerate" and body is not None:
                    binds = {pth: i for i, nm, pth in F.pat_binds(p)}
                    for a in F.exprs(body, "Adt"):
                        if short(a["adt"]) == "Token" and a.get("variant") == "MacroArg":
                            v = F.leftmost_var(a["fields"][0]["e"])
                            ok_arg = v is not None and binds.get(("0",)) == v["id"]
            # the same index obtained with `params.iter().position(|p| id == *p)`: MacroArg(<the Some(..) payload>)
            pos_binds = set()
            for mm in list(F.exprs(cb["thir"], "Match")) + [x for x in F.exprs(cb["thir"], "If") if F.strip(x["cond"]).get("k") == "Let"]:
                if mm.get("k") == "Match":
                    sc, pats = F.strip(mm["scrut"]), [a_["pat"] for a_ in mm["arms"]]
                else:
                    sc, pats = F.strip(F.strip(mm["cond"])["e"]), [F.strip(mm["cond"])["pat"]]
                if sc.get("k") == "Call" and short(sc.get("fn") or "") == "position":
                    for pt in pats:
                        if F.pat_variant(pt) == ("Option", "Some"):
                            pos_binds |= {i for i, nm, pth in F.pat_binds(pt)}
            for a in F.exprs(cb["thir"], "Adt"):
                if short(a["adt"]) == "Token" and a.get("variant") == "MacroArg" and pos_binds:
                    v = F.leftmost_var(a["fields"][0]["e"])
                    if v is not None and v["id"] in pos_binds:
                        ok_arg = True
            for a in F.exprs(cb["thir"], "Adt"):
                if short(a["adt"]) == "Token" and a.get("variant") == "Concat":
                    ok_cat = True
        chk.ob("C12.args/param-index", ok_arg, "a parameter name in the body becomes MacroArg(index of that parameter)" if ok_arg else
               "Macro::parse no longer maps a parameter reference to MacroArg(<its position>)", where(mp))
        chk.ob("C12.args/concat-token", ok_cat, "## in a body becomes Token::Concat" if ok_cat else "## in a macro body is no longer turned into Concat", where(mp))

# ---- apply_macros read as a function of (macro definitions, token list), against textual substitution

def _tok(tok, I):
    LOC = I.Opaque("loc")
    simple = {" ": "Whitespace", "(": "LeftParen", ")": "RightParen", ",": "Comma", "+": "Plus", "*": "Asterix", ";": "Semicolon"}
    if tok in simple:
        t = I.Enum("Token", simple[tok])
    elif isinstance(tok, int):
        t = I.Enum("Token", "LiteralInt", {"0": tok})
    elif tok.startswith("$"):
        t = I.Enum("Token", "MacroArg", {"0": int(tok[1:])})
    else:
        t = I.Enum("Token", "Id", {"0": I.Enum("Identifier", None, {"0": tok})})
    return I.Enum("PreprocessToken", None, {"0": t, "1": LOC})


def _untok(t):
    k = t.fields["0"]
    simple = {"Whitespace": " ", "LeftParen": "(", "RightParen": ")", "Comma": ",", "Plus": "+", "Asterix": "*", "Semicolon": ";"}
    if k.variant in simple:
        return simple[k.variant]
    if k.variant == "Id":
        return k.fields["0"].fields["0"]
    if k.variant == "MacroArg":
        return "$%d" % k.fields["0"]
    return k.fields.get("0")


class _MacroError(Exception):
    pass


def ref_expand(tokens, macros, disabled=frozenset()):
    """Textual substitution: object-like and function-like macros, arguments split at top-level commas and fully
    expanded before they are substituted, the replacement rescanned with the macro itself switched off, a
    function-like name without an argument list left alone. macros: {name: (n_params or None, body)}"""
    out = []
    i = 0
    while i < len(tokens):
        t = tokens[i]
        m = macros.get(t) if isinstance(t, str) and t not in disabled else None
        if m is None:
            out.append(t)
            i += 1
            continue
        nparams, body = m
        j = i + 1
        args = []
        if nparams is not None:
            k = j
            while k < len(tokens) and tokens[k] == " ":
                k += 1
            if k >= len(tokens) or tokens[k] != "(":
                out.append(t)
                i += 1
                continue
            depth, cur, k = 0, [], k + 1
            while True:
                if k >= len(tokens):
                    raise _MacroError("arguments never end")
                x = tokens[k]
                if x == "(":
                    depth += 1
                elif x == ")":
                    if depth == 0:
                        args.append(cur)
                        break
                    depth -= 1
                elif x == "," and depth == 0:
                    args.append(cur)
                    cur = []
                    k += 1
                    continue
                cur.append(x)
                k += 1
            j = k + 1
            strip = lambda a: [y for n_, y in enumerate(a) if not (y == " " and (all(z == " " for z in a[:n_ + 1]) or all(z == " " for z in a[n_:])))]
            args = [strip(a) for a in args]
            if nparams == 0:
                if not (len(args) == 1 and not args[0]):
                    raise _MacroError("argument count")
            elif len(args) != nparams:
                raise _MacroError("argument count")
            args = [ref_expand(a, macros, disabled) for a in args]       # a macro that is being expanded stays switched off inside the arguments
        rep = []
        for b in body:
            if isinstance(b, str) and b.startswith("$"):
                rep.extend(args[int(b[1:])])
            else:
                rep.append(b)
        rep = ref_expand(rep, macros, disabled | {t})
        # a function-like macro name that ends the replacement takes its arguments from the text that follows
        if rep and isinstance(rep[-1], str) and rep[-1] in macros and macros[rep[-1]][0] is not None and rep[-1] not in disabled and rep[-1] != t:
            k = j
            while k < len(tokens) and tokens[k] == " ":
                k += 1
            if k < len(tokens) and tokens[k] == "(":
                out.extend(rep[:-1])
                tokens = [rep[-1]] + list(tokens[j:])
                i = 0
                continue
        out.extend(rep)
        i = j
    return out


EXPAND_MACROS = {
    "obj": {"A": (None, [1]), "B": (None, ["A", "+", "A"]), "E": (None, [])},
    "chain": {"A": (None, ["B"]), "B": (None, ["C"]), "C": (None, [3])},
    "cycle": {"A": (None, ["B"]), "B": (None, ["A", "+", 1])},
    "self": {"A": (None, ["A", "+", 1])},
    "fn": {"F": (1, ["$0", "+", "$0"]), "G": (2, ["$1", "*", "$0"]), "Z": (0, [5]), "X": (None, [3])},
    "fnself": {"F": (1, ["F", "(", "$0", "+", 1, ")"])},
    "handoff": {"F": (None, ["G"]), "G": (1, ["(", "$0", ")"])},
    "nestdef": {"F": (1, ["G", "(", "$0", ",", "$0", ")"]), "G": (2, ["$0", "+", "$1"]), "X": (None, ["Y"]), "Y": (None, [2])},
    "argself": {"F": (1, ["$0"]), "A": (None, ["F", "(", "A", ")"])},
    "argcycle": {"F": (1, ["(", "$0", ")"]), "A": (None, ["F", "(", "B", ")"]), "B": (None, ["A", "+", 1])},
}
EXPAND_INPUTS = {
    "obj": [["A"], ["B", ";"], ["x", "A", "y"], ["E", "A", "E"], ["AA"], []],
    "chain": [["A"], ["A", "+", "B", "+", "C"]],
    "cycle": [["A"], ["B"], ["A", ",", "B"]],
    "self": [["A"], ["A", "A"]],
    "fn": [["F", "(", 2, ")"], ["F", " ", "(", 2, ")"], ["F"], ["F", ";"], ["F", "(", "X", ")"], ["F", "(", "F", "(", "X", ")", ")"], ["G", "(", "a", ",", "b", ")"],
           ["G", "(", "(", "a", ",", "b", ")", ",", "c", ")"], ["G", "(", " ", "a", " ", ",", " ", "b", " ", ")"], ["Z", "(", ")"], ["Z", "(", 1, ")"], ["F", "(", ")"],
           ["F", "(", 1, ",", 2, ")"], ["G", "(", 1, ")"], ["F", "(", 1], ["G", "(", "F", "(", 1, ")", ",", "Z", "(", ")", ")"], ["x", "F", "(", "y", ")", "z"],
           ["F", "(", "G", "(", 1, ",", 2, ")", ")"], ["F", "(", "(", 1, ")", ")"]],
    "fnself": [["F", "(", 1, ")"]],
    "handoff": [["F", "(", 7, ")"], ["F"], ["F", " ", "(", 7, ")"], ["F", ";", "(", 7, ")"]],
    "nestdef": [["F", "(", "X", ")"], ["F", "(", "G", "(", "X", ",", 1, ")", ")"]],
    "argself": [["A"], ["F", "(", "A", ")"], ["F", "(", "F", "(", 1, ")", ")"]],
    "argcycle": [["A"], ["B"], ["F", "(", "A", ")"]],
}


def rule_expand_eval(chk):
    """apply_macros walked by the finite-map reader on model token lists (ten macro sets, 45 inputs) against textual
    substitution written in the rule (ref_expand): same tokens, or an error exactly where the reference has one
    (argument count, unterminated argument list). True when readable."""
    import interp as I
    f = chk.facts
    am = f.fn("apply_macros", PP)
    if not am:
        return False
    ip = I.Interp(f, max_depth=40, extern={})
    ip.max_loop = 512
    n = 0
    for set_name, macros in EXPAND_MACROS.items():
        mdefs = [I.Enum("Macro", None, {"name": nm, "is_function": np_ is not None, "num_params": np_ or 0, "tokens": [_tok(x, I) for x in body], "location": I.Opaque("loc")})
                 for nm, (np_, body) in macros.items()]
        bad = None
        for toks in EXPAND_INPUTS[set_name]:
            n += 1
            try:
                want = ("ok", ref_expand(list(toks), macros))
            except _MacroError as e:
                want = ("err", str(e))
            try:
                r = ip.apply(am, [[_tok(x, I) for x in toks], mdefs, False, I.Opaque("source manager")])
            except I.Unknown as e:
                if "panicking" in str(e):
                    bad = bad or "expanding `%s` aborts (%s)" % (" ".join(map(str, toks)), str(e)[:60])
                    continue
                if isinstance(e, I.DepthExceeded):
                    # the reference needs at most four nested expansions for these inputs; the reader followed 40 nested calls
                    bad = bad or "with %s, expanding `%s` keeps re-entering the expander (40 nested calls and counting): the expansion of a self-referential macro does not terminate" % (
                        ", ".join("#define %s%s %s" % (k, "(%d)" % v[0] if v[0] is not None else "", " ".join(map(str, v[1]))) for k, v in macros.items()), " ".join(map(str, toks)))
                    continue
                chk.note("C12.expand: apply_macros is not readable (%s); the shape rules C12.args / C12.term decide" % str(e)[:80])
                return False
            if isinstance(r, I.Enum) and r.variant == "Ok":
                got = ("ok", [_untok(t) for t in r.fields["0"]])
            elif isinstance(r, I.Enum) and r.variant == "Err":
                got = ("err", getattr(r.fields.get("0"), "variant", "?"))
            else:
                chk.note("C12.expand: apply_macros result not readable; the shape rules C12.args / C12.term decide")
                return False
            if got[0] != want[0] or (got[0] == "ok" and got[1] != want[1]):
                show = lambda x: " ".join(map(str, x[1])) if x[0] == "ok" else "error (%s)" % x[1]
                bad = bad or "with %s, `%s` expands to `%s`; textual substitution gives `%s`" % (
                    ", ".join("#define %s%s %s" % (k, "(%d)" % v[0] if v[0] is not None else "", " ".join(map(str, v[1]))) for k, v in macros.items()),
                    " ".join(map(str, toks)), show(got), show(want))
        chk.ob("C12.expand/" + set_name, bad is None, "%d inputs expand as textual substitution does" % len(EXPAND_INPUTS[set_name]) if bad is None else bad, where(am),
               sample={"macros": set_name, "inputs": len(EXPAND_INPUTS[set_name])})
    chk.floor("C12.floor/expand-cases", n, 35, "token lists expanded", where(am))
    return True


def macro_parse_model(f):
    """Macro::parse evaluated on a few #define lines -> {line: (is_function, num_params, [token kinds]) | 'Err' | ('unreadable', why)}"""
    import interp as I
    mp = f.fn("parse", PP, self_ty="Macro")
    if not mp:
        return None, {}

    def tok(k, v=None):
        return I.Enum("PreprocessToken", None, {"0": I.Enum("Token", k, {} if v is None else {"0": v}), "1": I.Enum("PreprocessTokenData", None, {"x": 0})})
    idt = lambda s: tok("Id", I.Enum("Identifier", None, {"0": s}))
    W, LP, RP, CM, HH = tok("Whitespace"), tok("LeftParen"), tok("RightParen"), tok("Comma"), tok("HashHash")
    lines = {
        "F(x) x": [idt("F"), LP, idt("x"), RP, W, idt("x")],
        "F (x) x": [idt("F"), W, LP, idt("x"), RP, W, idt("x")],
        "F/**/(x) x": [idt("F"), tok("Comment"), LP, idt("x"), RP, W, idt("x")],
        "F(a,b) a##b": [idt("F"), LP, idt("a"), CM, idt("b"), RP, W, idt("a"), HH, idt("b")],
        "F(a, b) b a a": [idt("F"), LP, idt("a"), CM, W, idt("b"), RP, W, idt("b"), W, idt("a"), W, idt("a")],
        "N 7": [idt("N"), W, tok("LiteralInt", 7)],
        "F() 1": [idt("F"), LP, RP, W, tok("LiteralInt", 1)],
        "X a##b": [idt("X"), W, idt("a"), HH, idt("b")],
        "  F(x) x": [W, idt("F"), LP, idt("x"), RP, W, idt("x")],
        "F(x": [idt("F"), LP, idt("x")],
        "(x)": [LP, idt("x"), RP],
        # layout inside the parameter list (spaces, comments, line splices) is not significant
        "F(a , b) b a": [idt("F"), LP, idt("a"), W, CM, W, idt("b"), RP, W, idt("b"), W, idt("a")],
        "F( a/**/,/**/b ) b a": [idt("F"), LP, W, idt("a"), tok("Comment"), CM, tok("Comment"), idt("b"), W, RP, W, idt("b"), W, idt("a")],
        "F(a\\n,b) b a": [idt("F"), LP, idt("a"), tok("PhysicalEndline"), CM, idt("b"), RP, W, idt("b"), W, idt("a")],
        "F( x ) x": [idt("F"), LP, W, idt("x"), W, RP, W, idt("x")],
        "F( ) 1": [idt("F"), LP, W, RP, W, tok("LiteralInt", 1)],
        "F(a,,b) a": [idt("F"), LP, idt("a"), CM, CM, idt("b"), RP, W, idt("a")],
        "F(a b) a": [idt("F"), LP, idt("a"), W, idt("b"), RP, W, idt("a")],
        "F(1) a": [idt("F"), LP, tok("LiteralInt", 1), RP, W, idt("a")],
    }
    out = {}
    for line, toks in lines.items():
        ip = I.Interp(f, max_depth=10, extern={"get_location": lambda a: I.Opaque("loc")})
        ip.max_loop = 200
        try:
            r = ip.apply(mp, [toks])
        except I.Unknown as e:
            out[line] = ("unreadable" if "panicking" not in str(e) else "aborts", str(e)[:100])
            continue
        if isinstance(r, I.Enum) and r.variant == "Err":
            out[line] = "Err"
        elif isinstance(r, I.Enum) and r.variant == "Ok" and isinstance(r.fields.get("0"), I.Enum):
            m = r.fields["0"]
            kinds = []
            for t_ in m.fields.get("tokens") or []:
                k = t_.fields["0"]
                p0 = k.fields.get("0")
                if isinstance(p0, I.Enum):
                    p0 = p0.fields.get("0")
                kinds.append(k.variant if k.variant in ("Whitespace", "LeftParen", "RightParen", "Concat", "HashHash", "Comma") else "%s:%s" % (k.variant, p0))
            out[line] = (m.fields.get("is_function"), m.fields.get("num_params"), kinds)
        else:
            out[line] = ("unreadable", repr(r)[:80])
    return mp, out


MACRO_REF = {
    "F(x) x": (True, 1, ["MacroArg:0"]),
    "F (x) x": (False, 0, ["LeftParen", "Id:x", "RightParen", "Whitespace", "Id:x"]),
    "F/**/(x) x": (False, 0, ["LeftParen", "Id:x", "RightParen", "Whitespace", "Id:x"]),
    "F(a,b) a##b": (True, 2, ["MacroArg:0", "Concat", "MacroArg:1"]),
    "F(a, b) b a a": (True, 2, ["MacroArg:1", "Whitespace", "MacroArg:0", "Whitespace", "MacroArg:0"]),
    "N 7": (False, 0, ["LiteralInt:7"]),
    "F() 1": (True, 0, ["LiteralInt:1"]),
    "X a##b": (False, 0, ["Id:a", "Concat", "Id:b"]),
    "  F(x) x": (True, 1, ["MacroArg:0"]),
    "F(x": "Err",
    "(x)": "Err",
    "F(a , b) b a": (True, 2, ["MacroArg:1", "Whitespace", "MacroArg:0"]),
    "F( a/**/,/**/b ) b a": (True, 2, ["MacroArg:1", "Whitespace", "MacroArg:0"]),
    "F(a\\n,b) b a": (True, 2, ["MacroArg:1", "Whitespace", "MacroArg:0"]),
    "F( x ) x": (True, 1, ["MacroArg:0"]),
    "F( ) 1": (True, 0, ["LiteralInt:1"]),
    "F(a,,b) a": "Err",
    "F(a b) a": "Err",
    "F(1) a": "Err",
}


def rule_macro_parse_eval(chk):
    """Macro::parse evaluated on #define lines: name, kind (function-like iff '(' follows the name directly), parameter
    count, body with every parameter reference replaced by MacroArg(<its position>) and ## by Concat. True if readable."""
    mp, tab = macro_parse_model(chk.facts)
    if not mp or any(isinstance(v, tuple) and v and v[0] == "unreadable" for v in tab.values()):
        return False
    for line, want in MACRO_REF.items():
        got = tab.get(line)
        chk.ob("C12.args/define/%s" % line.replace(" ", "_"), got == want, "#define %s -> %s" % (line, (got,)) if got == want else
               "`#define %s` is recorded as %s, must be %s (function-like?, parameter count, body)" % (line, (got,), (want,)), where(mp), sample={"define": line})
    return True


class DirectiveModel:
    """preprocess_command evaluated on one directive against a given state (macro list, condition chain): returns the
    result, the macro list and chain afterwards and the effects it asked for (file load, include, #pragma once mark,
    macro expansion of a condition, condition evaluation)."""

    def __init__(self, facts):
        import interp as I
        self.I = I
        self.f = facts
        self.pc = facts.fn("preprocess_command", PP)

    def tok(self, k, v=None):
        I = self.I
        return I.Enum("PreprocessToken", None, {"0": I.Enum("Token", k, {} if v is None else {"0": v}), "1": I.Enum("PreprocessTokenData", None, {"x": 0})})

    def ident(self, s):
        return self.tok("Id", self.I.Enum("Identifier", None, {"0": s}))

    def macro(self, name, body=(), is_function=False, num_params=0, from_api=False):
        # (a macro handed to compile() through the API has no source location: SourceLocation::UNKNOWN)
        return self.I.Enum("Macro", None, {"name": name, "is_function": is_function, "num_params": num_params, "tokens": list(body),
                                           "location": self.I.Enum("SourceLocation", None, {"0": 0xFFFFFFFF if from_api else 5})})

    def words(self, *ws):
        """a directive line from words: identifiers, ints, and the keywords if / else (own token kinds), separated by spaces"""
        out = []
        for w in ws:
            if out:
                out.append(self.tok("Whitespace"))
            if w == "if":
                out.append(self.tok("If"))
            elif w == "else":
                out.append(self.tok("Else"))
            elif isinstance(w, int):
                out.append(self.tok("LiteralInt", w))
            elif w.startswith('"'):
                out.append(self.tok("LiteralString", w.strip('"')))
            else:
                out.append(self.ident(w))
        return out

    def run(self, cmd, macros, chain, cond=True, included_leaves_open=False, include_depth=0):
        I = self.I
        eff = []

        def included(a):
            fl_ = [x.get() if isinstance(x, I.Ref) else x for x in a]
            fl_ = [x for x in fl_ if isinstance(x, I.Enum) and x.adt == "FileLoader"]
            eff.append(("included", fl_[0].fields.get("include_depth") if fl_ else None))
            if included_leaves_open:
                # the included file opens an #if and never closes it: the state is pushed onto whatever chain it was handed
                for x in a:
                    x = x.get() if isinstance(x, I.Ref) else x
                    if isinstance(x, I.Enum) and x.adt == "ConditionChain":
                        x.fields["0"].append(I.Enum("ConditionState", "Enabled"))
            return I.Enum("Result", "Ok", {"0": ()})
        ext = {"get_location": lambda a: I.Opaque("loc"),
               "::load": lambda a: (eff.append(("load", a[1])), I.Enum("Result", "Ok", {"0": I.Opaque("file")}))[1],
               "preprocess_included_file": included,
               "apply_macros": lambda a: (eff.append(("expand", a[2])), I.Enum("Result", "Ok", {"0": a[0]}))[1],
               "condition_parser::parse": lambda a: (eff.append(("eval",)), I.Enum("Result", "Ok", {"0": cond}))[1]}
        ip = I.Interp(self.f, max_depth=10, extern=ext)
        ip.max_loop = 200
        ch = I.Enum("ConditionChain", None, {"0": [I.Enum("ConditionState", s) for s in chain]})
        ms = list(macros)
        once = I.HSet()
        try:
            r = ip.apply(self.pc, [[], I.Enum("FileLoader", None, {"source_manager": I.Opaque("sm"), "include_depth": include_depth, "pragma_once_files": once}), cmd, I.Enum("FileId", None, {"0": 7}), ms, ch])
        except I.Unknown as e:
            return ("aborts" if "panicking" in str(e) else "unreadable", str(e)[:120])
        for x in once.items:
            # (the set of files marked #pragma once is real: whoever inserts into it, a method of the loader or the directive handler itself)
            eff.append(("once",) if isinstance(x, I.Enum) and x.fields.get("0") == 7 else ("once-for-another-file", repr(x)))
        res = r.variant if isinstance(r, I.Enum) else repr(r)
        if res == "Err" and isinstance(r.fields.get("0"), I.Enum):
            res = "Err(%s)" % r.fields["0"].variant
        self.last_num_params = {m.fields.get("name"): m.fields.get("num_params") for m in ms}
        self.last_ints = {m.fields.get("name"): [t_.fields["0"].fields.get("0") for t_ in m.fields["tokens"] if t_.fields["0"].variant == "LiteralInt"] for m in ms}
        return (res, [(m.fields["name"], m.fields["is_function"], [t_.fields["0"].variant for t_ in m.fields["tokens"]]) for m in ms],
                [s.variant for s in ch.fields["0"]], eff)


def rule_redef_eval(chk, pc):
    """#define / #undef evaluated on a macro list: a definition replaces every earlier macro of that name (whatever its
    kind) and is appended, other macros are untouched; #undef removes exactly the named macro; inside a skipped region
    neither has an effect. True when readable."""
    dm = DirectiveModel(chk.facts)
    X1, Y, XF = dm.macro("X", [dm.tok("LiteralInt", 1)]), dm.macro("Y", []), dm.macro("X", [dm.tok("LiteralInt", 9)], True, 1)
    cases = [
        ("define-new", dm.words("define", "Z", 5), [X1, Y], [], ("Ok", [("X", False, ["LiteralInt"]), ("Y", False, []), ("Z", False, ["LiteralInt"])], [], [])),
        ("define-replaces", dm.words("define", "X", 2, 3), [X1, Y], ["Enabled"], ("Ok", [("Y", False, []), ("X", False, ["LiteralInt", "Whitespace", "LiteralInt"])], ["Enabled"], [])),
        ("define-replaces-other-kind", dm.words("define", "X", 7), [XF, Y], [], ("Ok", [("Y", False, []), ("X", False, ["LiteralInt"])], [], [])),
        ("define-replaces-api-define", dm.words("define", "X", 7), [dm.macro("X", [dm.tok("LiteralInt", 1)], from_api=True), Y], [], ("Ok", [("Y", False, []), ("X", False, ["LiteralInt"])], [], [])),
        ("undef-api-define", dm.words("undef", "X"), [dm.macro("X", [dm.tok("LiteralInt", 1)], from_api=True), Y], [], ("Ok", [("Y", False, [])], [], [])),
        ("define-same-body-other-kind", dm.words("define", "X", 9), [XF, Y], [], ("Ok", [("Y", False, []), ("X", False, ["LiteralInt"])], [], [])),
        ("define-same-body-as-function", [dm.ident("define"), dm.tok("Whitespace"), dm.ident("X"), dm.tok("LeftParen"), dm.ident("a"), dm.tok("RightParen"), dm.tok("Whitespace"), dm.tok("LiteralInt", 1)],
         [X1, Y], [], ("Ok", [("Y", False, []), ("X", True, ["LiteralInt"])], [], [])),
        ("define-same-body-more-parameters", [dm.ident("define"), dm.tok("Whitespace"), dm.ident("X"), dm.tok("LeftParen"), dm.ident("a"), dm.tok("Comma"), dm.ident("b"), dm.tok("RightParen"),
                                              dm.tok("Whitespace"), dm.tok("LiteralInt", 9)], [XF, Y], [], ("Ok", [("Y", False, []), ("X", True, ["LiteralInt"])], [], [])),
        ("define-skipped", dm.words("define", "X", 2), [X1, Y], ["DisabledInner"], ("Ok", [("X", False, ["LiteralInt"]), ("Y", False, [])], ["DisabledInner"], [])),
        ("undef", dm.words("undef", "X"), [X1, Y], [], ("Ok", [("Y", False, [])], [], [])),
        ("undef-unknown", dm.words("undef", "Q"), [X1, Y], [], ("Ok", [("X", False, ["LiteralInt"]), ("Y", False, [])], [], [])),
        ("undef-skipped", dm.words("undef", "X"), [X1, Y], ["Enabled", "DisabledOuter"], ("Ok", [("X", False, ["LiteralInt"]), ("Y", False, [])], ["Enabled", "DisabledOuter"], [])),
    ]
    first = True
    for name, cmd, ms, chain, want in cases:
        got = dm.run(cmd, ms, chain)
        if first and got[0] == "unreadable":
            return False
        first = False
        if len(got) == 4 and isinstance(got[1], list) and len({m[0] for m in got[1]}) == len(got[1]):
            # (which position a redefined macro takes in the list is not observable while names are unique)
            got = (got[0], sorted(got[1]), got[2], got[3])
            want = (want[0], sorted(want[1]), want[2], want[3])
        if got == want and got[0] == "Ok":
            # the replacement lists themselves (the tuples above only carry token kinds): a definition that took effect
            # carries the numbers written on the directive, every other macro keeps its own
            ints = lambda toks: [t_.fields["0"].fields.get("0") for t_ in toks if t_.fields["0"].variant == "LiteralInt"]
            exp = {m.fields["name"]: ints(m.fields["tokens"]) for m in ms}
            live = all(c_ == "Enabled" for c_ in chain)
            target = [t_.fields["0"].fields["0"].fields["0"] for t_ in cmd if t_.fields["0"].variant == "Id"][1]
            if live and name.startswith("define"):
                exp[target] = ints(cmd)
            elif live and name.startswith("undef"):
                exp.pop(target, None)
            if dm.last_ints != exp:
                got = (got, "replacement lists %s" % sorted(dm.last_ints.items()))
                want = (want, "replacement lists %s" % sorted(exp.items()))
        if name == "define-same-body-more-parameters" and got == want and dm.last_num_params.get("X") != 2:
            got = (got, "the macro takes %s parameter(s)" % dm.last_num_params.get("X"))
            want = (want, "the macro takes 2 parameter(s)")
        chk.ob("C12.redef/model/%s" % name, got == want, "macro list afterwards: %s" % [m[0] for m in want[1]] if got == want else
               "directive `#%s` on macros %s in chain %s gives %s, must be %s" % (name, [m.fields["name"] for m in ms], chain, (got,), (want,)), where(pc), sample={"case": name})
    for k_ in ("C12.redef/retain-by-name", "C12.redef/remove-before-push"):
        chk.ob(k_, True, "decided by the evaluated #define / #undef (C12.redef/model/*)", where(pc), trivial=True)
    return True


PASTE_PAIRS = [("ab", "cd"), ("x", "1"), ("1", "2"), ("row", "_major"), ("column_", "major"), ("group", "shared"), ("sta", "tic"), ("con", "st"), ("ret", "urn"), ("fal", "se"), ("tr", "ue"),
               ("str", "uct"), ("i", "f"), ("+", "="), ("-", "-"), ("&", "&"), ("=", "="), ("1", "u"), ("1.", "5f"), ("<", "<"), ("a", "+"), ("(", ")")]


def rule_paste_eval(chk):
    """`##` read end to end: for pairs of token spellings (l, r), the text `l r` is cut into tokens by rssl's lexer
    (walked by the reader), the sequence l ## r is handed to apply_macros (walked too, with rssl's unlexer, source
    manager and lexer behind it), and the result is compared with the tokens the lexer gives for the text `lr`: one
    token of the same kind and value when `lr` is one token, an error otherwise."""
    import interp as I
    f = chk.facts
    tsnew = f.fn("new", PP, self_ty="TokenStream")
    rte = f.fn("read_to_end", PP, self_ty="TokenStream")
    smnew = f.fn("new", "rssl_text", self_ty="SourceManager")
    add = f.fn("add_file", "rssl_text")
    am = f.fn("apply_macros", PP)
    if not (tsnew and rte and smnew and add and am):
        return False
    ip = I.Interp(f, max_depth=36)
    ip.max_loop = 4096

    def lex(text):
        sm = ip.apply(smnew, [])
        ip.apply(add, [sm, I.Enum("FileName", None, {"0": "t"}), text])
        r = ip.apply(rte, [ip.apply(tsnew, [text, I.Enum("SourceLocation", None, {"0": 0})])])
        if not (isinstance(r, I.Enum) and r.variant == "Ok"):
            return sm, None
        return sm, [t for t in r.fields["0"] if t.fields["0"].variant not in ("Whitespace", "Endline")]

    def flat(t):
        k = t.fields["0"]
        p0 = k.fields.get("0")
        while isinstance(p0, I.Enum):
            p0 = p0.fields.get("0")
        return (k.variant, p0)
    bad = None
    n = 0
    for l, r_ in PASTE_PAIRS:
        try:
            sm, lt = lex("%s %s\n" % (l, r_))
            _sm2, ref = lex(l + r_ + "\n")
            if lt is None or len(lt) != 2:
                continue
            toks = [lt[0], I.Enum("PreprocessToken", None, {"0": I.Enum("Token", "Concat"), "1": lt[0].fields["1"]}), lt[1]]
            out = ip.apply(am, [toks, [], False, sm])
        except I.Unknown as e:
            if "panicking" in str(e):
                bad = bad or "`%s ## %s` aborts (%s)" % (l, r_, str(e)[:80])
                continue
            if "as_ptr_range" in str(e):
                continue        # (a lexer error path that compares slice addresses: not modelled, see C08.lexer)
            chk.note("C12.paste: apply_macros / the lexer is not readable on `%s ## %s` (%s); not decided by evaluation" % (l, r_, str(e)[:80]))
            return False
        n += 1
        got = [flat(t) for t in out.fields["0"]] if isinstance(out, I.Enum) and out.variant == "Ok" else "error"
        want = [flat(t) for t in ref] if ref is not None and len(ref) == 1 else "error"
        if got != want and not bad:
            bad = "`%s ## %s` gives %s; the text `%s%s` lexes to %s" % (l, r_, got, l, r_, want if want != "error" else "more than one token (the paste must be refused)")
    chk.ob("C12.paste/lexes-like-the-pasted-text", bad is None, bad or "%d pastes give the token of the pasted text (keywords, operators and literals included) or are refused" % n, where(am),
           sample={"pairs": n})
    chk.floor("C12.floor/paste-pairs", n, 18, "token pairs pasted", where(am))
    return True


def rule_loader_eval(chk):
    """FileLoader read as a state machine: load / mark_as_pragma_once are walked by the reader on a four-file include
    handler (a diamond: main includes a.h and b.h, both include common.h, which says #pragma once; a.h is included twice).
    The include handler is a stand-in that records what it is asked; the SourceManager is rssl's own, walked too."""
    import interp as I
    f = chk.facts
    ld = f.fn("load", PP, self_ty="FileLoader")
    mk = f.fn("mark_as_pragma_once", PP)
    smnew = f.fn("new", "rssl_text", self_ty="SourceManager")
    if not (ld and mk and smnew):
        return False
    opt = lambda v: I.Enum("Option", "None") if v is None else I.Enum("Option", "Some", {"0": v})
    fid = lambda i: I.Enum("FileId", None, {"0": i})
    FILES = {"main": "M", "a.h": "AAA", "b.h": "BB", "common.h": "CCCC"}
    asked = []

    def deref(v):
        return v.get() if isinstance(v, I.Ref) else v

    def handler(a):
        name, parent = deref(a[1]), deref(a[2])
        asked.append((name, parent))
        if name not in FILES:
            return I.Enum("Result", "Err", {"0": I.Enum("IncludeError", "FileNotFound")})
        return I.Enum("Result", "Ok", {"0": I.Enum("FileData", None, {"real_name": "real/" + name, "contents": FILES[name]})})
    ip = I.Interp(f, max_depth=8, extern={"IncludeHandler::load": handler})
    try:
        sm = ip.apply(smnew, [])
        fl = I.Enum("FileLoader", None, {"file_name_remap": I.HMap(), "pragma_once_files": I.HSet(), "source_manager": sm, "include_handler": I.Opaque("include handler")})

        def load(name, parent):
            r = ip.apply(ld, [fl, name, opt(None if parent is None else fid(parent))])
            if isinstance(r, I.Enum) and r.variant == "Ok":
                x = r.fields["0"]
                return (x.fields["file_id"].fields["0"], x.fields["contents"])
            return "Err"
        steps = []
        m = load("main", None)
        steps.append(("main", m))
        a = load("a.h", m[0])
        steps.append(("a.h from main", a))
        c1 = load("common.h", a[0])
        steps.append(("common.h from a.h", c1))
        ip.apply(mk, [fl, fid(c1[0])])
        b = load("b.h", m[0])
        steps.append(("b.h from main", b))
        c2 = load("common.h", b[0])
        steps.append(("common.h from b.h (after #pragma once)", c2))
        a2 = load("a.h", m[0])
        steps.append(("a.h from main again", a2))
        miss = load("nope.h", m[0])
        c3 = load("common.h", m[0])
        steps.append(("common.h from main (after a failed include)", c3))
    except (I.Unknown, TypeError, KeyError, IndexError, AttributeError) as e:
        if "panicking" in str(e):
            chk.ob("C12.loader/total", False, "FileLoader aborts on the diamond include model (%s)" % str(e)[:80], where(ld))
            return True
        chk.note("C12.loader: FileLoader::load is not readable (%s); the shape rules C12.once decide" % str(e)[:80])
        return False
    ids = {}
    bad_id = bad_txt = None
    for what, (i_, txt) in steps:
        nm = what.split()[0]
        if nm in ids and ids[nm] != i_ and not bad_id:
            bad_id = "%s: the file gets id %d, it was registered as id %d before - #pragma once is recorded per id, so the file can be pasted twice" % (what, i_, ids[nm])
        ids.setdefault(nm, i_)
    if len(set(ids.values())) != len(ids):
        bad_id = bad_id or "two different files share a file id: %s" % ids
    want = {"main": "M", "a.h from main": "AAA", "common.h from a.h": "CCCC", "b.h from main": "BB", "common.h from b.h (after #pragma once)": "", "a.h from main again": "AAA",
            "common.h from main (after a failed include)": ""}
    for what, (i_, txt) in steps:
        if txt != want[what] and not bad_txt:
            bad_txt = "%s contributes %r, must be %r" % (what, txt, want[what])
    names = [n_ for n_, _p in asked]
    dup = sorted({n_ for n_ in names if names.count(n_) > 1})
    parents = dict(asked)
    bad_par = None
    for n_, p_ in (("a.h", "real/main"), ("common.h", "real/a.h"), ("b.h", "real/main"), ("main", "")):
        if parents.get(n_) != p_:
            bad_par = "the include handler is asked for %s relative to %r, the including file is %r" % (n_, parents.get(n_), p_)
            break
    chk.ob("C12.loader/one-id-per-name", bad_id is None and not dup, bad_id or ("the include handler is asked for %s more than once" % dup if dup else "each file is loaded once and keeps its id"), where(ld))
    chk.ob("C12.loader/contents", bad_txt is None, bad_txt or "every include contributes the file's text; a #pragma once file contributes nothing the second time, from whichever file it is reached", where(ld))
    chk.ob("C12.loader/parent", bad_par is None, bad_par or "the handler is told the including file", where(ld))
    chk.ob("C12.loader/missing", miss == "Err", "a missing file is an error" if miss == "Err" else "including a file the handler does not have gives %r" % (miss,), where(ld))
    return True


def rule_once(chk, loader_evaluated=False):
    f = chk.facts
    ld = chk.anchor("C12.anchor/FileLoader::load", f.fn("load", PP, self_ty="FileLoader"), "FileLoader::load")
    if loader_evaluated:
        ld = None           # (the two shape rules about load are the fallback of C12.loader)
    if ld:
        ok = False
        for n in F.exprs(ld["thir"], "If"):
            c = F.strip(n["cond"])
            if c.get("k") == "Call" and short(c.get("fn") or "") == "contains" and any(x.get("name") == "pragma_once_files" for x in F.exprs(c, "Field")):
                then_new = any(short(cc.get("fn") or "") == "new" and "String" in (cc.get("fn") or "") for cc in F.exprs(n["then"], "Call"))
                else_contents = any(short(cc.get("fn") or "") == "get_contents" for cc in F.exprs(n.get("else", {}), "Call")) or \
                    any(v.get("name") == "contents" for v in F.exprs(n.get("else", {}), "Var"))
                idv = F.leftmost_var(c["args"][1])
                ok = then_new and else_contents and idv is not None
        chk.ob("C12.once/empty-iff-marked", ok, "a #pragma once file contributes empty contents on later loads, others their contents" if ok else
               "FileLoader::load no longer returns empty contents exactly for ids in pragma_once_files", where(ld))
    if ld:
        # one id per requested name: the file-id cache is looked up and filled under the requested file name itself, so a
        # file reached twice (from any including file) keeps the id under which #pragma once was recorded
        import thirflow as TF
        tr = TF.Tracer(f, max_depth=1)
        name_param = None
        for i_, p_ in enumerate(ld["params"]):
            if "str" in p_.get("ty", "") and p_.get("pat", {}).get("k") == "Bind":
                name_param = i_
                break
        keys = []
        def is_cache_access(c):
            return short(c.get("fn") or "") in ("get", "insert", "entry", "contains_key") and c.get("args") and "HashMap" in (c.get("fn") or "") and \
                "FileId" in (c["args"][0].get("ty", "") + F.strip(c["args"][0]).get("ty", ""))
        for args_, c in F.calls_through_wrappers(f, ld, is_cache_access):
            org = tr.trace(ld, args_[1], ())
            keys.append((short(c.get("fn") or ""), org))
        ok = name_param is not None and len(keys) >= 2 and all(o and all(x[0] == "param" and x[2] == name_param and not x[3] for x in o) for _, o in keys)
        chk.ob("C12.once/one-id-per-name", ok, "the file-id cache is read and written under the requested name (%d accesses)" % len(keys) if ok else
               "the file-id cache of FileLoader::load is keyed by %s instead of the requested file name: one file can be registered under two ids, and #pragma once (recorded per id) then lets it be pasted twice"
               % sorted({TF.describe(x) for _, o in keys for x in o} or {"?"}), where(ld), sample={"accesses": [k for k, _ in keys]})
    pc = f.fn("preprocess_command", PP)
    if pc:
        # #pragma once read through the directive handler on a loader whose set of marked files is real
        dm = DirectiveModel(f)
        got = dm.run(dm.words("pragma", "once"), [], [])
        if got[0] not in ("unreadable",):
            ok = got[0] == "Ok" and got[3] == [("once",)]
            chk.ob("C12.once/marks-current-file", ok, "#pragma once records the id of the file being processed" if ok else
                   "`#pragma once` in file 7: result %s, recorded %s; must record exactly file 7" % (got[0], got[3] if len(got) > 3 else got[1:]), where(pc))
            chk.ob("C12.once/mark-inserts", True, "decided with C12.once/marks-current-file", where(pc), trivial=True)
            return
    if pc:
        params = {p["pat"]["name"]: p["pat"]["id"] for p in pc["params"] if p.get("pat", {}).get("k") == "Bind"}
        ok = False
        for c in F.exprs(pc["thir"], "Call"):
            if short(c.get("fn") or "") == "mark_as_pragma_once":
                v = F.leftmost_var(c["args"][1])
                ok = v is not None and v["id"] == params.get("file_id")
        chk.ob("C12.once/marks-current-file", ok, "#pragma once marks the file being processed" if ok else "#pragma once no longer marks the current file id", where(pc))
    mk = f.fn("mark_as_pragma_once", PP)
    if mk:
        ok = any(short(c.get("fn") or "") == "insert" and any(x.get("name") == "pragma_once_files" for x in F.exprs(c, "Field")) for c in F.exprs(mk["thir"], "Call"))
        chk.ob("C12.once/mark-inserts", ok, "mark_as_pragma_once inserts into pragma_once_files" if ok else "mark_as_pragma_once no longer records the id", where(mk))


def initial_file_table(f):
    """preprocess_initial_file walked with a recording stand-in for the entry file (preprocess_included_file): ->
    {"macros": what the entry file is handed, per define list; "chains": the verdict for each chain the entry file leaves
    behind} or a string saying why it is not readable. The lexer is rssl's own, walked."""
    import interp as I
    cache = f.__dict__.setdefault("_initial_file_table", {})
    if "t" in cache:
        return cache["t"]
    pi = f.fn("preprocess_initial_file", PP)
    if not pi:
        cache["t"] = "preprocess_initial_file not found"
        return cache["t"]
    out = {"macros": {}, "chains": {}}
    define_lists = {"none": [], "one": [("A", "1")], "two": [("A", "1"), ("B", "x + 2")], "empty-value": [("FLAG", "")], "same-name-twice": [("A", "1"), ("A", "2")]}
    chains = {"balanced": [], "open, selected": ["Enabled"], "open, skipped": ["DisabledInner"], "open twice": ["Enabled", "DisabledOuter"], "open, done": ["DisabledOuter"]}

    def run(defines, leave):
        seen = {}

        def included(a):
            args_ = [x.get() if isinstance(x, I.Ref) else x for x in a]
            ms = [x for x in args_ if isinstance(x, list) and all(isinstance(y, I.Enum) and y.adt == "Macro" for y in x) and (x or True)]
            macro_lists = [x for x in args_ if isinstance(x, list) and x and all(isinstance(y, I.Enum) and y.adt == "Macro" for y in x)]
            seen["macros"] = [(m_.fields.get("name"), m_.fields.get("is_function"), m_.fields.get("num_params"),
                               [(t_.fields["0"].variant, t_.fields["0"].fields.get("0") if not isinstance(t_.fields["0"].fields.get("0"), I.Enum) else t_.fields["0"].fields["0"].fields.get("0")) for t_ in m_.fields.get("tokens", [])],
                               getattr(m_.fields.get("location"), "fields", {}).get("0")) for m_ in (macro_lists[0] if macro_lists else [])]
            for x in args_:
                if isinstance(x, I.Enum) and x.adt == "ConditionChain":
                    x.fields["0"].extend(I.Enum("ConditionState", s_) for s_ in leave)
            return I.Enum("Result", "Ok", {"0": ()})
        ip = I.Interp(f, max_depth=30, extern={"preprocess_included_file": included})
        ip.max_loop = 4096
        r = ip.apply(pi, [I.Opaque("input file"), I.Enum("FileLoader", None, {"source_manager": I.Opaque("sm")}), [(n_, v_) for n_, v_ in defines]])
        res = r.variant if isinstance(r, I.Enum) else repr(r)
        if res == "Err" and isinstance(r.fields.get("0"), I.Enum):
            res = "Err(%s)" % r.fields["0"].variant
        return res, seen.get("macros")
    try:
        for k, d in define_lists.items():
            out["macros"][k] = (d, run(d, []))
        for k, c in chains.items():
            out["chains"][k] = (c, run([], c)[0])
    except I.Unknown as e:
        cache["t"] = ("aborts: " if "panicking" in str(e) else "not readable: ") + str(e)[:100]
        return cache["t"]
    cache["t"] = out
    return out


def rule_defines_eval(chk):
    """Definitions supplied through the API: preprocess_initial_file walked on five define lists (initial_file_table). The
    entry file is processed with exactly one object-like macro per define, in order, named after it, holding the tokens
    of its value as rssl's own lexer cuts them, marked as having no source location. True when readable."""
    f = chk.facts
    pi = f.fn("preprocess_initial_file", PP)
    t = initial_file_table(f)
    if isinstance(t, str):
        if t.startswith("aborts"):
            chk.ob("C12.defines/model", False, "preprocess_initial_file %s" % t, where(pi) if pi else PP)
            return True
        chk.note("C12.defines: preprocess_initial_file is %s; the shape rules decide" % t)
        return False
    lexed = {"1": [("LiteralInt", 1)], "2": [("LiteralInt", 2)], "": [], "x + 2": [("Id", "x"), ("Whitespace", None), ("Plus", None), ("Whitespace", None), ("LiteralInt", 2)]}
    bad = None
    for k, (defines, (res, macros)) in t["macros"].items():
        want = [(n_, False, 0, lexed[v_], 0xFFFFFFFF) for n_, v_ in defines]
        if res != "Ok":
            bad = bad or "with the API defines %s the entry file is not processed (%s)" % (defines, res)
        elif (macros or []) != want:
            bad = bad or "with the API defines %s the entry file is processed with the macros %s; it must see %s (one object-like macro per define, in order, its value lexed, no source location)" % (defines, macros, want)
    chk.ob("C12.defines/model", bad is None, bad or "%d define lists: the entry file sees one object-like macro per define" % len(t["macros"]), where(pi), sample={"lists": len(t["macros"])})
    for k in ("all-defines", "object-like", "before-entry-file", "same-macro-list"):
        chk.ob("C12.defines/" + k, True, "decided by C12.defines/model", where(pi), trivial=True)
    return True


def rule_defines(chk):
    f = chk.facts
    if rule_defines_eval(chk):
        return
    pi = chk.anchor("C12.anchor/preprocess_initial_file", f.fn("preprocess_initial_file", PP), "preprocess_initial_file")
    if not pi:
        return
    loops = F.for_loops(pi["thir"])
    params = {p["pat"]["name"]: p["pat"]["id"] for p in pi["params"] if p.get("pat", {}).get("k") == "Bind"}
    ok_loop = ok_macro = False
    loop_ln = None
    for (p, it, body, node) in loops:
        v = F.leftmost_var(it)
        if v is not None and v["id"] == params.get("initial_defines") and body is not None:
            ok_loop = F.strip(it).get("k") == "Var"
            loop_ln = node.get("ln")
            binds = {pth: i for i, nm, pth in F.pat_binds(p)}
            for a in F.exprs(body, "Adt"):
                if short(a["adt"]) == "Macro":
                    fl = {x["f"]: x["e"] for x in a["fields"]}
                    nv = F.leftmost_var(fl.get("name", {}))
                    isf = F.lit(fl.get("is_function", {}))
                    npar = F.lit(fl.get("num_params", {}))
                    ok_macro = nv is not None and nv["id"] == binds.get(("0",)) and isf == ("bool", False) and npar == ("int", 0)
            pushes = [c for c in F.exprs(body, "Call") if short(c.get("fn") or "") == "push"]
            ok_macro = ok_macro and bool(pushes)
    chk.ob("C12.defines/all-defines", ok_loop, "every initial define is converted" if ok_loop else "not every initial define is turned into a macro", where(pi))
    chk.ob("C12.defines/object-like", ok_macro, "defines become object-like macros named after the define, lexed from its value" if ok_macro else
           "an initial define no longer becomes `Macro { name, is_function: false, num_params: 0, tokens: lex(value) }`", where(pi))
    inc = [c for c in F.exprs(pi["thir"], "Call") if short(c.get("fn") or "") == "preprocess_included_file"]
    ok_before = bool(inc) and loop_ln is not None and all((c.get("ln") or 0) > loop_ln for c in inc)
    chk.ob("C12.defines/before-entry-file", ok_before, "defines are installed before the first line of the entry file is processed" if ok_before else
           "initial defines are no longer installed before the entry file is processed", where(pi))
    # the macro list given to the entry file is the one the defines were pushed into
    ok_same = False
    for c in inc:
        mv = F.leftmost_var(c["args"][3]) if len(c["args"]) > 3 else None
        for (p, it, body, node) in loops:
            if body is None:
                continue
            for pc_ in F.exprs(body, "Call"):
                if short(pc_.get("fn") or "") == "push" and "Macro" in str(pc_.get("targs")):
                    pv = F.leftmost_var(pc_["args"][0])
                    ok_same = mv is not None and pv is not None and mv["id"] == pv["id"]
    chk.ob("C12.defines/same-macro-list", ok_same, "the entry file sees the macro list holding the defines" if ok_same else
           "the entry file is processed with a different macro list than the one the defines were pushed into", where(pi))
