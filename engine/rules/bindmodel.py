"""A finite model of an ir::Module for Module::assign_api_bindings: the allocator is evaluated by the finite-map reader
on modules with a handful of resources and compared with the allocation rule written down independently here
(per binding group a bump allocator in declaration order; N-element arrays take N slices; raw / structured buffers
take two slots per slice in the Metal argument-buffer layout; buffer addresses become 8-byte inline constants when
supported; static samplers take no slot unless asked to)."""
import interp as I


def tid(n):
    return I.Enum("TypeId", None, {"0": n})


def opt(v):
    return I.Enum("Option", "None") if v is None else I.Enum("Option", "Some", {"0": v})


TWO_SLOT = {"ByteAddressBuffer", "RWByteAddressBuffer", "BufferAddress", "RWBufferAddress", "StructuredBuffer", "RWStructuredBuffer"}
PAYLOAD = {"StructuredBuffer", "RWStructuredBuffer", "Buffer", "RWBuffer", "Texture2D", "RWTexture2D", "ConstantBuffer", "Texture3D", "TextureCube"}


class BindModel:
    def __init__(self, facts):
        self.facts = facts
        self.fn = facts.fn("assign_api_bindings", "rssl_ir")
        self.layers = {}
        self.kind = {}      # base type id -> ('object', name) | ('scalar',) ; arrays: ('array', elem, n); modifier: ('mod', inner)
        self.next = 1

    def _add(self, layer, kind):
        i = self.next
        self.next += 1
        self.layers[i] = layer
        self.kind[i] = kind
        return i

    def obj(self, name):
        fields = {"0": tid(999)} if name in PAYLOAD else {}
        return self._add(I.Enum("TypeLayer", "Object", {"0": I.Enum("ObjectType", name, fields)}), ("object", name))

    def scalar(self):
        return self._add(I.Enum("TypeLayer", "Scalar", {"0": I.Enum("ScalarType", "Float32")}), ("scalar",))

    def array(self, elem, n):
        return self._add(I.Enum("TypeLayer", "Array", {"0": tid(elem), "1": opt(n)}), ("array", elem, n))

    def mod(self, inner):
        return self._add(I.Enum("TypeLayer", "Modifier", {"0": I.Opaque("modifier"), "1": tid(inner)}), ("mod", inner))

    def strip(self, i):
        while self.kind[i][0] == "mod":
            i = self.kind[i][1]
        return i

    def externs(self):
        def n(t):
            v = t.fields.get("0") if isinstance(t, I.Enum) else None
            if v not in self.layers:
                raise I.Unknown("type id outside the model: %r" % (t,))
            return v

        def non_array(a):
            i = n(a[1])
            while self.kind[i][0] == "array":
                i = self.kind[i][1]
            return tid(i)
        # (TypeRegistry::is_buffer_address is walked, not answered: which types are addresses is part of what is read)
        return {"TypeRegistry::get_type_layer": lambda a: self.layers[n(a[1])], "TypeRegistry::remove_modifier": lambda a: tid(self.strip(n(a[1]))),
                "TypeRegistry::get_non_array_id": non_array}

    def module(self, decls, default_group):
        """decls: list of ('cbuffer', set|None) | ('global', type id, set|None, is_static_sampler)"""
        cbs, gls, roots = [], [], []
        for d in decls:
            if d[0] == "cbuffer":
                roots.append(I.Enum("RootDefinition", "ConstantBuffer", {"0": I.Enum("ConstantBufferId", None, {"0": len(cbs)})}))
                cbs.append(I.Enum("ConstantBuffer", None, {"lang_binding": I.Enum("LanguageBinding", None, {"set": opt(d[1]), "index": opt(None)}), "api_binding": opt(None)}))
            elif d[0] == "global":
                roots.append(I.Enum("RootDefinition", "GlobalVariable", {"0": I.Enum("GlobalId", None, {"0": len(gls)})}))
                gls.append(I.Enum("GlobalVariable", None, {"lang_slot": I.Enum("LanguageBinding", None, {"set": opt(d[2]), "index": opt(None)}), "api_slot": opt(None),
                                                           "type_id": tid(d[1]), "static_sampler": opt(I.Opaque("sampler state")) if d[3] else opt(None),
                                                           "storage_class": I.Enum("GlobalStorage", "Extern")}))
            else:
                roots.append(I.Enum("RootDefinition", "Function", {"0": I.Enum("FunctionId", None, {"0": 0})}))
        return I.Enum("Module", None, {
            "flags": I.Enum("ModuleFlags", None, {"assigned_api_slots": False, "requires_buffer_address": False, "requires_vk_binding": False}),
            "selected_pipeline": opt(None) if default_group is None else opt(0),
            "pipelines": [] if default_group is None else [I.Enum("PipelineDefinition", None, {"default_bind_group_index": default_group})],
            "cbuffer_registry": cbs, "global_registry": gls, "root_definitions": roots, "inline_constant_buffers": [], "type_registry": I.Opaque("type registry")})

    def run(self, decls, default_group, params, reverse=False):
        """-> list of per-declaration placements | ('aborts'|'unreadable', why)
        placement: None | (group, 'slot', index, register type or None) | (group, 'inline', byte offset)"""
        ip = I.Interp(self.facts, max_depth=10, extern=self.externs())
        ip.reverse_hash_order = reverse
        mod = self.module(decls, default_group)
        p = I.Enum("AssignBindingsParams", None, dict(params))
        try:
            r = ip.apply(self.fn, [mod, p])
        except I.Unknown as e:
            return ("aborts" if "panicking" in str(e) else "unreadable", str(e))
        out = []
        ci = gi = 0

        def place(b):
            if not (isinstance(b, I.Enum) and b.variant == "Some"):
                return None
            ab = b.fields["0"]
            loc = ab.fields.get("location")
            st = ab.fields.get("slot_type")
            stv = st.fields["0"].variant if isinstance(st, I.Enum) and st.variant == "Some" else None
            if isinstance(loc, I.Enum) and loc.variant == "Index":
                return (ab.fields.get("set"), "slot", loc.fields.get("0"), stv)
            return (ab.fields.get("set"), "inline", loc.fields.get("0") if isinstance(loc, I.Enum) else loc)
        for d in decls:
            if d[0] == "cbuffer":
                out.append(place(r.fields["cbuffer_registry"][ci].fields["api_binding"]))
                ci += 1
            elif d[0] == "global":
                out.append(place(r.fields["global_registry"][gi].fields["api_slot"]))
                gi += 1
            else:
                out.append(None)
        icb = [(x.fields.get("set"), x.fields.get("api_location"), x.fields.get("size_in_bytes")) for x in r.fields.get("inline_constant_buffers", [])]
        return out, icb, r

    # the allocation rule, written independently
    def ref(self, decls, default_group, params, regtype):
        dg = default_group or 0
        used, inline = {}, {}
        out = []
        for d in decls:
            if d[0] == "cbuffer":
                g = d[1] if d[1] is not None else dg
                i = used.get(g, 0)
                used[g] = i + 1
                out.append((g, "slot", i, "B" if params["require_slot_type"] else None))
            elif d[0] == "global":
                g = d[2] if d[2] is not None else dg
                if d[3] and not params["static_samplers_have_slots"]:
                    out.append(None)
                    continue
                t = self.strip(d[1])
                count = 1
                if self.kind[t][0] == "array" and self.kind[t][2] is not None:
                    count = self.kind[t][2]
                    t = self.strip(self.kind[t][1])
                k = self.kind[t]
                if k[0] != "object":
                    out.append(None)
                    continue
                cost = 2 if (params["metal_slot_layout"] and k[1] in TWO_SLOT) else 1
                n = count * cost
                top = self.kind[self.strip(d[1])]
                if params["support_buffer_address"] and top[0] == "object" and top[1] in ("BufferAddress", "RWBufferAddress"):
                    o = inline.get(g, 0)
                    inline[g] = o + 8 * n
                    out.append((g, "inline", o))
                else:
                    i = used.get(g, 0)
                    used[g] = i + n
                    out.append((g, "slot", i, regtype.get(k[1]) if params["require_slot_type"] else None))
            else:
                out.append(None)
        icb = sorted((g, used.get(g, 0), s) for g, s in inline.items())
        return out, icb
