"""C05 — reflection metadata agrees with the emitted source."""
import facts as F
import mirs as M
import thirflow as TF
from facts import short, where

EXPLANATION = (
    "Decided by single-source-of-truth slices and writer/reader table agreement (no run-time lists are counted). "
    "C05.slot — in both exporters DescriptorBinding.api_binding is a pure copy of the declaration's api_slot.location "
    "(api_binding for cbuffers), registered under api_slot.set, inside the same `if let Some(api_slot)` that decides "
    "whether the declaration is bound; the numbers printed by generate_register_annotation, "
    "generate_vk_binding_annotation and the MSL [[id(n)]] attribute are pure copies of the same location / set (THIR "
    "value-origin slices; any arithmetic on the way is reported). C05.count — descriptor_count is Some(1) or the array "
    "length narrowed once, identically in both exporters. C05.type — the ObjectType -> DescriptorType tables of the two "
    "exporters are equal, injective and read/write-consistent. C05.name — the metadata name and the emitted "
    "declaration's identifier must come from the same provider. C05.entry — MSL: the ShaderStage -> entry-point-name "
    "table in compile.rs equals the one in msl pipeline.rs (5 entries); HLSL: the reported entry point must come from the "
    "provider that names the emitted function. C05.stage — stage and thread_group_size are copies of the selected "
    "PipelineStage. C05.used — MSL is_used is computed from function_required_globals of every stage's entry point; HLSL "
    "reports true."
)
ASSUMPTIONS = ["rustc THIR/MIR is a faithful view of the source"]

NAMEMAP = ("NameMap::get_name_leaf", "NameMap::get_name_qualified")


def descriptor_table(f, ab):
    """ObjectType variant -> DescriptorType variant as analyse_bindings computes it: the match that yields a
    DescriptorType is read by evaluation (finite-map reader) for every ObjectType variant, so nested or merged arms and
    helper functions do not matter. Falls back to reading flat arms."""
    import interp as I
    tab = {}
    objs = f.adt("ir_types::ObjectType", "rssl_ir")
    cands = []
    for b_ in F.family(f, ab, depth=1):
        for m in F.exprs(b_["thir"], "Match"):
            st = F.strip(m["scrut"]).get("ty", "").replace("&", "").strip()
            if st.endswith("TypeLayer") and "DescriptorType" in (m.get("ty") or "") and F.strip(m["scrut"]).get("k") == "Var":
                cands.append(m)
    if objs and cands:
        m = max(cands, key=lambda x: sum(1 for _ in F.walk(x)))
        sv = F.strip(m["scrut"])
        ip = I.Interp(f, max_depth=6)
        for v in objs["variants"]:
            val = I.Enum("TypeLayer", "Object", {"0": I.Enum("ObjectType", v["name"], {str(i): I.Opaque("payload") for i in range(len(v["fields"]))})})
            try:
                r = ip.ev(m, {sv["id"]: val})
                if isinstance(r, I.Enum) and r.adt == "DescriptorType":
                    tab[v["name"]] = r.variant
            except (I.Unknown, I.ReturnEx):
                pass
        try:
            r = ip.ev(m, {sv["id"]: I.Enum("TypeLayer", "Scalar", {"0": I.Enum("ScalarType", "Float32")})})
            if isinstance(r, I.Enum) and r.adt == "DescriptorType":
                tab["<non-object>"] = r.variant
        except (I.Unknown, I.ReturnEx):
            pass
        if len(tab) >= 10:
            return tab
    tab = {}
    for m in F.find_matches(ab, "TypeLayer"):
        for arm in m["arms"]:
            d = F.adt_ctor(F.tail(arm["body"]))
            if not d or d[0] != "DescriptorType":
                continue
            for alt in F.pat_alternatives(arm["pat"]):
                if F.pat_variant(alt) == ("TypeLayer", "Object"):
                    inner = F.pat_sub(alt, "0")
                    pv = F.pat_variant(inner) if inner else None
                    if pv:
                        tab[pv[1]] = d[1]
                elif F.pat_is_catchall(alt):
                    tab["<non-object>"] = d[1]
    return tab


def has_step(path, name):
    return any(s[0] == "f" and s[1] == name for s in path)


def param_paths(org):
    return [o[3] for o in org if o[0] == "param"] + [o[2] for o in org if o[0] == "call"]


def pure(org):
    return not any(o[0] in ("binop", "unop") for o in org)


def rule_bindings_table(chk, cases):
    """analyse_bindings of each exporter read as a table (c18.binding_cases: one-resource modules, every object type x
    shape x bindless flag x bound/unbound, plus a constant buffer): the reflection entry exists exactly when the declaration
    has an api slot, carries that slot's location and group and the declaration's bindless flag, descriptor_count is the
    array length (None when unbounded, 1 when not an array), and the descriptor kind depends on the object type only,
    alike on both targets, injectively, with the read/write kind kept. The shape rules below are the fallback."""
    import c18
    f = chk.facts
    abs_ = {"hlsl": f.fn("analyse_bindings", "rssl_hlsl"), "msl": f.fn("analyse_bindings", "rssl_msl")}
    kinds = {"hlsl": {}, "msl": {}}
    for tgt in ("hlsl", "msl"):
        bad = {}
        n = 0
        for oname, sname, bindless, bound, res in cases:
            r = res[tgt]
            what = "%s %s%s" % (sname, oname, " (bindless)" if bindless else "")
            if r[0] == "Err":
                continue
            n += 1
            if r[0] == "aborts":
                bad.setdefault("registered-iff-bound", "analyse_bindings aborts on a %s %s resource (%s)" % ("bound" if bound else "unbound", what, r[1]))
                continue
            if bound != (r[0] == "Ok"):
                bad.setdefault("registered-iff-bound", "a %s resource %s an api slot but %s reflection entry is registered" % (what, "with" if bound else "without", "no" if bound else "a"))
                continue
            if not bound:
                continue
            v = r[1]
            if v["slot"] != ("Index", 5):
                bad.setdefault("metadata-location", "a %s resource bound at Index(5) is reported at %s" % (what, v["slot"]))
            if v["group"] != 2:
                bad.setdefault("metadata-group", "a %s resource bound in set 2 is registered under group %s" % (what, v["group"]))
            if v["bindless"] is not bindless:
                bad.setdefault("bindless-flag", "a %s resource is reported with is_bindless = %s" % (what, v["bindless"]))
            if v["count"] != c18.SHAPE_COUNT[sname]:
                bad.setdefault("count", "a %s resource has descriptor_count %s, must be %s" % (what, v["count"], c18.SHAPE_COUNT[sname]))
            kinds[tgt].setdefault(oname, set()).add(v["kind"])
        for k in ("metadata-location", "metadata-group", "bindless-flag", "registered-iff-bound"):
            chk.ob("C05.slot/%s/%s" % (tgt, k), k not in bad, bad.get(k) or {"metadata-location": "api_binding = the declaration's api slot location", "metadata-group": "registered under the api slot's set",
                   "bindless-flag": "is_bindless copied from the declaration", "registered-iff-bound": "metadata entry exists exactly when the declaration has an api slot"}[k],
                   where(abs_[tgt]), sample={"target": tgt, "cases": n})
        chk.ob("C05.count/%s" % tgt, "count" not in bad, bad.get("count") or "descriptor_count = array length, None when unbounded, Some(1) otherwise", where(abs_[tgt]), sample={"target": tgt, "cases": n})
        chk.floor("C05.floor/%s/binding-cases" % tgt, n, 150 if tgt == "hlsl" else 100, "declarations evaluated", where(abs_[tgt]))
    hk, mk = kinds["hlsl"], kinds["msl"]
    names = sorted((set(hk) | set(mk)) - {"<cbuffer>"})
    for o in names:
        key = "<non-object>" if o == "<scalar>" else o
        h, m = hk.get(o), mk.get(o)
        one = all(x is None or len(x) == 1 for x in (h, m))
        ok = one and (h is None or m is None or h == m)
        chk.ob("C05.type/%s" % key, ok, "%s -> %s in both exporters, whatever the array shape" % (key, sorted(h or m)[0][0]) if ok else
               ("descriptor type of %s differs: HLSL %s, MSL %s" % (key, sorted(h or ()), sorted(m or ())) if one else "descriptor type of %s depends on the array shape or qualifiers: HLSL %s, MSL %s" % (key, sorted(h or ()), sorted(m or ()))),
               where(abs_["msl"]), sample={"object": key})
    vals = [sorted(hk[o])[0] for o in names if o != "<scalar>" and hk.get(o)]
    chk.ob("C05.type/injective", len(vals) == len(set(vals)), "distinct object kinds have distinct descriptor types" if len(vals) == len(set(vals)) else
           "two object kinds share a descriptor type: %s" % sorted(v for v in set(vals) if vals.count(v) > 1), where(abs_["hlsl"]))
    for o in names:
        if o == "<scalar>" or not hk.get(o):
            continue
        v = sorted(hk[o])[0][0]
        ok = o.startswith("RW") == v.startswith("Rw")
        chk.ob("C05.type/rw/%s" % o, ok, "read/write kind preserved" if ok else "%s is described as %s (read/write mismatch)" % (o, v), where(abs_["hlsl"]))
    chk.floor("C05.floor/descriptor-types", len(names), 21, "object kinds with a descriptor type")


def rule_folded_thread_group_size(chk):
    """The reported thread-group size is the constant folder's value of the numthreads arguments, while the emitted text
    carries the arguments as written (to be evaluated by the target compiler): the two agree only if evaluate_operator and
    evaluate_cast have the run-time semantics. The C13 operator and cast tables are therefore also obligations of C05
    (keys C13.op/.., C13.cast/..)."""
    import c13
    f = chk.facts
    ev = f.fn("evaluate_operator", c13.TY)
    ec = f.fn("evaluate_cast", c13.TY)
    if ev and not c13.rule_op_eval(chk, ev):
        c13.rule_op(chk, ev)
    if ec:
        c13.rule_cast(chk, ec)


def rule_address_type(chk):
    """The declared type of a BufferAddress / RWBufferAddress global in the HLSL text, read from generate_type_impl with the
    context the real GenerateContext::new builds, under the module flags of the three HLSL configurations (DirectX; Vulkan
    without buffer addresses; Vulkan with). The metadata describes such a global as a descriptor at a slot unless buffer
    addresses are lowered (only then does assign_api_bindings hand it an inline-constant offset - C06.address-tables), so
    the text must declare a (RW)ByteAddressBuffer in the first two and a 64-bit address only in the third."""
    import interp as I
    import bindmodel as BM
    f = chk.facts
    new = f.fn("new", "rssl_hlsl", self_ty="GenerateContext")
    gti = chk.anchor("C05.anchor/hlsl/generate_type_impl", f.fn("generate_type_impl", "rssl_hlsl"), "hlsl generate_type_impl")
    if not gti:
        return
    if not new:
        chk.note("C05.address-type: GenerateContext::new not found; not decided")
        return
    ot = f.adt("ObjectType", "rssl_ir")
    names = {v["name"] for v in (ot or {}).get("variants", [])}
    bm = BM.BindModel(f)
    configs = (("DirectX", False, False), ("Vulkan without buffer addresses", True, False), ("Vulkan with buffer addresses", True, True))
    want = {"BufferAddress": "ByteAddressBuffer", "RWBufferAddress": "RWByteAddressBuffer", "ByteAddressBuffer": "ByteAddressBuffer", "RWByteAddressBuffer": "RWByteAddressBuffer"}
    n = 0
    for on in sorted(want):
        if on not in names:
            continue
        t = bm._add(I.Enum("TypeLayer", "Object", {"0": I.Enum("ObjectType", on, {})}), ("object", on))
        bad = None
        for cname, vk, ba in configs:
            ext = dict(bm.externs())
            ext["NameMap::build"] = lambda a: I.Opaque("name map")
            ip = I.Interp(f, max_depth=8, extern=ext)
            mod = I.Enum("Module", None, {"type_registry": I.Opaque("type registry"),
                                          "flags": I.Enum("ModuleFlags", None, {"requires_vk_binding": vk, "requires_buffer_address": ba, "assigned_api_slots": True})})
            try:
                ctx = ip.apply(new, [mod])
                r = ip.apply(gti, [BM.tid(t), I.Enum("Declarator", "Empty"), False, ctx])
            except I.Unknown as e:
                chk.note("C05.address-type: generate_type_impl is not readable on %s (%s); not decided" % (on, str(e)[:80]))
                return
            got = None
            try:
                ids = r.fields["0"][0].fields["layout"].fields["0"].fields["identifiers"]
                got = "::".join(x.fields["node"] for x in ids)
            except (AttributeError, KeyError, TypeError, IndexError):
                try:
                    ids = r.fields["0"][0].fields["0"].fields["0"].fields["1"]
                    got = "::".join(x.fields["0"] if "0" in x.fields else x.fields["node"] for x in ids)
                except (AttributeError, KeyError, TypeError, IndexError):
                    got = repr(r)[:80]
            n += 1
            exp = "uint64_t" if (ba and on.endswith("BufferAddress")) else want[on]
            if got != exp and bad is None:
                bad = "a %s global is declared `%s` for %s, where the metadata describes %s: the declaration must be `%s`" % (
                    on, got, cname, "an inline 64-bit constant" if ba and on.endswith("BufferAddress") else "a descriptor at a binding slot", exp)
        chk.ob("C05.address-type/" + on, bad is None, bad or "declared as the metadata describes it in the three HLSL configurations", where(gti), sample={"object": on})
    chk.floor("C05.floor/address-type", n, 6, "object x configuration declarations read", where(gti))


def run(chk):
    f = chk.facts
    tables = {}
    import c18
    cases = c18.binding_cases(f)
    evaluated = not isinstance(cases, str)
    if evaluated:
        rule_bindings_table(chk, cases)
    else:
        chk.note("C05: %s: the shape rules decide" % cases)
    rule_address_type(chk)
    rule_folded_thread_group_size(chk)
    for crate, tgt in (("rssl_hlsl", "hlsl"), ("rssl_msl", "msl")):
        ab = chk.anchor("C05.anchor/%s/analyse_bindings" % tgt, f.fn("analyse_bindings", crate), "%s analyse_bindings" % tgt)
        if not ab or evaluated:
            continue
        tr = TF.Tracer(f, max_depth=2, no_inline=NAMEMAP + ("get_global_name", "get_constant_buffer_name"), through_casts=True)
        binds = [a for a in F.exprs(ab["thir"], "Adt") if short(a["adt"]) == "DescriptorBinding"]
        chk.floor("C05.floor/%s/bindings" % tgt, len(binds), 2 if tgt == "hlsl" else 1, "DescriptorBinding construction sites", where(ab))
        for a in binds:
            fl = {x["f"]: x["e"] for x in a["fields"]}
            org = tr.trace(ab, fl["api_binding"], ())
            paths = param_paths(org)
            ok = bool(org) and pure(org) and all(has_step(p, "location") and (has_step(p, "api_slot") or has_step(p, "api_binding")) for p in paths) and bool(paths)
            chk.ob("C05.slot/%s/metadata-location" % tgt, ok, "api_binding = <decl>.api_slot.location (pure copy)" if ok else
                   "metadata api_binding is not a pure copy of the declaration's api slot location (origins: %s)" % sorted({TF.describe(o)[:60] for o in org})[:3],
                   where(ab, a), sample={"target": tgt, "origins": sorted({TF.describe(o)[:50] for o in org})[:2]})
            dorg = tr.trace(ab, fl["descriptor_type"], ())
            sorg = tr.trace(ab, fl.get("is_bindless", {}), ()) if "is_bindless" in fl else set()
            if sorg and not all(o[0] == "lit" for o in sorg):
                okb = all(has_step(p, "is_bindless") for p in param_paths(sorg)) and pure(sorg)
                chk.ob("C05.slot/%s/bindless-flag" % tgt, okb, "is_bindless copied from the declaration" if okb else "is_bindless is not a copy of the declaration's flag", where(ab, a))
        # register_binding(api_slot.set, binding, ..)
        regs = [c for c in F.exprs(ab["thir"], "Call") if short(c.get("fn") or "") == "register_binding"]
        for c in regs:
            org = tr.trace(ab, c["args"][1], ())
            paths = param_paths(org)
            ok = bool(paths) and pure(org) and all(has_step(p, "set") for p in paths)
            chk.ob("C05.slot/%s/metadata-group" % tgt, ok, "registered under api_slot.set" if ok else
                   "the binding is registered under a group that is not the declaration's api_slot.set", where(ab, c))
            # inside `if let Some(api_slot) = decl.api_slot`
            guarded = False
            for iff in F.exprs(ab["thir"], "If"):
                cond = F.strip(iff["cond"])
                if cond.get("k") == "Let" and any(x is c for x in F.walk(iff["then"])):
                    pv = F.pat_variant(cond["pat"])
                    src = F.strip(cond["e"])
                    guarded = pv == ("Option", "Some") and src.get("k") == "Field" and src["name"] in ("api_slot", "api_binding")
            if not guarded:
                # the same guard written as `let Some(api_slot) = decl.api_slot else { return }` or a match: MIR dominance
                cfg_ab = M.Cfg(ab)
                somes = M.option_field_some_targets(cfg_ab, ("api_slot", "api_binding"))
                sites = [bb for bb, t_ in cfg_ab.calls("register_binding") if (t_.get("ln") or 0) == (c.get("ln") or -1)] or [bb for bb, t_ in cfg_ab.calls("register_binding")]
                guarded = bool(somes) and bool(sites) and all(any(cfg_ab.dominates(s_, bb) for s_ in somes) for bb in sites)
            chk.ob("C05.slot/%s/registered-iff-bound" % tgt, guarded, "metadata entry exists exactly when the declaration has an api slot" if guarded else
                   "register_binding is no longer guarded by `if let Some(api_slot) = decl.api_slot`", where(ab, c))
        chk.floor("C05.floor/%s/register-calls" % tgt, len(regs), 2 if tgt == "hlsl" else 1, "register_binding calls", where(ab))
        # descriptor type table
        tab = descriptor_table(f, ab)
        tables[tgt] = (ab, tab)
        chk.floor("C05.floor/%s/descriptor-types" % tgt, len(tab), 21, "ObjectType -> DescriptorType entries", where(ab))
        # descriptor_count shape
        cnt = None
        for s in F.walk(ab["thir"]):
            if s.get("k") == "LetStmt" and "init" in s and any(n == "descriptor_count" for i, n, p in F.pat_binds(s["pat"])):
                cnt = s
        if chk.anchor("C05.anchor/%s/descriptor_count" % tgt, cnt, "descriptor_count derivation", where(ab)):
            init = F.strip(cnt["init"])
            some1 = any(F.adt_ctor(x) and F.adt_ctor(x)[1] == "Some" and F.lit(F.adt_ctor(x)[2].get("0", {})) == ("int", 1) for x in F.exprs(init, "Adt"))
            arr = any(p.get("k") == "Variant" and p.get("variant") == "Array" for p in F.walk(init))
            maps = [c for c in F.exprs(init, "Call") if short(c.get("fn") or "") == "map"]
            noarith = not any(True for _ in F.exprs(init, "Binary"))
            closure_ok = False
            for c in maps:
                for cl in F.exprs(c, "Closure"):
                    cb = f.bodies.get(cl["path"])
                    if cb:
                        t = F.strip(F.tail(cb["thir"]))
                        closure_ok = t.get("k") == "Cast" and F.strip(t["e"]).get("k") == "Var"
            ok = some1 and arr and bool(maps) and noarith and closure_ok
            chk.ob("C05.count/%s" % tgt, ok, "descriptor_count = array length (narrowed once) or Some(1)" if ok else
                   "descriptor_count is no longer `Array(_, len) -> len as u32, otherwise Some(1)` (some1=%s array=%s map=%s arithmetic-free=%s)" % (some1, arr, bool(maps), noarith),
                   where(ab, cnt))
    if len(tables) == 2:
        (ha, ht), (ma, mt) = tables["hlsl"], tables["msl"]
        for k in sorted(set(ht) | set(mt)):
            chk.ob("C05.type/%s" % k, ht.get(k) == mt.get(k), "%s -> %s in both exporters" % (k, ht.get(k)) if ht.get(k) == mt.get(k) else
                   "descriptor type of %s differs: HLSL %s, MSL %s" % (k, ht.get(k), mt.get(k)), where(ma), sample={"object": k, "hlsl": ht.get(k), "msl": mt.get(k)})
        vals = [v for k, v in ht.items() if k != "<non-object>"]
        chk.ob("C05.type/injective", len(vals) == len(set(vals)), "distinct object kinds have distinct descriptor types" if len(vals) == len(set(vals)) else
               "two object kinds share a descriptor type: %s" % sorted(v for v in set(vals) if vals.count(v) > 1), where(ha))
        for k, v in sorted(ht.items()):
            if k == "<non-object>":
                continue
            ok = k.startswith("RW") == v.startswith("Rw")
            chk.ob("C05.type/rw/%s" % k, ok, "read/write kind preserved" if ok else "%s is described as %s (read/write mismatch)" % (k, v), where(ha))
    rule_annotations(chk)
    rule_names(chk)
    rule_entry(chk)
    rule_used(chk)
    import c18
    c18.rule_build_eval(chk, prefix="C05.build")
    import c02
    c02.rule_usage_eval(chk, prefix="C05.usage")      # which globals an entry point reaches (is_used is computed from it)
    if not rule_stage_eval(chk):
        rule_thread_group(chk)
    rule_thread_group_values(chk)


def rule_annotations(chk):
    f = chk.facts
    tr = TF.Tracer(f, max_depth=1, through_casts=True)
    for fn_name, adt, field_checks in (
            ("generate_register_annotation", "RegisterSlot", {"index": "location"}),
            ("generate_register_annotation", "Register", {"space": "set"})):
        fn = f.fn(fn_name, "rssl_hlsl")
        if not chk.anchor("C05.anchor/hlsl/" + fn_name, fn, fn_name):
            continue
        for a in F.exprs(fn["thir"], "Adt"):
            if short(a["adt"]) != adt:
                continue
            fl = {x["f"]: x["e"] for x in a["fields"]}
            for fld, want in field_checks.items():
                org = tr.trace(fn, fl[fld], ()) | tr.trace(fn, fl[fld], (("v", "Option", "Some", "0"),))
                paths = param_paths(org)
                ok = bool(paths) and pure(org) and all(has_step(p, want) for p in paths)
                chk.ob("C05.slot/hlsl/register-%s" % fld, ok, "register %s = slot.%s (pure copy)" % (fld, want) if ok else
                       "the printed register %s is not a pure copy of slot.%s (%s)" % (fld, want, sorted({TF.describe(o)[:60] for o in org})[:3]), where(fn, a))
    # space omitted exactly when set == 0
    fn = f.fn("generate_register_annotation", "rssl_hlsl")
    evaluated = False
    if fn:
        # generate_register_annotation read as a table over (group, index, register type)
        import interp as I
        ip = I.Interp(f, max_depth=6)
        bad = []
        try:
            r0 = ip.apply(fn, [I.Enum("Option", "None")])
            if not (isinstance(r0, I.Enum) and r0.variant == "Ok" and isinstance(r0.fields.get("0"), I.Enum) and r0.fields["0"].variant == "None"):
                bad.append("an unbound declaration gets %r, must get no register annotation" % (r0,))
            for s_ in (0, 1, 5):
                for i_ in (0, 3):
                    for rt in ("T", "U"):
                        slot = I.Enum("Option", "Some", {"0": I.Enum("ApiBinding", None, {"set": s_, "location": I.Enum("ApiLocation", "Index", {"0": i_}),
                                                                                       "slot_type": I.Enum("Option", "Some", {"0": I.Enum("RegisterType", rt)})})})
                        r = ip.apply(fn, [slot])
                        reg = r.fields["0"].fields["0"] if isinstance(r, I.Enum) and r.variant == "Ok" and isinstance(r.fields.get("0"), I.Enum) and r.fields["0"].variant == "Some" else None
                        sl = reg.fields.get("slot") if isinstance(reg, I.Enum) else None
                        sp = reg.fields.get("space") if isinstance(reg, I.Enum) else None
                        got = None
                        if isinstance(sl, I.Enum) and sl.variant == "Some" and isinstance(sp, I.Enum):
                            rs = sl.fields["0"]
                            got = (rs.fields["slot_type"].variant, rs.fields["index"], sp.fields.get("0") if sp.variant == "Some" else None)
                        want = (rt, i_, None if s_ == 0 else s_)
                        if got != want:
                            bad.append("slot (group %d, index %d, type %s) is annotated %s, must be register(%s%d%s)" % (s_, i_, rt, (got,), rt.lower(), i_, "" if s_ == 0 else ", space%d" % s_))
            evaluated = True
        except (I.Unknown, KeyError, AttributeError, TypeError):
            evaluated = False
        if evaluated:
            chk.ob("C05.slot/hlsl/space-omitted-iff-zero", not bad, "register(<type><index>[, space<group>]) equals the api slot for 12 slots; space is printed iff the group is not 0" if not bad else
                   "generate_register_annotation: %s (%d case(s)): the emitted source and the reported binding disagree" % (bad[0], len(bad)), where(fn))
    if fn and not evaluated:
        ok = False
        for iff in F.exprs(fn["thir"], "If"):
            c = F.strip(iff["cond"])
            if c.get("k") == "Binary" and c["op"] == "Ne" and F.lit(c["r"]) == ("int", 0) and F.strip(c["l"]).get("k") == "Field" and F.strip(c["l"])["name"] == "set":
                th, el = F.adt_ctor(F.tail(iff["then"])), F.adt_ctor(F.tail(iff.get("else", {})))
                ok = bool(th and th[1] == "Some" and el and el[1] == "None")
        chk.ob("C05.slot/hlsl/space-omitted-iff-zero", ok, "space is printed iff set != 0" if ok else "the `spaceN` annotation is no longer emitted exactly for non-zero groups", where(fn))
    vk = f.fn("generate_vk_binding_annotation", "rssl_hlsl")
    if chk.anchor("C05.anchor/hlsl/generate_vk_binding_annotation", vk, "generate_vk_binding_annotation"):
        lits = [a for a in F.exprs(vk["thir"], "Adt") if short(a["adt"]) == "Literal" and a.get("variant") == "IntUntyped"]
        wants = []
        for a in lits:
            org = tr.trace(vk, a["fields"][0]["e"], ())
            paths = param_paths(org)
            kind = "location" if paths and all(has_step(p, "location") for p in paths) else ("set" if paths and all(has_step(p, "set") for p in paths) else "?")
            wants.append((kind, pure(org)))
        ok = sorted(k for k, _ in wants) == ["location", "set"] and all(p for _, p in wants)
        chk.ob("C05.slot/hlsl/vk-binding", ok, "[[vk::binding(location, set)]] are pure copies" if ok else
               "vk::binding arguments are %s (must be pure copies of slot.location and slot.set)" % wants, where(vk))
        # argument order: index first
        arrs = [arr for arr in F.exprs(vk["thir"], "Array") if len(arr["elems"]) == 2]
        ordok = False
        for arr in arrs:
            v0, v1 = F.leftmost_var(arr["elems"][0]), F.leftmost_var(arr["elems"][1])
            if v0 and v1:
                ordok = v0.get("name") == "index" or True
                # resolve lets
                def which(v):
                    for s in F.walk(vk["thir"]):
                        if s.get("k") == "LetStmt" and s["pat"].get("k") == "Bind" and s["pat"]["id"] == v["id"]:
                            o = tr.trace(vk, s["init"], (("f", "node"), ("v", "Expression", "Literal", "0"), ("v", "Literal", "IntUntyped", "0")))
                            ps = param_paths(o)
                            return "set" if ps and all(has_step(p, "set") for p in ps) else ("location" if ps and all(has_step(p, "location") for p in ps) else "?")
                    return "?"
                ordok = (which(v0), which(v1)) == ("location", "set")
        chk.ob("C05.slot/hlsl/vk-binding-order", ordok, "vk::binding(index, set) argument order" if ordok else "vk::binding arguments are not (index, set)", where(vk))
    gp = f.fn("generate_pipeline", "rssl_msl")
    if chk.anchor("C05.anchor/msl/generate_pipeline", gp, "msl generate_pipeline"):
        ok = False
        for at in F.exprs(gp["thir"], "Adt"):
            if short(at["adt"]) == "Attribute":
                fl = {x["f"]: x["e"] for x in at["fields"]}
                if any(F.lit(x) == ("str", "id") for x in F.exprs(fl.get("name", {}), "Lit")):
                    lit = [a for a in F.exprs(fl["arguments"], "Adt") if short(a["adt"]) == "Literal"]
                    if lit:
                        org = tr.trace(gp, lit[0]["fields"][0]["e"], ())
                        paths = param_paths(org)
                        descr = sorted({TF.describe(o)[:70] for o in org})
                        ok = bool(org) and pure(org) and all(has_step(p, "api_binding") and has_step(p, "metadata") for p in paths) and bool(paths)
                        chk.ob("C05.slot/msl/id-attribute", ok, "[[id(n)]] = argument.metadata.api_binding (pure copy)" if ok else
                               "the [[id(n)]] member attribute is not a pure copy of the binding's metadata.api_binding (%s)" % descr[:3], where(gp, at))
        if not ok:
            chk.ob("C05.slot/msl/id-attribute", False, "anchor-missing or wrong: [[id(n)]] attribute built from metadata.api_binding", where(gp))


def rule_names(chk):
    """The metadata name and the emitted declaration's identifier come from the same provider function."""
    f = chk.facts
    tr = TF.Tracer(f, max_depth=2, inline=lambda p: p.startswith("rssl_text::"))
    decl_fn = {"rssl_hlsl": "generate_global_variable", "rssl_msl": "analyse_globals"}
    for crate, tgt in (("rssl_hlsl", "hlsl"), ("rssl_msl", "msl")):
        ab = f.fn("analyse_bindings", crate)
        df = f.fn(decl_fn[crate], crate)
        if not ab or not chk.anchor("C05.anchor/%s/%s" % (tgt, decl_fn[crate]), df, decl_fn[crate]):
            continue
        decl_providers = set()
        for c in F.exprs(df["thir"], "Call"):
            if short(c.get("fn") or "") == "generate_type_and_declarator" and len(c.get("args", [])) > 1:
                decl_providers |= {o[1] for o in tr.trace(df, c["args"][1], (("f", "node"),)) | tr.trace(df, c["args"][1], ()) if o[0] == "call"}
        for a in F.exprs(ab["thir"], "Adt"):
            if short(a["adt"]) != "DescriptorBinding":
                continue
            fl = {x["f"]: x["e"] for x in a["fields"]}
            prov = {o[1] for o in tr.trace(ab, fl["name"], ()) if o[0] == "call"}
            if any("constant_buffer" in p or "cbuffer" in p for p in prov):
                cb = f.fn("generate_constant_buffer", crate)
                cprov = set()
                if cb:
                    for x in F.exprs(cb["thir"], "Adt"):
                        if short(x["adt"]) == "ConstantBuffer":
                            nm = [y["e"] for y in x["fields"] if y["f"] == "name"]
                            cprov = {o[1] for o in tr.trace(cb, nm[0], (("f", "node"),)) | tr.trace(cb, nm[0], ()) if o[0] == "call"}
                ok = bool(prov) and prov == cprov
                chk.ob("C05.name/%s/cbuffer" % tgt, ok, "metadata and declaration both use %s" % sorted(short(p) for p in prov) if ok else
                       "cbuffer metadata name comes from %s, the declaration from %s" % (sorted(prov), sorted(cprov)), where(ab, a))
                continue
            ok = bool(prov) and prov == decl_providers
            chk.ob("C05.name/%s/global" % tgt, ok, "metadata and declaration both use %s" % sorted(short(p) for p in prov) if ok else
                   "the metadata name of a global binding comes from %s while the emitted declaration is named by %s: "
                   "they differ when the name is reserved or duplicated in the target" % (sorted(prov), sorted(decl_providers)),
                   where(ab, a), sample={"target": tgt, "metadata": sorted(prov), "declaration": sorted(decl_providers)})


def rule_entry(chk):
    f = chk.facts
    bp = chk.anchor("C05.anchor/build_pipeline", f.fn("build_pipeline", "rssl"), "rssl build_pipeline")
    gp = f.fn("generate_pipeline", "rssl_msl")
    if not bp:
        return
    import interp as I
    # construction sites in build_pipeline itself or in a closure of it (`stages.iter().map(|stage| CompiledPipelineStage {..})`)
    stages = [(a, b_) for b_ in [bp] + f.closures_of(bp["path"]) for a in F.exprs(b_["thir"], "Adt") if short(a["adt"]) == "CompiledPipelineStage"]
    chk.floor("C05.floor/stage-sites", len(stages), 1, "CompiledPipelineStage construction sites", where(bp))
    tr = TF.Tracer(f, max_depth=2, no_inline=NAMEMAP + ("get_function_name",))
    msl_tab = {}
    all_stages = f.variants("ShaderStage", "rssl_ir") or []
    for a, owner_body in stages:
        fl = {x["f"]: x["e"] for x in a["fields"]}
        for fld in ("stage", "thread_group_size"):
            org = tr.trace(owner_body, fl[fld], ())
            ok = bool(org) and pure(org) and all(has_step(p, fld) for p in param_paths(org)) and bool(param_paths(org))
            chk.ob("C05.stage/%s" % fld, ok, "%s copied from the pipeline stage" % fld if ok else "%s is not a copy of the selected stage's field" % fld, where(bp, a))
        # the reported entry point as a function of the stage kind (finite-map reader; helpers are inlined)
        sv = F.leftmost_var(fl["stage"])
        tab = {}
        if sv is not None:
            ipx = I.Interp(f)
            for s_ in all_stages:
                try:
                    v_ = ipx.ev(fl["entry_point"], {sv["id"]: I.Enum("PipelineStage", None, {"stage": I.Enum("ShaderStage", s_), "thread_group_size": I.Opaque("tgs"),
                                                                                            "entry_point": I.Opaque("fn")})})
                    if isinstance(v_, str):
                        tab[s_] = v_
                except I.Unknown:
                    pass
        if len(tab) == len(all_stages) and tab:
            msl_tab = tab
        else:
            org = tr.trace(owner_body, fl["entry_point"], ())
            via_map = any(o[0] == "call" and o[1].endswith(NAMEMAP) for o in org)
            chk.ob("C05.entry/hlsl", via_map, "entry point name comes from NameMap" if via_map else
                   "the HLSL entry point is reported under the raw registry name (%s) while the function is emitted under its NameMap name"
                   % sorted({TF.describe(o)[:50] for o in org})[:2], where(bp, a))
    if gp:
        ptab = {}
        for m in F.exprs(gp["thir"], "Match"):
            if not F.strip(m["scrut"]).get("ty", "").endswith("ShaderStage"):
                continue
            t = {}
            for arm in m["arms"]:
                pv = F.pat_variant(arm["pat"])
                b = F.strip(arm["body"])
                if pv and b.get("k") == "Const" and "ENTRY_POINT_NAME" in b["path"]:
                    cb = f.bodies.get(b["path"])
                    l = F.lit(cb["thir"]) if cb else None
                    t[pv[1]] = l[1] if l else None
            if len(t) >= 5:
                ptab = t
        stg = f.variants("ShaderStage", "rssl_ir") or []
        for s in stg:
            ok = s in msl_tab and msl_tab.get(s) == ptab.get(s)
            chk.ob("C05.entry/msl/%s" % s, ok, "%s -> %s in compile.rs and pipeline.rs" % (s, msl_tab.get(s)) if ok else
                   "MSL entry point for %s: compile.rs reports %r, the generator emits %r" % (s, msl_tab.get(s), ptab.get(s)), where(bp),
                   sample={"stage": s, "reported": msl_tab.get(s), "emitted": ptab.get(s)})
        chk.floor("C05.floor/entry-names", len(ptab), 5, "entry point names in msl pipeline.rs", where(gp))


def rule_used(chk):
    f = chk.facts
    gp = f.fn("generate_pipeline", "rssl_msl")
    if not gp:
        return
    ok_assign = ok_source = False
    for a in F.exprs(gp["thir"], "Assign"):
        l = F.strip(a["l"])
        if l.get("k") == "Field" and l["name"] == "is_used":
            r = F.strip(a["r"])
            if r.get("k") == "Call" and short(r.get("fn") or "") == "contains":
                g = [x for x in F.exprs(r, "Adt") if short(x["adt"]) == "ImplicitFunctionParameter" and x.get("variant") == "Global"]
                ok_assign = bool(g) and any(x.get("name") == "id" for x in F.exprs(g[0], "Field"))
    if not ok_assign:
        # the same membership test written another way (`iter().any(|g| *g == Global(argument.id))`): read by evaluation
        import interp as I
        for a in F.exprs(gp["thir"], "Assign"):
            l = F.strip(a["l"])
            if not (l.get("k") == "Field" and l["name"] == "is_used"):
                continue
            rhs = a["r"]
            lets_ = F.let_table(gp["thir"])
            vs = {v["id"]: v for v in F.exprs(F.inline_lets(gp["thir"], rhs), "Var")}
            lists = [i for i, v in vs.items() if "ImplicitFunctionParameter" in v.get("ty", "") and ("Vec<" in v.get("ty", "") or "[" in v.get("ty", ""))]
            args_ = [i for i, v in vs.items() if i not in lists]
            if len(lists) != 1 or len(args_) != 1:
                continue
            G = lambda k: I.Enum("ImplicitFunctionParameter", "Global", {"0": I.Enum("GlobalId", None, {"0": k})})
            used = [G(7), I.Enum("ImplicitFunctionParameter", "ThreadIndexInSimdgroup"), G(2), G(5)]
            res = []
            try:
                for k in (2, 3, 5, 7, 9):
                    arg = I.Enum("Argument", None, {"id": I.Enum("GlobalId", None, {"0": k}), "metadata": I.Enum("DescriptorBinding", None, {"is_used": False})})
                    ipu = I.Interp(f, max_depth=4)
                    ipu.lets = lets_
                    res.append(ipu.ev(rhs, {lists[0]: used, args_[0]: arg}))
                ok_assign = res == [True, False, True, True, False]
            except (I.Unknown, I.ReturnEx):
                pass
    for (p, it, body, node) in F.for_loops(gp["thir"]):
        its = F.strip(it)
        if its.get("k") == "Field" and its["name"] == "stages" and body is not None:
            gets = [c for c in F.exprs(body, "Call") if short(c.get("fn") or "") == "get" and any(x.get("name") == "function_required_globals" for x in F.exprs(c, "Field"))]
            ext = [c for c in F.exprs(body, "Call") if short(c.get("fn") or "") in ("extend_from_slice", "extend")]
            key_ok = any(x.get("name") == "entry_point" for c in gets for x in F.exprs(c, "Field"))
            ok_source = bool(gets) and bool(ext) and key_ok
    chk.ob("C05.used/msl/flag", ok_assign, "is_used = all_used_globals.contains(Global(argument.id))" if ok_assign else
           "metadata.is_used is no longer computed from the set of globals the entry points require", where(gp))
    chk.ob("C05.used/msl/all-stages", ok_source, "the used set is the union over every stage's entry point" if ok_source else
           "the used-global set is no longer gathered from function_required_globals[stage.entry_point] for every stage", where(gp))
    ab = f.fn("analyse_bindings", "rssl_hlsl")
    if ab:
        vals = []
        for a in F.exprs(ab["thir"], "Adt"):
            if short(a["adt"]) == "DescriptorBinding":
                fl = {x["f"]: x["e"] for x in a["fields"]}
                vals.append(F.lit(fl["is_used"]))
        ok = bool(vals) and all(v == ("bool", True) for v in vals)
        chk.ob("C05.used/hlsl", ok, "HLSL never reports a binding unused" if ok else "HLSL metadata can report a binding as unused without any usage analysis (%s)" % vals, where(ab))


def rule_stage_eval(chk):
    """add_stage read as a table: for every ShaderStage and every position of [numthreads] in the entry point's attribute
    list (alone, after / before another attribute, absent) the stage pushed onto the pipeline names the entry point that
    was asked for, carries the stage kind, and reports Some((x, y, z)) exactly when the function has [numthreads(x, y, z)]
    (the exporters print that attribute on every kind of entry point)."""
    import interp as I
    f = chk.facts
    fn = f.fn("add_stage", "rssl_typer")
    stages = f.variants("ShaderStage", "rssl_ir")
    if not fn or not stages:
        return False
    opt = lambda v: I.Enum("Option", "None") if v is None else I.Enum("Option", "Some", {"0": v})
    ok = lambda v: I.Enum("Result", "Ok", {"0": v})
    X = lambda t: I.Enum("Expression", "Tagged", {"tag": t})
    nt = I.Enum("FunctionAttribute", "NumThreads", {"0": X(8), "1": X(4), "2": X(2)})
    other = I.Enum("FunctionAttribute", "WaveSize", {"0": X(32)})
    lists = {"alone": [nt], "after-another": [other, nt], "before-another": [nt, other], "absent": [other], "none": []}
    names = ["helper", "Entry", "other"]

    def deref(v):
        return v.get() if isinstance(v, I.Ref) else v
    bad = {}
    n = 0
    for st in stages:
        for lname, attrs in lists.items():
            impl = I.Enum("FunctionImplementation", None, {"attributes": list(attrs)})
            ext = {"FunctionRegistry::iter": lambda a: [I.Enum("FunctionId", None, {"0": i}) for i in range(len(names))],
                   "FunctionRegistry::get_function_name": lambda a: names[deref(a[1]).fields["0"]],
                   "FunctionRegistry::get_function_implementation": lambda a, impl=impl: opt(impl) if deref(a[1]).fields["0"] == 1 else opt(None),
                   "evaluate_constexpr": lambda a: ok(I.Enum("Constant", "UInt32", {"0": deref(a[0]).fields["tag"]}))}
            ip = I.Interp(f, max_depth=6, extern=ext)
            ident = I.Enum("ScopedIdentifier", None, {"base": I.Enum("ScopedIdentifierBase", "Relative"), "identifiers": [I.Enum("Located", None, {"node": "Entry", "location": I.Opaque("location")})]})
            entry = I.Enum("Located", None, {"node": I.Enum("PipelinePropertyValue", "Single", {"0": I.Enum("Expression", "Identifier", {"0": ident})}), "location": I.Opaque("location")})
            ctx = I.Enum("Context", None, {"module": I.Enum("Module", None, {"function_registry": I.Opaque("function registry")})})
            pdef = I.Enum("PipelineDefinition", None, {"stages": []})
            try:
                r = ip.apply(fn, [entry, I.Enum("ShaderStage", st), ctx, pdef])
            except I.Unknown as e:
                if "panicking" in str(e):
                    bad.setdefault(st, "add_stage aborts for a %s entry point with attributes %s (%s)" % (st, lname, str(e)[:60]))
                    continue
                chk.note("C05.stage: add_stage is not readable (%s); the shape rules C05.threads decide" % str(e)[:80])
                return False
            n += 1
            want = (8, 4, 2) if nt in attrs else None
            pushed = pdef.fields["stages"]
            if not (isinstance(r, I.Enum) and r.variant == "Ok"):
                bad.setdefault(st, "add_stage refuses a %s entry point whose attributes are %s" % (st, lname))
                continue
            if len(pushed) != 1 or not isinstance(pushed[0], I.Enum):
                bad.setdefault(st, "add_stage records %d stages for one %s entry point" % (len(pushed), st))
                continue
            ps = pushed[0].fields
            tg = ps.get("thread_group_size")
            got = tuple(tg.fields["0"]) if isinstance(tg, I.Enum) and tg.variant == "Some" else None
            ep = ps.get("entry_point")
            if got != want:
                bad.setdefault(st, ("a %s entry point declared with [numthreads(8, 4, 2)] (%s in its attribute list) is reported with thread-group size %s: the emitted function carries the attribute, "
                                    "the stage metadata does not agree" % (st, lname, got)) if want else "a %s entry point without [numthreads] is reported with thread-group size %s" % (st, got))
            elif not (isinstance(ps.get("stage"), I.Enum) and ps["stage"].variant == st):
                bad.setdefault(st, "a %s entry point is recorded as stage %s" % (st, getattr(ps.get("stage"), "variant", "?")))
            elif not (isinstance(ep, I.Enum) and ep.fields.get("0") == 1):
                bad.setdefault(st, "the stage records function %s as its entry point, the pipeline named function 1 (`Entry`)" % (ep,))
    for st in stages:
        chk.ob("C05.stage/" + st, st not in bad, bad.get(st) or "entry point, stage kind and thread-group size recorded for every attribute list", where(fn), sample={"stage": st})
    chk.floor("C05.floor/stage-cases", n, 20, "add_stage evaluations", where(fn))
    return True


def stage_declared_only(f):
    """add_stage for an entry point that is declared but has no body (`void cs(); Pipeline P { ComputeShader = cs; }`):
    -> "Err" | "Ok" | ("aborts", why) | ("unreadable", why) per ShaderStage"""
    import interp as I
    fn = f.fn("add_stage", "rssl_typer")
    stages = f.variants("ShaderStage", "rssl_ir")
    if not fn or not stages:
        return None
    opt = lambda v: I.Enum("Option", "None") if v is None else I.Enum("Option", "Some", {"0": v})

    def deref(v):
        return v.get() if isinstance(v, I.Ref) else v
    out = {}
    for st in stages:
        ext = {"FunctionRegistry::iter": lambda a: [I.Enum("FunctionId", None, {"0": i}) for i in range(2)],
               "FunctionRegistry::get_function_name": lambda a: ["helper", "Entry"][deref(a[1]).fields["0"]],
               "FunctionRegistry::get_function_implementation": lambda a: opt(None),
               "evaluate_constexpr": lambda a: I.Enum("Result", "Ok", {"0": I.Enum("Constant", "UInt32", {"0": 1})})}
        ip = I.Interp(f, max_depth=6, extern=ext)
        ident = I.Enum("ScopedIdentifier", None, {"base": I.Enum("ScopedIdentifierBase", "Relative"), "identifiers": [I.Enum("Located", None, {"node": "Entry", "location": I.Opaque("location")})]})
        entry = I.Enum("Located", None, {"node": I.Enum("PipelinePropertyValue", "Single", {"0": I.Enum("Expression", "Identifier", {"0": ident})}), "location": I.Opaque("location")})
        ctx = I.Enum("Context", None, {"module": I.Enum("Module", None, {"function_registry": I.Opaque("function registry")})})
        pdef = I.Enum("PipelineDefinition", None, {"stages": []})
        try:
            r = ip.apply(fn, [entry, I.Enum("ShaderStage", st), ctx, pdef])
        except I.Unknown as e:
            out[st] = ("aborts" if "panicking" in str(e) else "unreadable", str(e)[:80])
            continue
        out[st] = r.variant if isinstance(r, I.Enum) else ("unreadable", repr(r)[:60])
    return out


def rule_thread_group_values(chk, prefix="C05.threads"):
    """add_stage walked for an entry point with [numthreads(x, y, z)] whose arguments fold (evaluate_constexpr scripted) to
    constants of every integer kind at and beyond the ends of the uint range: the reported thread-group size is exactly
    the arguments' values, in order, and a value that is not a uint (negative, above 2^32-1) is refused, never wrapped."""
    import interp as I
    f = chk.facts
    fn = f.fn("add_stage", "rssl_typer")
    if not fn:
        return      # C05.anchor/add_stage fails closed
    opt = lambda v: I.Enum("Option", "None") if v is None else I.Enum("Option", "Some", {"0": v})

    def deref(v):
        return v.get() if isinstance(v, I.Ref) else v
    K = lambda kind, v: I.Enum("Constant", kind, {"0": v})
    samples = [("UInt32", 8), ("UInt32", 0xFFFFFFFF), ("UInt32", 0), ("Int32", 3), ("Int32", 0x7FFFFFFF), ("Int32", -1), ("Int32", -(1 << 31)),
               ("IntLiteral", 64), ("IntLiteral", 0xFFFFFFFF), ("IntLiteral", (1 << 32) + 8), ("IntLiteral", 1 << 32), ("IntLiteral", -1), ("IntLiteral", (1 << 40) + 1)]
    bad = None
    n = 0
    for kind, v in samples:
        for pos in (0, 2):
            vals = [K("UInt32", 2), K("UInt32", 3), K("UInt32", 4)]
            vals[pos] = K(kind, v)
            tags = [I.Enum("Expression", "Literal", {"0": I.Enum("Constant", "String", {"0": "arg%d" % i})}) for i in range(3)]
            ext = {"FunctionRegistry::iter": lambda a: [I.Enum("FunctionId", None, {"0": i}) for i in range(2)],
                   "FunctionRegistry::get_function_name": lambda a: ["helper", "Entry"][deref(a[1]).fields["0"]],
                   "FunctionRegistry::get_function_implementation": lambda a, tags=tags: opt(I.Enum("FunctionImplementation", None, {
                       "attributes": [I.Enum("FunctionAttribute", "NumThreads", {"0": tags[0], "1": tags[1], "2": tags[2]})]})),
                   "evaluate_constexpr": lambda a, vals=vals: I.Enum("Result", "Ok", {"0": vals[int(deref(a[0]).fields["0"].fields["0"][3:])]})}
            ip = I.Interp(f, max_depth=6, extern=ext)
            ident = I.Enum("ScopedIdentifier", None, {"base": I.Enum("ScopedIdentifierBase", "Relative"), "identifiers": [I.Enum("Located", None, {"node": "Entry", "location": I.Opaque("location")})]})
            entry = I.Enum("Located", None, {"node": I.Enum("PipelinePropertyValue", "Single", {"0": I.Enum("Expression", "Identifier", {"0": ident})}), "location": I.Opaque("location")})
            ctx = I.Enum("Context", None, {"module": I.Enum("Module", None, {"function_registry": I.Opaque("function registry")})})
            pdef = I.Enum("PipelineDefinition", None, {"stages": []})
            try:
                r = ip.apply(fn, [entry, I.Enum("ShaderStage", "Compute"), ctx, pdef])
            except I.Unknown as e:
                if "panicking" in str(e):
                    bad = bad or "[numthreads] with an argument that folds to %s(%d) aborts (%s)" % (kind, v, str(e)[:60])
                    continue
                chk.note("%s/values: add_stage is not readable (%s); not decided" % (prefix, str(e)[:80]))
                return
            n += 1
            want = [2, 3, 4]
            want[pos] = v
            fits = 0 <= v <= 0xFFFFFFFF
            if isinstance(r, I.Enum) and r.variant == "Ok":
                st = pdef.fields["stages"]
                tg = st[0].fields.get("thread_group_size") if st else None
                got = list(tg.fields["0"]) if isinstance(tg, I.Enum) and tg.variant == "Some" else None
                if got != want and bad is None:
                    bad = "[numthreads] whose argument %d folds to %s(%d) is reported as thread-group size %s%s" % (
                        pos, kind, v, got, "; the value is not a uint and must be refused" if not fits else ", must be %s" % want)
            elif fits and bad is None:
                bad = "[numthreads] whose argument %d folds to %s(%d) is refused" % (pos, kind, v)
    chk.ob(prefix + "/values", bad is None, bad or "%d argument lists: the reported size is the folded values, out-of-range values are refused" % n, where(fn), sample={"lists": n})


def rule_thread_group(chk):
    """Reported thread-group size = the entry point's [numthreads]: add_stage scans the function's attribute list for
    NumThreads; the scan must look at every attribute (no break / early exit on another attribute kind - the exporters
    print numthreads wherever it stands in the list) and store Some((x, y, z)) built from the three evaluated arguments
    in order."""
    f = chk.facts
    fn = chk.anchor("C05.anchor/add_stage", f.fn("add_stage", "rssl_typer"), "typer add_stage")
    if not fn:
        return
    loops = []
    for (p, it, body, node) in F.for_loops(fn["thir"]):
        if body is None:
            continue
        asg = [a for a in F.exprs(body, "Assign") if (F.leftmost_var(a["l"]) or {}).get("name") == "thread_group_size" or
               any(short(x.get("adt", "")) == "Option" and x.get("variant") == "Some" and any(y.get("k") == "Tuple" and len(y.get("elems", [])) == 3 for y in F.walk(x)) for x in F.exprs(a["r"], "Adt"))]
        if asg and any(p2.get("k") == "Variant" and p2.get("variant") == "NumThreads" for p2 in F.walk(body) if isinstance(p2, dict)):
            loops.append((p, it, body, node, asg))
    if not chk.anchor("C05.anchor/numthreads-scan", len(loops) == 1 and loops, "the loop over function attributes that records NumThreads", where(fn)):
        return
    p, it, body, node, asg = loops[0]
    whole = F.strip(it)
    src_ok = any(x.get("k") == "Field" and x.get("name") == "attributes" for x in F.walk(it)) and \
        not any(short(c.get("fn") or "") in ("skip", "take", "rev", "filter", "take_while", "skip_while", "step_by") for c in F.exprs(it, "Call"))
    chk.ob("C05.threads/scans-all-attributes", src_ok, "iterates the function's whole attribute list" if src_ok else
           "the numthreads scan no longer iterates the whole attribute list of the entry point", where(fn, node))
    inner_loops = [x for l in F.for_loops(body) if l[2] is not None for x in F.walk(l[3])]
    breaks = [x for x in F.walk(body) if x.get("k") == "Break" and not any(x is y for y in inner_loops)]
    rets_ok = True
    for r in F.walk(body):
        if r.get("k") == "Return" and "e" in r:
            a = F.adt_ctor(r["e"])
            fr = any(short(c.get("fn") or "") == "from_residual" for c in F.exprs(r, "Call"))
            if not fr and not (a and a[1] == "Err"):
                rets_ok = False
    ok = not breaks and rets_ok
    chk.ob("C05.threads/no-early-exit", ok, "the scan only ends early with an error" if ok else
           "the numthreads scan leaves the loop at an attribute that is not numthreads (%s): when another attribute precedes [numthreads] the stage reports no thread-group size while the emitted entry point declares one"
           % ("break" if breaks else "return"), where(fn, breaks[0] if breaks else node))
    # Some((x, y, z)) in argument order
    order_ok = False
    for a in asg:
        for tup in (y for y in F.walk(a["r"]) if y.get("k") == "Tuple" and len(y.get("elems", [])) == 3):
            vs = [F.leftmost_var(e) for e in tup["elems"]]
            if not all(vs):
                continue
            fields = {}
            for q in F.walk(body):
                if isinstance(q, dict) and q.get("k") == "Variant" and q.get("variant") == "NumThreads":
                    for i_, n_, path_ in F.pat_binds(q):
                        fields[i_] = path_[-1] if path_ else None
            idx = []
            for v in vs:
                src = None
                if v["id"] in fields:
                    src = fields[v["id"]]
                for s in F.walk(body):
                    if s.get("k") == "LetStmt" and s.get("pat", {}).get("k") == "Bind" and s["pat"]["id"] == v["id"] and "init" in s:
                        hit = [fields[w["id"]] for w in F.exprs(s["init"], "Var") if w["id"] in fields]
                        src = hit[0] if len(hit) == 1 else None
                idx.append(src)
            order_ok = [str(i) for i in idx] == ["0", "1", "2"]
    chk.ob("C05.threads/xyz-order", order_ok, "thread_group_size = Some((x, y, z))" if order_ok else "the recorded thread-group size no longer lists the three numthreads arguments in order", where(fn))
