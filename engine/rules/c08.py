"""C08 — compilation is total (decidable clause families only)."""
import facts as F
import mirs as M
from facts import short, where

EXPLANATION = (
    "'Never panics, never overflows the stack, finishes in polynomial time' for all byte strings is NOT decided: the "
    "workspace has several hundred assert!/unwrap/index sites whose feasibility depends on run-time invariants, and "
    "stack depth / running time are unbounded quantities (no panic-site ratchet is used: it would fire on "
    "behaviour-preserving edits). Decided are the clause families whose violation is visible in the code shape: "
    "C08.unimpl — every todo!() / unimplemented!() that is call-graph reachable from rssl::compile states 'this construct "
    "aborts'; each site is either listed with the structural reason the front end cannot reach it (re-checked where "
    "the reason is itself structural) or is reported with its trigger. C08.arith — abort inventory with taint: "
    "overflow-class Assert terminators and operator-trait calls on integer references, and unwrap() of a narrowing "
    "try_from, whose operands are reached (forward MIR dataflow) by numbers the user wrote — payloads of literal "
    "tokens, AST literals, IR constants, array lengths — in any function reachable from compile. C08.macro (MIR "
    "dominance / THIR order) — the recursive expansion of a macro body is bracketed by macro_disabled[i] = true / "
    "false, find_single_macro skips disabled macros, the argument-count test precedes the indexed argument read. "
    "C08.loop — the list combinators only loop while the element parser made progress (break on a zero-progress "
    "error, return on a partial one). C08.sibling — every dimension cast ImplicitConversion::find can construct is "
    "ranked by get_rank without aborting (shared with C16)."
)
ASSUMPTIONS = ["rustc THIR/MIR is a faithful view of the source", "dev profile overflow checks on (Assert terminators visible)"]

# (crate, function, ordinal) -> reason the site cannot be reached from user input
GUARDED = {
    ("rssl_formatter", "format_template_param_list", 0): "exporters-build-no-template-defaults",
    ("rssl_formatter", "format_template_param_list", 1): "exporters-build-no-template-defaults",
    ("rssl_formatter", "format_location_annotation", 0): "packoffset-never-parsed",
    ("rssl_hlsl", "generate_function_inner", 0): "template-value-kinds",
    ("rssl_msl", "generate_function_inner", 0): "template-value-kinds",
    ("rssl_hlsl", "generate_type_impl", 0): "type-layers-exhausted",
    ("rssl_msl", "generate_type_impl", 0): "type-layers-exhausted",
}
REASONS = {
    "exporters-build-no-template-defaults": "both exporters construct TemplateTypeParam / TemplateValueParam with `default: None` (checked)",
    "packoffset-never-parsed": "a PackOffset annotation only originates from the parser's packoffset production, which aborts first (see C08.unimpl/rssl_parser/parse_packoffset)",
    "template-value-kinds": "non-type template arguments are evaluated to Bool / IntLiteral / Int32 / UInt32 only (other value types are rejected as non-constant)",
    "type-layers-exhausted": "remaining TypeLayer variants (StructTemplate, TemplateParam) never type an exported declaration",
}


# tainted sites examined by hand where no input can reach the abort; one reason per site
NOT_DEMONSTRABLE = {
    "C08.arith/rssl_ir/process_definition/Overflow(Mul)#1": "inline-constant path: taken only when is_buffer_address(decl.type_id), i.e. the global is not an array, so slot_count == 1 and 8 * 1 cannot overflow",
    "C08.arith/rssl_ir/process_definition/Overflow(Mul)#2": "same path (vacant entry): slot_count == 1",
    "C08.arith/rssl_ir/process_definition/Overflow(Add)#0": "inline_size grows by 8 per buffer-address global: 2^29 declarations would be needed",
}


def run(chk):
    f = chk.facts
    cg = M.CallGraph(f)
    comp = chk.anchor("C08.anchor/compile", f.fn("compile", "rssl", path_contains="compile::compile"), "rssl::compile")
    if not comp:
        return
    reach = cg.reachable([comp["path"]])
    rule_unimpl(chk, reach)
    rule_arith(chk, reach)
    rule_macro(chk)
    rule_error_slices(chk)
    rule_loop(chk)
    import c16
    import interp
    c16.rule_dimension_total(chk, interp.Interp(f), prefix="C08.sibling")
    if not rule_errors_eval(chk, comp):
        rule_errors(chk, comp)
    rule_strslice(chk, reach)
    rule_locations_total(chk)
    rule_layout_total(chk)
    rule_include_depth(chk)
    rule_defined_eval(chk)
    import c18
    c18.rule_inline_constants(chk, prefix="C08.inline")     # the HLSL exporter asserts that the inline block is 8 bytes per binding: a mismatch aborts compile()
    if not rule_enum_kinds_eval(chk):
        rule_admitted_kinds(chk)
    rule_elab_total(chk)
    rule_scope_walk(chk)
    rule_pipeline_props(chk)


def rule_elab_total(chk):
    """The typer's elaboration functions read as tables over operand types (c03 / elabmodel.py): on no combination may
    the typer reach a panic, an unwrap of a failure or a failing assert, and no accepted node may be one whose type the
    IR's own typing rule (asked by the exporters) can only answer by aborting."""
    import c03
    f = chk.facts
    sv = c03.abort_survey(f, chk.tier)
    pe = f.fn("parse_expr_unchecked", "rssl_typer")
    if sv is None:
        chk.unreadable("C08.elab/readable", "the typer's elaboration functions (see C03.elab / .access / .call / .stmt / .ctor)", "a table is not readable", where(pe) if pe else "typer")
        return
    total = 0
    for fam, (cases, msgs) in sorted(sv.items()):
        total += cases
        chk.ob("C08.elab/" + fam, not msgs, "%d operand combinations: none aborts" % cases if not msgs else msgs[0], where(pe) if pe else "typer", sample={"family": fam, "cases": cases})
    chk.floor("C08.floor/elab-cases", total, 20000, "operand combinations read", where(pe) if pe else "typer")


PIPELINE_PROPS = ["BlendState", "BlendState0", "BlendState3", "BlendState7", "BlendState8", "BlendState9", "BlendStateA", "BlendState_", "BlendStatez", "BlendState10", "BlendState/",
                  "RenderTargetFormat0", "RenderTargetFormat7", "RenderTargetFormat8", "RenderTargetFormatX", "RenderTargetFormat", "RenderTargetFormat00",
                  "DepthTargetFormat", "CullMode", "WindingOrder", "DefaultBindGroup", "Foo", "", "blendstate0", "VertexShader", "ComputeShader", "MeshShader", "TaskShader"]


def rule_pipeline_props(chk):
    """parse_pipeline read on model pipeline definitions (stage and value parsers scripted): one stage property plus
    one or two state properties from a table of names - valid ones, names just outside the valid ranges, duplicates -
    for graphics and compute pipelines. Every definition gives Ok or an error value; none aborts."""
    import interp as I
    f = chk.facts
    pp = f.fn("parse_pipeline", "rssl_typer")
    if not pp:
        chk.note("C08.pipeline: parse_pipeline not found; not evaluated")
        return
    loc = lambda s_: I.Enum("Located", None, {"node": s_, "location": I.Opaque("loc")})
    prop = lambda n_: I.Enum("PipelineProperty", None, {"property": loc(n_), "value": I.Opaque("value")})

    def add_stage(a):
        p_ = a[3].get() if isinstance(a[3], I.Ref) else a[3]
        p_.fields["stages"].append(I.Enum("PipelineStage", None, {"stage": a[1]}))
        return I.Enum("Result", "Ok", {"0": ()})
    okv = lambda v: (lambda a: I.Enum("Result", "Ok", {"0": v}))
    ext = {"add_stage": add_stage, "parse_blend_state": okv(I.Opaque("blend state")), "extract_string": okv("format"), "extract_uint32": okv(1),
           "extract_cull_mode": okv(I.Opaque("cull mode")), "extract_winding_order": okv(I.Opaque("winding order"))}
    bad = None
    n = n_ok = 0
    for stage in ("PixelShader", "ComputeShader"):
        lists = [[p1] for p1 in PIPELINE_PROPS] + [[p1, p2] for p1 in ("BlendState0", "RenderTargetFormat7", "CullMode", "DepthTargetFormat") for p2 in PIPELINE_PROPS]
        for names in lists:
            n += 1
            ip = I.Interp(f, max_depth=8, extern=ext)
            ip.max_loop = 64
            d = I.Enum("PipelineDefinition", None, {"name": loc("P"), "properties": [prop(stage)] + [prop(x) for x in names]})
            ctx = I.Enum("Context", None, {"module": I.Enum("Module", None, {"pipelines": []})})
            try:
                r = ip.apply(pp, [d, ctx])
            except I.Unknown as e:
                if "panicking" in str(e):
                    bad = bad or "Pipeline { %s = ..; %s } aborts the type checker (%s)" % (stage, "; ".join("%s = .." % x for x in names), str(e)[:80])
                    continue
                chk.unreadable("C08.pipeline/readable", "parse_pipeline", e, where(pp))
                return
            if isinstance(r, I.Enum) and r.variant == "Ok":
                n_ok += 1
    # two pipelines of one name (declared at different places): the second is refused - Module::select_pipeline asserts that
    # a name selects one pipeline, so an accepted duplicate aborts compile() afterwards
    at = lambda s_, n_: I.Enum("Located", None, {"node": s_, "location": I.Enum("SourceLocation", None, {"0": n_})})
    dup = {}
    for earlier, want_err in (("P", True), ("Q", False)):
        prev = I.Enum("PipelineDefinition", None, {"name": at(earlier, 10), "stages": [], "default_bind_group_index": 0, "graphics_pipeline_state": I.Enum("Option", "None")})
        d = I.Enum("PipelineDefinition", None, {"name": at("P", 200), "properties": [prop("ComputeShader")]})
        ctx = I.Enum("Context", None, {"module": I.Enum("Module", None, {"pipelines": [prev]})})
        ip = I.Interp(f, max_depth=8, extern=ext)
        ip.max_loop = 64
        try:
            r = ip.apply(pp, [d, ctx])
            dup[earlier] = r.variant if isinstance(r, I.Enum) else repr(r)
        except I.Unknown as e:
            dup[earlier] = ("aborts" if "panicking" in str(e) else "unreadable", str(e)[:80])
    if any(isinstance(v, tuple) and v[0] == "unreadable" for v in dup.values()):
        chk.note("C08.pipeline/duplicate-name: parse_pipeline is not readable on a module that already has a pipeline (%s); not decided" % (dup,))
    else:
        okd = dup.get("P") == "Err" and dup.get("Q") == "Ok"
        chk.ob("C08.pipeline/duplicate-name", okd, "a second pipeline of the same name is refused, one of another name accepted" if okd else
               "a pipeline named P declared after another pipeline named %s: %s (a second P must be refused with a diagnostic - select_pipeline asserts that a name selects one pipeline - and a pipeline of another name accepted)"
               % ("P" if dup.get("P") != "Err" else "Q", dup.get("P") if dup.get("P") != "Err" else dup.get("Q")), where(pp))
    # an entry point that is declared but never defined (`void cs(); Pipeline P { ComputeShader = cs; }`)
    import c05
    res = c05.stage_declared_only(f)
    if res:
        unread = [v for v in res.values() if isinstance(v, tuple) and v[0] == "unreadable"]
        if unread:
            chk.note("C08.pipeline/entry-without-body: add_stage is not readable (%s); not decided" % unread[0][1])
        else:
            ab = {k: v for k, v in res.items() if isinstance(v, tuple) and v[0] == "aborts"}
            chk.ob("C08.pipeline/entry-without-body", not ab, "a stage naming a function without a body is refused or accepted, never an abort" if not ab else
                   "a pipeline stage (%s) that names a function which is declared but never defined aborts the type checker (%s)" % (sorted(ab)[0], sorted(ab.values())[0][1]), where(f.fn("add_stage", "rssl_typer")))
    chk.ob("C08.pipeline/properties", bad is None, "%d pipeline definitions (%d accepted): every property list yields a pipeline or an error value" % (n, n_ok) if bad is None else bad,
           where(pp), sample={"definitions": n, "accepted": n_ok})
    chk.floor("C08.floor/pipeline-definitions", n_ok, 20, "accepted model pipeline definitions", where(pp))


def rule_scope_walk(chk):
    """Context::walk_into_scopes read on a model scope tree (root > A > {B, enum E}, B > C): every qualified prefix of
    one, two and three names - existing and not - is resolved to its scope or to `None`, without aborting."""
    import interp as I
    f = chk.facts
    w = f.fn("walk_into_scopes", "rssl_typer")
    if not w:
        chk.note("C08.scopes: walk_into_scopes not found; not evaluated")
        return

    def scope(**syms):
        m = I.HMap()
        for name, lst in syms.items():
            m.put(name, lst)
        return I.Enum("ScopeData", None, {"symbols": m, "parent_scope": 0})
    ns = lambda i: I.Enum("ScopeSymbol", "Namespace", {"0": i})
    en = lambda i: I.Enum("ScopeSymbol", "EnumScope", {"0": i})
    fn_ = I.Enum("ScopeSymbol", "Function", {"0": I.Enum("FunctionId", None, {"0": 0})})
    scopes = [scope(A=[ns(1)], f=[fn_]), scope(B=[ns(2)], E=[en(3)], f=[fn_, fn_]), scope(C=[ns(4)], x=[fn_]), scope(P=[fn_]), scope(y=[fn_])]
    ctx = I.Enum("Context", None, {"scopes": scopes})
    loc = lambda s_: I.Enum("Located", None, {"node": s_, "location": I.Opaque("loc")})
    CASES = [(0, ["A"], 1), (0, ["A", "B"], 2), (0, ["A", "E"], 3), (0, ["A", "B", "C"], 4), (1, ["B", "C"], 4), (0, ["X"], None), (0, ["A", "X"], None),
             (0, ["A", "B", "X"], None), (0, ["f"], None), (0, ["A", "f"], None), (0, [], 0), (2, ["C"], 4), (0, ["B"], None), (0, ["A", "A"], None)]
    ip = I.Interp(f, max_depth=6, extern={})
    bad = None
    for start, names, want in CASES:
        what = "%s looked up from scope %d" % ("::".join(names) or "(no qualifier)", start)
        try:
            r = ip.apply(w, [ctx, start, [loc(n_) for n_ in names]])
        except I.Unknown as e:
            if "panicking" in str(e):
                bad = bad or "%s aborts the type checker (%s)" % (what, str(e)[:70])
                continue
            chk.unreadable("C08.scopes/readable", "walk_into_scopes", e, where(w))
            return
        got = r.fields.get("0") if isinstance(r, I.Enum) and r.variant == "Some" else (None if isinstance(r, I.Enum) and r.variant == "None" else "?")
        if got != want:
            bad = bad or "%s resolves to %s, must be %s" % (what, got, want)
    chk.ob("C08.scopes/qualified-path", bad is None, "%d qualified prefixes of depth 0..3 resolve to their scope or to nothing, none aborts" % len(CASES) if bad is None else bad, where(w))


def rule_unimpl(chk, reach):
    f = chk.facts
    per_fn = {}
    n = 0
    for b in f.bodies.values():
        if "mir" not in b:
            continue
        cfg = M.Cfg(b)
        for bb, t in cfg.calls():
            mac = t.get("mac") or ""
            cal = cfg.callee(t) or ""
            if cal.startswith("core::panicking") and ("todo" in mac.split("<") or "unimplemented" in mac.split("<")):
                # (sites in a helper the reference tree does not know are listed under the function that calls it, after its own)
                own_ = f.site_owner(b.get("parent") or b["path"])
                per_fn.setdefault((b["crate"], own_), []).append(((b.get("parent") or b["path"]) != own_, b["file"], t.get("ln") or 0, bb, t, b))
    for (crate_, owner), sites in sorted(per_fn.items()):
        for i, (_h, _f, ln, bb, t, b) in enumerate(sorted(sites, key=lambda x: x[:3])):
            n += 1
            fn = short(owner)
            key = (b["crate"], fn, i)
            kstr = "C08.unimpl/%s/%s#%d" % (b["crate"], fn, i)
            if owner not in reach:
                chk.ob(kstr, True, "not reachable from compile", where(b, ln), trivial=True)
                continue
            if key in GUARDED:
                r = GUARDED[key]
                ok, detail = check_reason(f, r)
                chk.ob(kstr, ok, "reachable in the call graph, guarded: %s" % REASONS[r] if ok else
                       "the recorded reason no longer holds (%s): %s" % (r, detail), where(b, ln), sample={"site": kstr, "reason": r})
            else:
                kind = "unimplemented!()" if "unimplemented" in (t.get("mac") or "") else "todo!()"
                chk.ob(kstr, False, "%s reachable from rssl::compile: this construct aborts the compiler instead of producing a diagnostic" % kind,
                       where(b, ln), sample={"site": kstr})
    chk.floor("C08.floor/unimpl-sites", n, 8, "todo!/unimplemented! sites in the workspace")


def check_reason(f, r):
    if r == "exporters-build-no-template-defaults":
        bad = []
        for crate in ("rssl_hlsl", "rssl_msl"):
            for b in f.crates[crate]["bodies"]:
                if "thir" not in b:
                    continue
                for a in F.exprs(b["thir"], "Adt"):
                    if short(a["adt"]) in ("TemplateTypeParam", "TemplateValueParam"):
                        fl = {x["f"]: x["e"] for x in a["fields"]}
                        d = F.adt_ctor(fl.get("default", {}))
                        if not (d and d[1] == "None"):
                            bad.append("%s:%s" % (b["file"], a.get("ln")))
        return (not bad), "template parameter with a default built at %s" % bad[:3]
    if r == "packoffset-never-parsed":
        # the only constructors of LocationAnnotation::PackOffset outside the exporters are in the parser behind parse_packoffset
        pp = f.fn("parse_packoffset", "rssl_parser")
        if not pp:
            return False, "parse_packoffset not found"
        aborts = any((c.get("fn") or "").startswith("core::panicking") for c in F.exprs(pp["thir"], "Call"))
        return aborts, "parse_packoffset now returns (the formatter's PackOffset arm becomes reachable)"
    return True, ""


def rule_arith(chk, reach):
    f = chk.facts
    per = {}
    n_fn = 0
    for b in f.bodies.values():
        if "mir" not in b:
            continue
        owner = b.get("parent") or b["path"]
        if owner not in reach or b["crate"] == "metal_invoker":
            continue
        cfg = M.Cfg(b)
        ab = M.abort_sites(cfg)
        unwraps = []
        for bb, t in cfg.calls():
            cal = cfg.callee_generic(t) or ""
            if cal.endswith(("Result::<T, E>::unwrap", "Result::<T, E>::expect")):
                p = M.op_place(t["args"][0])
                if p is not None:
                    src = cfg.defs().get(M._place_local(p), [])
                    if len(src) == 1 and src[0][0] == "call" and (cfg.callee_generic(src[0][3]) or "").endswith("TryFrom::try_from"):
                        unwraps.append((bb, "unwrap(try_from)", t.get("ln"), src[0][3]["args"]))
        if not ab and not unwraps:
            continue
        n_fn += 1
        tl = M.tainted_locals(cfg)
        own_ = f.site_owner(owner)
        sites = per.setdefault((b["crate"], own_), [])
        for bb, kind, ln, ops in ab + unwraps:
            locs = [M._place_local(M.op_place(o)) for o in ops if M.op_place(o) is not None]
            if not any(l in tl for l in locs):
                continue
            if kind == "OverflowNeg" and locs and M.known_nonnegative(cfg, locs[0]):
                continue
            if kind.startswith(("Overflow(Add)", "Overflow(Sub)", "Overflow(Mul)")) and " via " not in kind and M.bounded_by_bool_cast(cfg, ops):
                continue      # (bool as int) op small constant cannot overflow
            sites.append((owner != own_, b["file"], ln or 0, kind.split(" via ")[0], b))
    for (crate_, owner), sites in sorted(per.items()):
        # (sites in a helper the reference tree does not know are listed under the function that calls it, after its own)
        sites = sorted(sites, key=lambda x: x[:4])
        for i, (_h, _f, ln, kind, b) in enumerate(sites):
            fn = short(owner)
            kstr = "C08.arith/%s/%s/%s#%d" % (b["crate"], fn, kind, sum(1 for x2 in sites[:i] if x2[3] == kind))
            if kstr in NOT_DEMONSTRABLE:
                chk.ob(kstr, True, "tainted but not demonstrable: " + NOT_DEMONSTRABLE[kstr], where(b, ln))
                continue
            chk.ob(kstr, False, "%s on a number written by the user (literal / constant / array length) can abort the compiler" % kind,
                   where(b, ln), sample={"fn": fn, "abort": kind})
    chk.ob("C08.arith/inventory", True, "%d reachable functions contain overflow-capable arithmetic or unwrap(try_from); tainted sites are listed individually" % n_fn,
           "workspace", trivial=True)
    chk.floor("C08.floor/arith-functions", n_fn, 20, "reachable functions with overflow-capable arithmetic")


def rule_macro(chk, evaluate=True):
    """Termination of macro expansion. apply_macros is read as a table (c12.rule_expand_eval: self-referential, mutually
    referential and argument-borne recursion, argument counts); the MIR / THIR shape rules below decide only when that
    table is not readable."""
    f = chk.facts
    PP = "rssl_preprocess"
    if evaluate:
        import c12

        class Px:
            def __init__(self, chk):
                self.chk, self.facts = chk, chk.facts

            def _k(self, key):
                return key.replace("C12.expand/", "C08.macro/expand/").replace("C12.floor/", "C08.floor/c12-")

            def ob(self, key, ok, why="", where=None, trivial=False, sample=None):
                return self.chk.ob(self._k(key), ok, why, where, trivial, sample)

            def floor(self, key, count, floor, what, where=None):
                return self.chk.floor(self._k(key), count, floor, what, where)

            def unreadable(self, key, what, reason, where=None):
                return self.chk.unreadable(self._k(key), what, reason, where)

            def note(self, t):
                self.chk.note(t)
        if c12.rule_expand_eval(Px(chk)):
            return
    asm = chk.anchor("C08.anchor/apply_single_macro", f.fn("apply_single_macro", PP), "apply_single_macro")
    fsm = chk.anchor("C08.anchor/find_single_macro", f.fn("find_single_macro", PP), "find_single_macro")
    if asm:
        cfg = M.Cfg(asm)
        # stores into macro_disabled[idx]: statements whose destination is an Index projection of the macro_disabled param
        md = [i for i in range(1, cfg.mir["argc"] + 1) if cfg.local_name(i) == "macro_disabled"]
        stores = []
        for i, b in enumerate(cfg.blocks):
            for s in b["s"]:
                d = s["d"]
                if isinstance(d, dict) and any(isinstance(p, dict) and "idx" in p for p in d["p"]) and s.get("r") == "Use":
                    k = M.op_const(s["x"])
                    if k is not None and isinstance(k.get("v"), bool):
                        sig = cfg.slice([d["l"]], through_calls=False)
                        if md and (md[0] in sig.locals or d["l"] == md[0]):
                            stores.append((i, k["v"], s.get("ln")))
        rec = cfg.calls("apply_macros_internal")
        t_st = [x for x in stores if x[1] is True]
        f_st = [x for x in stores if x[1] is False]
        ok = bool(rec) and len(t_st) == 1 and len(f_st) == 1
        if ok:
            rb = rec[0][0]
            ok = cfg.dominates(t_st[0][0], rb) and cfg.dominates(rb, f_st[0][0])
        chk.ob("C08.macro/disable-bracket", ok,
               "macro_disabled[i] = true dominates the recursive expansion, = false follows it" if ok else
               "the recursive expansion of a macro body is no longer bracketed by macro_disabled[i] = true ... = false "
               "(self-referential macros would recurse without bound) [stores: %s]" % [(v, ln) for _, v, ln in stores], where(asm),
               sample={"true_store": t_st[:1], "false_store": f_st[:1]})
        if rec:
            a = rec[0][1]["args"]
            p = M.op_place(a[2]) if len(a) > 2 else None
            same = p is not None and md and md[0] in cfg.slice([M._place_local(p)], through_calls=False).locals | {M._place_local(p)}
            chk.ob("C08.macro/shared-disable-state", bool(same), "the body is rescanned with the same macro_disabled state" if same else
                   "the rescan of the macro body does not receive the caller's macro_disabled state", where(asm))
        # every re-entry into the expander from here (body rescan, expansion of the arguments) carries the disabled set
        cg = M.CallGraph(f)
        md_ids = {p_["id"] for p_ in F.walk(asm["thir"]) if isinstance(p_, dict) and p_.get("k") == "Var" and p_.get("name") == "macro_disabled" and not p_.get("upvar")}
        reenter = []
        for b in [asm] + f.closures_of(asm["path"]):
            for c in F.exprs(b["thir"], "Call"):
                callee = c.get("rfn") or c.get("fn")
                if not callee or callee not in f.bodies or asm["path"] not in cg.reachable([callee]):
                    continue
                carried = any(isinstance(x, dict) and x.get("k") == "Var" and x.get("id") in md_ids for a_ in c.get("args", []) for x in F.walk(a_))
                reenter.append((short(callee), carried, c.get("ln")))
        lost = [r for r in reenter if not r[1]]
        chk.ob("C08.macro/arguments-keep-disabled", bool(reenter) and not lost,
               "all %d re-entries into the expander (body rescan, argument expansion) receive the caller's macro_disabled set" % len(reenter) if reenter and not lost else
               "apply_single_macro re-enters the expander through %s without its macro_disabled set: a macro that is being expanded is expanded again inside the arguments of a "
               "function-like macro (#define F(x) x / #define A F(A) / A never terminates)" % sorted({r[0] for r in lost}), where(asm),
               sample={"re_entries": [(r[0], r[1]) for r in reenter]})
        # arity guard before args[i]
        errs = [i for i, j, s in cfg.stmts(lambda s: s.get("r") == "Agg" and s.get("variant") == "MacroExpectsDifferentNumberOfArguments")]
        chk.ob("C08.macro/arity-guard", len(errs) >= 2, "argument count mismatches are rejected before substitution (%d sites)" % len(errs) if len(errs) >= 2 else
               "the macro argument-count rejection is gone (args[i] can index out of bounds)", where(asm))
    if fsm:
        cfg = M.Cfg(fsm)
        sites = [i for i, j, s in cfg.stmts(lambda s: s.get("r") == "Agg" and short(s.get("adt", "")) == "FoundMacro" and s.get("variant") == "User")]

        def reads_disabled(src):
            if src[0] == "multi":
                return False
            return False
        # the read of macro_disabled[idx] feeds a switch; the User construction must be on its false edge
        md = [i for i in range(1, cfg.mir["argc"] + 1) if cfg.local_name(i) == "macro_disabled"]
        guard_edges = []
        for bb, p, t_true, t_false in M.bool_switches(cfg):
            if isinstance(p, int):
                ds = cfg.defs().get(p, [])
                if len(ds) == 1 and ds[0][0] == "stmt" and ds[0][3].get("r") == "Use":
                    pl = M.op_place(ds[0][3]["x"])
                    if pl is not None and not isinstance(pl, int) and any(isinstance(q, dict) and "idx" in q for q in pl["p"]):
                        base = cfg.slice([pl["l"]], through_calls=False).locals | {pl["l"]}
                        if md and md[0] in base:
                            guard_edges.append((bb, t_false))
        ok = bool(sites) and bool(guard_edges)
        if ok:
            reach = cfg.reachable_from(0, avoid_edges=guard_edges)
            ok = all(s not in reach for s in sites)
        chk.ob("C08.macro/skip-disabled", ok, "FoundMacro::User is returned only for macros whose disabled flag is false" if ok else
               "find_single_macro can return a macro whose macro_disabled flag is set (recursive macros expand forever)", where(fsm))


def rule_error_slices(chk):
    """A belief and a producer that contradicts it: assertions that the slice carried by a lexer error lies inside the
    input (pointer-range comparisons) against error constructors that carry a slice from elsewhere (end_of_stream()
    carries a literal empty slice). Either no constructor does that, or every such assertion lets the empty slice through."""
    f = chk.facts
    PP = "rssl_preprocess"
    foreign, asserts = [], []
    for b in f.bodies.values():
        if b.get("crate") != PP or "thir" not in b:
            continue
        for a in F.exprs(b["thir"], "Adt"):
            if short(a.get("adt") or "") != "LexErrorContext":
                continue
            f0 = [x["e"] for x in a.get("fields", []) if x.get("f") == "0"]
            if f0 and not any(isinstance(x, dict) and x.get("k") in ("Var", "Field", "Index", "Call") for x in F.walk(f0[0])):
                foreign.append((b, a))
        for e in F.exprs(b["thir"], "If"):
            if not e.get("mac") or "assert" not in str(e.get("mac")):
                continue
            calls = [short(c.get("fn") or "") for c in F.exprs(e.get("cond"), "Call")]
            if "as_ptr_range" in calls:
                asserts.append((b, e, "is_empty" in calls or "len" in calls))
    strict = [(b, e) for b, e, esc in asserts if not esc]
    ok = not (foreign and strict)
    chk.ob("C08.lexer/error-slice-provenance", ok,
           "%d lexer error constructor(s) carry a slice that is not part of the input; the %d pointer-range assertions on error slices all let an empty slice through" % (len(foreign), len(asserts))
           if ok else "%s asserts that the slice of a lexer error lies inside the input (pointer ranges), but %s builds the error with a slice from elsewhere: input that ends inside a token "
           "(an unterminated /* comment, `0x` at the end of the file) panics in builds with debug assertions" % (short(strict[0][0]["path"]), short(foreign[0][0]["path"])),
           where(strict[0][0], strict[0][1]) if strict else PP, sample={"foreign_constructors": len(foreign), "pointer_assertions": len(asserts), "unguarded": len(strict)})


def rule_combinators_eval(chk, plb, po):
    """parse_list_base / parse_optional evaluated with scripted element and separator parsers over short token lists:
    a list ends before a trailing separator, an element that fails after consuming input fails the list, an element
    that fails without consuming input ends it, an empty list is accepted only when allowed; the loop always ends.
    Returns True when readable."""
    import interp as I
    f = chk.facts

    def err(rest):
        return I.Enum("Result", "Err", {"0": I.Enum("ParseErrorContext", None, {"0": rest, "1": I.Opaque("reason"), "2": I.Opaque("where")})})

    def element(a):
        inp = a[0]
        if inp and inp[0] == 1:
            return I.Enum("Result", "Ok", {"0": (inp[1:], "e")})
        if inp and inp[0] == 2:
            return err(inp[1:])         # consumed a token, then failed
        return err(inp)                 # no progress

    def sep(a):
        inp = a[0]
        if inp and inp[0] == 0:
            return I.Enum("Result", "Ok", {"0": (inp[1:], ())})
        return err(inp)

    def outcome(r):
        if isinstance(r, I.Enum) and r.variant == "Ok":
            rest, v = r.fields["0"]
            if isinstance(v, I.Enum) and v.adt == "Option":
                v = "Some" if v.variant == "Some" else "None"
            return ("Ok", list(rest), v)
        if isinstance(r, I.Enum) and r.variant == "Err":
            return ("Err",)
        return repr(r)
    ip = I.Interp(f, max_depth=8)
    ip.max_loop = 50
    try:
        lst = {ae: ip.apply(plb, [sep, element, ae]) for ae in (True, False)}
        opt = ip.apply(po, [element])
        cases = [([1, 0, 1, 0, 1, 9], ("Ok", [9], ["e", "e", "e"])), ([1, 0, 9], ("Ok", [0, 9], ["e"])), ([1], ("Ok", [], ["e"])), ([1, 0, 2, 5], ("Err",)), ([2, 5], ("Err",)), ([1, 1], ("Ok", [1], ["e"]))]
        bad = []
        for ae in (True, False):
            for inp, want in cases + [([9], ("Ok", [9], []) if ae else ("Err",)), ([], ("Ok", [], []) if ae else ("Err",))]:
                got = outcome(ip.call_callable(lst[ae], [list(inp)], 0))
                if got != want:
                    bad.append("list(allow_empty=%s) on %s gives %s, must be %s" % (ae, inp, (got,), (want,)))
        chk.ob("C08.loop/parse_list_base", not bad, "list combinator: 16 scripted inputs end with the right result; the loop stops on zero-progress failure and fails on partial failure" if not bad else
               "parse_list_base: %s" % bad[0], where(plb))
        bad = []
        for inp, want in (([1, 7], ("Ok", [7], "Some")), ([9, 1], ("Ok", [9, 1], "None")), ([2, 1], ("Err",)), ([], ("Ok", [], "None"))):
            got = outcome(ip.call_callable(opt, [list(inp)], 0))
            if got != want:
                bad.append("optional on %s gives %s, must be %s" % (inp, (got,), (want,)))
        chk.ob("C08.loop/parse_optional", not bad, "optional: None only on zero-progress failure, partial failures propagate" if not bad else "parse_optional: %s" % bad[0], where(po))
        return True
    except I.Unknown as e:
        if "does not end" in str(e) or "panicking" in str(e):
            chk.ob("C08.loop/parse_list_base", False, "the list combinator does not terminate / aborts on a scripted input: %s" % e, where(plb))
            return True
        return False


def rule_loop(chk):
    f = chk.facts
    plb = chk.anchor("C08.anchor/parse_list_base", f.fn("parse_list_base", "rssl_parser"), "parse_list_base")
    po0 = f.fn("parse_optional", "rssl_parser")
    evaluated = False
    if plb and po0:
        try:
            evaluated = rule_combinators_eval(chk, plb, po0)
        except Exception as e:
            chk.note("parser combinators not evaluated: %r" % (e,))
    if plb and not evaluated:
        ok = False
        for cb in f.closures_of(plb["path"]):
            for lp in F.exprs(cb["thir"], "Loop"):
                brk = ret = adv = False
                for m in F.exprs(lp["body"], "Match"):
                    for arm in m["arms"]:
                        pv = F.pat_variant(arm["pat"])
                        if pv == ("Result", "Ok") and any(True for _ in F.exprs(arm["body"], "Assign")):
                            adv = True
                        if pv == ("Result", "Err"):
                            g = arm.get("guard")
                            if g is not None and any(x.get("k") == "Break" for x in F.walk(arm["body"])):
                                lens = [c for c in F.exprs(g, "Call") if short(c.get("fn") or "") == "len"]
                                brk = len(lens) == 2 and F.strip(g).get("k") == "Binary" and F.strip(g)["op"] == "Eq"
                            if g is None and any(x.get("k") == "Return" for x in F.walk(arm["body"])):
                                ret = True
                ok = ok or (brk and ret and adv)
        chk.ob("C08.loop/parse_list_base", ok, "list loop: advance on Ok, break on zero-progress Err, return on partial Err" if ok else
               "parse_list_base's loop no longer distinguishes zero-progress failure (break) from partial failure (return)", where(plb))
    po = chk.anchor("C08.anchor/parse_optional", f.fn("parse_optional", "rssl_parser"), "parse_optional")
    if po and not evaluated:
        ok = False
        for cb in f.closures_of(po["path"]):
            for m in F.exprs(cb["thir"], "Match"):
                g_ok = e_ok = False
                for arm in m["arms"]:
                    if F.pat_variant(arm["pat"]) == ("Result", "Err"):
                        g = arm.get("guard")
                        if g is not None:
                            lens = [c for c in F.exprs(g, "Call") if short(c.get("fn") or "") == "len"]
                            t = F.adt_ctor(F.tail(arm["body"]))
                            g_ok = len(lens) == 2 and bool(t) and t[1] == "Ok"
                        else:
                            t = F.adt_ctor(F.tail(arm["body"]))
                            e_ok = bool(t) and t[1] == "Err"
                ok = ok or (g_ok and e_ok)
        chk.ob("C08.loop/parse_optional", ok, "optional: None only on zero-progress failure, partial failures propagate" if ok else
               "parse_optional no longer propagates partial failures", where(po))
    for crate, name in (("rssl_parser", "parse_binary_operations_st"), ("rssl_preprocess", "parse_binary_operations")):
        fn = f.fn(name, crate)
        if not chk.anchor("C08.anchor/%s::%s" % (crate, name), fn, name):
            continue
        # while let Ok((rest, op)) = operator_fn(input) { let (rest, right) = expression_fn(rest)?; input = rest; }
        ok = False
        for lp in F.exprs(fn["thir"], "Loop"):
            asg = [a for a in F.exprs(lp["body"], "Assign") if F.strip(a["l"]).get("k") == "Var"]
            brk = any(x.get("k") == "Break" for x in F.walk(lp["body"]))
            tries = [m for m in F.exprs(lp["body"], "Match") if m.get("src", "").startswith("TryDesugar")]
            ok = ok or (bool(asg) and brk and bool(tries))
        chk.ob("C08.loop/%s" % name, ok, "operator loop consumes an operator and an operand per iteration or stops" if ok else
               "%s's loop no longer advances the input / propagates operand errors" % name, where(fn))


def rule_errors_eval(chk, comp):
    """compile() walked with scripted stages: when the preprocessor, the parser, the type checker, the layout checker
    or the exporter fails, compile returns CompileError::Text with that stage's rendered diagnostic, and no later stage
    runs. True when readable."""
    import compilemodel as CMP
    f = chk.facts
    ORDER = ["preprocess", "prepare_tokens", "parse", "type_check", "check_layout", "build_pipeline"]
    for stage, key in (("preprocess", "preprocess::preprocess"), ("parse", "parser::parse"), ("type_check", "type_check"), ("check_layout", "check_layout"), ("build_pipeline", "export")):
        bad = None
        for tgt in (f.variants("Target", "rssl") or ["HlslForDirectX"]):
            r = CMP.run_compile(f, comp, CMP.Scenario(target=tgt, fail=stage))
            if r.result[0] == "unreadable":
                chk.note("C08.errors: compile() is not readable (%s); the shape rule decides" % r.result[1])
                return False
            after = [c for c in r.calls if c in ORDER and ORDER.index(c) > ORDER.index(stage)]
            text = r.result[2] if len(r.result) > 2 else None
            rendered = isinstance(text, str) and (stage in text or stage == "build_pipeline")
            if r.result[0] == "aborts":
                bad = bad or "%s: a failing %s aborts compile (%s)" % (tgt, stage, r.result[1])
            elif r.result[:2] != ("Err", "Text") or not rendered:
                bad = bad or "%s: a failing %s gives %s instead of CompileError::Text with its rendered diagnostic" % (tgt, stage, r.result)
            elif after:
                bad = bad or "%s: after a failing %s the stages %s still run" % (tgt, stage, after)
        chk.ob("C08.errors/%s" % key, bad is None, "a failing %s is returned as its rendered diagnostic; nothing runs after it" % stage if bad is None else bad, where(comp))
    chk.floor("C08.floor/error-renderers", 4, 4, "stage failures rendered (decided by the evaluated scenarios)", where(comp))
    return True


def rule_errors(chk, comp):
    """Every stage result is matched and its Err mapped to CompileError::Text via display()."""
    cfg = M.Cfg(comp)
    stages = ["preprocess::preprocess", "parser::parse", "type_check", "check_layout"]
    disp = cfg.calls("CompileErrorExt::display") + cfg.calls("::display")
    # a private helper that renders the error (`fn make_text_error(err, sm) -> CompileError`) counts at each of its call sites
    f = chk.facts
    helpers = {b["path"] for b in f.crates[comp["crate"]]["bodies"] if "thir" in b and b["path"] != comp["path"] and
               any(short(c.get("fn") or "") == "display" for c in F.exprs(b["thir"], "Call"))}
    disp += [(bb, t) for bb, t in cfg.calls() if cfg.callee(t) in helpers]
    chk.floor("C08.floor/error-renderers", len({bb for bb, _ in disp}), 3, "err.display(&source_manager) renderings in compile", where(comp))
    for s in stages:
        sites = cfg.calls(s)
        ok = False
        for bb, t in sites:
            d = M._place_local(t["d"])
            # the result must be inspected (discriminant read) rather than unwrapped
            inspected = any(st.get("r") == "Discr" and M._place_local(st["p"]) in (cfg.slice_forward([d]) if hasattr(cfg, "slice_forward") else {d})
                            for _, _, st in cfg.stmts())
            unwrapped = any((cfg.callee_generic(t2) or "").endswith(("::unwrap", "::expect")) and M.op_place(t2["args"][0]) is not None
                            and M._place_local(M.op_place(t2["args"][0])) == d for _, t2 in cfg.calls())
            ok = inspected and not unwrapped
        chk.ob("C08.errors/%s" % s, ok, "result is matched, the error is rendered" if ok else
               "the result of %s is unwrapped or ignored instead of being turned into CompileError::Text" % s, where(comp))


# ------------------------------------------------------------------ str slicing

def rule_render_source_line(chk):
    """SourceManager::write_source_for_error evaluated (finite-map reader with modelled strings) on a file whose lines
    hold multi-byte characters, for an error at every character position: rendering the source line never aborts.
    Returns True when the function was readable (the shape rule on str slices is then not needed for it)."""
    import interp as I
    f = chk.facts
    new = f.fn("new", "rssl_text", self_ty="SourceManager")
    add = f.fn("add_file", "rssl_text")
    w = f.fn("write_source_for_error", "rssl_text")
    if not (new and add and w):
        return False
    ip = I.Interp(f, max_depth=8)
    ip.max_loop = 4096
    texts = ["ab\nx" + "\u00e9" * 400 + "\nq", "\u20ac" * 150 + "z", "y" + "\U0001F600" * 120, ""]
    try:
        sm = ip.apply(new, [])
        for i, c in enumerate(texts):
            ip.apply(add, [sm, I.Enum("FileName", None, {"0": "f%d" % i}), c])
    except I.Unknown:
        return False
    base = 0
    n = 0
    bad = []
    for c in texts:
        b = c.encode("utf-8")
        bounds = [o for o in range(len(b) + 1) if not (o < len(b) and (b[o] & 0xC0) == 0x80)]     # tokens start on character boundaries
        for o in bounds[:8] + bounds[8:-3:41] + bounds[-3:]:
            n += 1
            try:
                ip.apply(w, [sm, I.Opaque("formatter"), I.Enum("Option", "Some", {"0": I.Enum("SourceLocation", None, {"0": base + o})})])
            except I.Unknown as e:
                if "panicking" not in str(e):
                    return False    # not readable: leave it to the shape rule
                bad.append((o, str(e)))
        base += len(b) + 1
    ok = not bad
    chk.ob("C08.strslice/write_source_for_error/render", ok,
           "%d error positions in lines with multi-byte characters: the source line is rendered without aborting" % n if ok else
           "rendering the source line for an error at byte %d aborts (%s): with non-ASCII text on the line, compile() panics while printing a diagnostic (%d of %d positions)"
           % (bad[0][0], bad[0][1][:120], len(bad), n), where(w), sample={"positions": n, "aborting": len(bad)})
    return True


def rule_locations_total(chk):
    """Every diagnostic is rendered through SourceManager::get_file_location / get_file_offset_from_source_location.
    Both are evaluated on a three-file model for every location a token or an error can carry - every byte of every
    file, each file's end-of-file slot, and the first location after the last file: none may abort."""
    import interp as I
    f = chk.facts
    new = f.fn("new", "rssl_text", self_ty="SourceManager")
    add = f.fn("add_file", "rssl_text")
    gfl = f.fn("get_file_location", "rssl_text")
    gfo = f.fn("get_file_offset_from_source_location", "rssl_text")
    if not (new and add and gfl and gfo):
        chk.unreadable("C08.locations/readable", "SourceManager::new / add_file / get_file_location", "function not found", "rssl_text")
        return
    ip = I.Interp(f, max_depth=8)
    files = [("a.rssl", "ab\ncd"), ("empty.rssl", ""), ("c.rssl", "x\n\ny\n")]
    try:
        sm = ip.apply(new, [])
        for nm, c in files:
            ip.apply(add, [sm, I.Enum("FileName", None, {"0": nm}), c])
    except I.Unknown as e:
        chk.unreadable("C08.locations/readable", "SourceManager::add_file on the three-file model", str(e)[:100], where(add))
        return
    total = sum(len(c) + 1 for _, c in files)
    for key, fn_ in (("get_file_location", gfl), ("get_file_offset_from_source_location", gfo)):
        aborts, unread = [], None
        for loc in range(total + 1):
            try:
                ip.apply(fn_, [sm, I.Enum("SourceLocation", None, {"0": loc})])
            except I.Unknown as e:
                if "abort" in str(e) or "panicking" in str(e) or "overflow" in str(e):
                    aborts.append((loc, str(e)[:80]))
                else:
                    unread = unread or str(e)[:100]
        if unread and not aborts:
            chk.unreadable("C08.locations/" + key, "%s on the three-file model" % key, unread, where(fn_))
            continue
        chk.ob("C08.locations/" + key, not aborts, "%d locations (every byte, every end-of-file slot, one past the end) decode without aborting" % (total + 1) if not aborts else
               "%s aborts for location %d of a three-file source manager (%s): compile() panics while rendering a diagnostic at that position (%d of %d locations)"
               % (key, aborts[0][0], aborts[0][1], len(aborts), total + 1), where(fn_), sample={"locations": total + 1, "aborting": len(aborts)})


def rule_layout_total(chk):
    """The layout checker does not abort: get_type_layout and check_layout evaluated (layoutmodel.py) on element types
    that are legal but degenerate - a struct without members, alone, nested and next to data; one-element vectors and
    arrays - in both packing modes (division by an alignment of zero, index into an empty member list)."""
    import layoutmodel as LM
    f = chk.facts
    m = LM.LayoutModel(f)
    if not (m.gl and m.cl):
        return
    f1 = m.scalar("Float32")
    f3 = m.vector(f1, 3)
    e0 = m.struct([])
    types = {"{}": e0, "{ {} }": m.struct([e0]), "{ {}; float3 }": m.struct([e0, f3]), "{ float3; {} }": m.struct([f3, e0]), "{ {}[2] }": m.struct([m.array(e0, 2)]),
             "float1": m.vector(f1, 1), "{ float[1] }": m.struct([m.array(f1, 1)]), "{ const {} }": m.struct([m.modifier(e0)])}
    bad = None
    n = 0
    for name, i in types.items():
        for mode in ("HlslStructuredBuffer", "Metal"):
            r = m.layout(i, mode)
            n += 1
            if isinstance(r, tuple) and r and r[0] == "aborts":
                bad = bad or "get_type_layout aborts on %s in %s packing (%s)" % (name, mode, r[1][:80])
            elif isinstance(r, tuple) and r and r[0] == "unreadable":
                chk.unreadable("C08.layout/no-abort", "get_type_layout on the layout model", r[1][:100], where(m.gl))
                return
        for obj in ("StructuredBuffer", "RWStructuredBuffer"):
            r = m.check([m.object(obj, i)])
            n += 1
            if r[0] == "aborts":
                bad = bad or "check_layout aborts on %s<%s> (%s): with layout validation on, compile() panics on a program that uses a struct without data as a buffer element" % (obj, name, r[1][:80])
            elif r[0] == "unreadable":
                chk.unreadable("C08.layout/no-abort", "check_layout on the layout model", r[1][:100], where(m.cl))
                return
    chk.ob("C08.layout/no-abort", bad is None, bad or "%d evaluations on degenerate element types: no abort" % n, where(m.cl), sample={"evaluations": n})


def rule_include_depth(chk):
    """#include nesting is bounded: the include directive is evaluated (c12.DirectiveModel) with a file loader that is
    already a million files deep - it must refuse instead of opening another file (a file that includes itself would
    otherwise recurse until the stack runs out) - and at depth 0, where the included file must see the depth raised and
    the caller must find it restored afterwards."""
    import c12
    dm = c12.DirectiveModel(chk.facts)
    if not dm.pc:
        return
    inc = dm.words("include", '"a.h"')
    deep = dm.run(inc, [], [], True, include_depth=1000000)
    flat = dm.run(inc, [], [], True, include_depth=0)
    if deep[0] == "unreadable" or flat[0] == "unreadable":
        chk.unreadable("C08.include/bounded", "the include directive on the directive model", (deep if deep[0] == "unreadable" else flat)[1], where(dm.pc))
        return
    bad = None
    if deep[0] == "aborts" or flat[0] == "aborts":
        bad = "the include directive aborts (%s)" % ((deep if deep[0] == "aborts" else flat)[1])
    elif not deep[0].startswith("Err") or any(e[0] == "included" for e in deep[3]):
        bad = "a million files deep, `#include` still opens the next file (result %s): nothing bounds the nesting, so a file that includes itself recurses until the stack overflows" % deep[0]
    elif flat[0] != "Ok" or not any(e[0] == "included" for e in flat[3]):
        bad = "at nesting depth 0 `#include` gives %s without processing the file" % flat[0]
    else:
        seen = [e[1] for e in flat[3] if e[0] == "included"]
        if seen and isinstance(seen[0], int) and seen[0] != 1:
            bad = "the included file is processed with nesting depth %s recorded, must be 1" % seen[0]
    chk.ob("C08.include/bounded", bad is None, bad or "refused when too deep; depth raised while the included file is processed", where(dm.pc))


def rule_defined_eval(chk, prefix="C08.macro/defined"):
    """`defined` inside an #if line, read through apply_macros (apply_defined = true) on token lists whose tokens carry
    source locations: `defined X` / `defined(X)` become 1 or 0 by whether X is a macro; and a `defined` that comes out of
    a macro whose body sits in a file registered LATER than the #if line (a header) must not abort - the replacement
    token's span is computed by subtracting locations, which only makes sense inside one line."""
    import interp as I
    f = chk.facts
    am = f.fn("apply_macros", "rssl_preprocess")
    if not am:
        return False
    pos = [0]

    def tok(k, v=None, base=0):
        pos[0] += 2
        a = base + pos[0]
        return I.Enum("PreprocessToken", None, {"0": I.Enum("Token", k, {} if v is None else {"0": v}),
                                                "1": I.Enum("PreprocessTokenData", None, {"start_location": I.Enum("SourceLocation", None, {"0": a}), "end_location": I.Enum("SourceLocation", None, {"0": a + 1})})})
    idt = lambda s_, base=0: tok("Id", I.Enum("Identifier", None, {"0": s_}), base)
    macro = lambda name, body, fn_=False, np_=0: I.Enum("Macro", None, {"name": name, "is_function": fn_, "num_params": np_, "tokens": body, "location": I.Enum("SourceLocation", None, {"0": 1000})})
    HDR = 5000      # tokens of a macro body defined in a header: the header is registered after the file with the #if line
    X = macro("X", [tok("LiteralInt", 1, HDR)])
    wrap = macro("IS_ENABLED", [tok("LeftParen", None, HDR), idt("defined", HDR), tok("Whitespace", None, HDR), tok("MacroArg", 0, HDR), tok("RightParen", None, HDR)], True, 1)
    wrap2 = macro("HAS", [idt("defined", HDR), tok("LeftParen", None, HDR), tok("MacroArg", 0, HDR), tok("RightParen", None, HDR)], True, 1)
    obj = macro("HAS_X", [idt("defined", HDR), tok("LeftParen", None, HDR), idt("X", HDR), tok("RightParen", None, HDR)])
    cases = [
        ("defined X (macro)", [idt("defined"), tok("Whitespace"), idt("X")], [X], [("LiteralInt", 1)]),
        ("defined(X) (macro)", [idt("defined"), tok("LeftParen"), idt("X"), tok("RightParen")], [X], [("LiteralInt", 1)]),
        ("defined(Q) (not a macro)", [idt("defined"), tok("LeftParen"), idt("Q"), tok("RightParen")], [X], [("LiteralInt", 0)]),
        ("defined Q || defined X", [idt("defined"), tok("Whitespace"), idt("Q"), tok("VerticalBarVerticalBar"), idt("defined"), tok("Whitespace"), idt("X")], [X],
         [("LiteralInt", 0), ("VerticalBarVerticalBar", None), ("LiteralInt", 1)]),
        ("IS_ENABLED(FOO) with #define IS_ENABLED(f) (defined f) from a header", [idt("IS_ENABLED"), tok("LeftParen"), idt("FOO"), tok("RightParen")], [X, wrap], None),
        ("HAS(X) with #define HAS(f) defined(f) from a header", [idt("HAS"), tok("LeftParen"), idt("X"), tok("RightParen")], [X, wrap2], None),
        ("HAS_X with #define HAS_X defined(X) from a header", [idt("HAS_X")], [X, obj], None),
        # outside #if / #elif (apply_defined = false) `defined` is an ordinary word; X is still replaced
        ("text: defined X", [idt("defined"), tok("Whitespace"), idt("X")], [X], [("Id", None), ("LiteralInt", 1)]),
        ("text: defined(Q)", [idt("defined"), tok("LeftParen"), idt("Q"), tok("RightParen")], [X], [("Id", None), ("LeftParen", None), ("Id", None), ("RightParen", None)]),
    ]
    bad_val = bad_abort = bad_text = None
    n = 0
    for name, toks, macros, want in cases:
        ip = I.Interp(f, max_depth=24)
        ip.max_loop = 512
        try:
            r = ip.apply(am, [list(toks), list(macros), not name.startswith("text: "), I.Opaque("source manager")])
        except I.Unknown as e:
            if "panicking" in str(e) or "overflow" in str(e) or "abort" in str(e):
                bad_abort = bad_abort or "`#if %s` aborts in the preprocessor (%s): compile() panics instead of reporting the condition" % (name, str(e)[:80])
                n += 1
                continue
            chk.note("%s: apply_macros with apply_defined is not readable on `%s` (%s)" % (prefix, name, str(e)[:80]))
            return False
        n += 1
        if want is None:
            continue
        got = None
        if isinstance(r, I.Enum) and r.variant == "Ok":
            got = []
            for t in r.fields["0"]:
                k = t.fields["0"]
                if k.variant == "Whitespace":
                    continue
                p0 = k.fields.get("0")
                got.append((k.variant, p0 if isinstance(p0, int) else None))
        if got != want and name.startswith("text: "):
            bad_text = bad_text or "outside a condition, `%s` is rewritten to %s, must be %s (`defined` is an operator only in #if / #elif)" % (name[6:], got, want)
        elif got != want and not bad_val:
            bad_val = "`#if %s` is rewritten to %s, must be %s" % (name, got, want)
    chk.ob(prefix + "/value", bad_val is None, bad_val or "defined X / defined(X) become 1 or 0 by whether X is a macro", where(am))
    chk.ob(prefix + "/only-in-conditions", bad_text is None, bad_text or "`defined` is ordinary text when apply_defined is false", where(am))
    chk.ob(prefix + "/from-macro-no-abort", bad_abort is None, bad_abort or "a `defined` produced by a macro from another file does not abort", where(am))
    return True


def rule_strslice(chk, reach):
    """`&text[a..b]` on a str aborts when a or b falls inside a multi-byte character, and source files contain
    arbitrary UTF-8 (comments, strings). Every str range-index in the library crates must have bounds that are
    character boundaries by construction: 0, len(), the position returned by find / rfind (plus the length of an ASCII
    needle), the argument of a split_at that has already succeeded, sums of such a position with a position inside the
    split-off remainder - never a position plus an arbitrary byte count (min / max / + n)."""
    f = chk.facts
    n = 0
    rendered = rule_render_source_line(chk)
    for b in f.bodies.values():
        if "thir" not in b or b["crate"] == "metal_invoker":
            continue      # every library crate: diagnostics are rendered through trait objects the call graph does not follow
        owner = short(b.get("parent") or b["path"])
        sites = [c for c in F.exprs(b["thir"], "Call") if short(c.get("fn") or "") == "index" and c.get("self") == "str" and len(c.get("args", [])) > 1]
        if not sites:
            continue
        if rendered and owner == "write_source_for_error":
            n += 2 * len(sites)     # decided by evaluation above
            continue
        lets = {}
        split_args = set()
        for s in F.walk(b["thir"]):
            if s.get("k") == "LetStmt" and "init" in s and s.get("pat", {}).get("k") == "Bind":
                lets[s["pat"]["id"]] = s["init"]
            if s.get("k") == "Call" and short(s.get("fn") or "") in ("split_at", "is_char_boundary") and len(s.get("args", [])) > 1:
                v = F.leftmost_var(s["args"][1])
                if v is not None and F.strip(s["args"][1]).get("k") == "Var":
                    split_args.add(v["id"])

        def safe(e, depth=0):
            e = F.strip(e)
            k = e.get("k")
            if depth > 8:
                return False
            if k == "Lit":
                return e.get("v") == 0
            if k == "Var":
                if e["id"] in split_args:
                    return True
                if e["id"] in lets:
                    return safe(lets[e["id"]], depth + 1)
                return "found-position" if e.get("_found") else bound_by_find(e)
            if k == "Cast":
                return safe(e["e"], depth + 1)
            if k == "Call":
                nm = short(e.get("fn") or "")
                if nm == "len":
                    return True
                if nm in ("find", "rfind"):
                    return True
                if nm in ("unwrap_or", "unwrap_or_default", "unwrap", "expect"):
                    return all(safe(a, depth + 1) for a in e["args"])
                return False
            if k == "Binary" and e.get("op") == "Add":
                l, r = F.strip(e["l"]), F.strip(e["r"])
                if F.lit(r) == ("int", 1) and ascii_find_position(l):
                    return True
                return bool(safe(l, depth + 1)) and bool(safe(r, depth + 1)) and F.lit(r) is None and F.lit(l) is None
            if k == "Match":
                return all(safe(a["body"], depth + 1) for a in e["arms"])
            if k == "If":
                return safe(e["then"], depth + 1) and ("else" in e and safe(e["else"], depth + 1))
            if k == "Block":
                return "expr" in e and safe(e["expr"], depth + 1)
            return False

        found_binds = {}
        for m in F.exprs(b["thir"], "Match"):
            sc = F.strip(m["scrut"])
            if sc.get("k") == "Call" and short(sc.get("fn") or "") in ("find", "rfind"):
                needle = F.lit(F.strip(sc["args"][1])) if len(sc.get("args", [])) > 1 else None
                for arm in m["arms"]:
                    for i_, nm_, path_ in F.pat_binds(arm["pat"]):
                        found_binds[i_] = needle

        def bound_by_find(v):
            return v["id"] in found_binds

        def ascii_find_position(e):
            if e.get("k") == "Var" and e["id"] in found_binds:
                nd = found_binds[e["id"]]
                return nd is not None and nd[0] == "char" and len(str(nd[1]).encode()) == 1
            return False
        for c in sites:
            r = F.strip(c["args"][1])
            if r.get("k") != "Adt":
                chk.ob("C08.strslice/%s#%d" % (owner, n), False, "str range-index with a range that is not written in place", where(b, c))
                n += 1
                continue
            for fld in r["fields"]:
                ok = bool(safe(fld["e"]))
                chk.ob("C08.strslice/%s/%s" % (owner, fld["f"]), ok, "bound is a character boundary by construction" if ok else
                       "the %s bound of a str slice in %s is a byte position that is not a character boundary by construction (position arithmetic / min / max): "
                       "with a multi-byte character at that position the slice panics, here while a diagnostic is rendered" % (fld["f"], owner), where(b, c),
                       sample={"fn": owner, "bound": str(fld["f"])})
                n += 1
    chk.floor("C08.floor/str-slices", n, 1, "str slice bounds examined", "workspace")


# ------------------------------------------------------------------ admitted kinds vs handled kinds

def rule_enum_kinds_eval(chk):
    """The enum definition read as a table (c13.enum_run): for every scalar type an explicit enumerator of that type
    followed by one without a value is either accepted or refused with a diagnostic - it never aborts (the allow-list of
    initialiser types and the auto-increment match must agree). True when readable; the contradiction rule over the two
    matches (rule_admitted_kinds) is the fallback."""
    import c13
    import interp as I
    f = chk.facts
    fn = f.fn("parse_rootdefinition_enum", "rssl_typer")
    st = f.adt("ScalarType", "rssl_ir")
    cn = f.adt("Constant", "rssl_ir")
    if not (fn and st and cn):
        return False
    consts = {v["name"] for v in cn["variants"]}
    S2C = {"IntLiteral": "IntLiteral", "FloatLiteral": "FloatLiteral"}
    kinds = {}
    for i, v in enumerate(st["variants"]):
        c = S2C.get(v["name"], v["name"])
        if c in consts:
            kinds[c] = 10 + i
    kind_ty = dict(c13.ENUM_KIND_TY)
    for k, t in kinds.items():
        kind_ty.setdefault(k, t)
    n = 0
    owner = short(fn["path"])
    for k in sorted(kind_ty):
        val = True if k == "Bool" else (1.5 if "Float" in k or k in ("Half",) else 3)
        res = c13.enum_run(f, fn, [(k, val), None], kind_ty=kind_ty)
        if res[0] == "unreadable":
            chk.note("C08.kinds: parse_rootdefinition_enum is not readable on an enumerator of type %s (%s); the contradiction rule decides" % (k, res[1]))
            return False
        n += 1
        ok = res[0] != "aborts"
        chk.ob("C08.kinds/%s/%s" % (owner, k), ok, "`enum E { A = <%s value>, B }` is %s" % (k, "accepted" if isinstance(res[1], I.Enum) and res[1].variant == "Ok" else "refused with a diagnostic") if ok else
               "`enum E { A = <%s value>, B }` aborts the compiler (%s): an initialiser type the definition admits has no arm in the auto-increment match" % (k, res[1]), where(fn),
               sample={"fn": owner, "admitted": k})
    chk.floor("C08.floor/admitted-kinds", n, 4, "scalar types tried as an enumerator's type", "rssl_typer")
    return True


def rule_admitted_kinds(chk):
    """A contradiction rule: where a function admits values by an allow-list of scalar types (`TypeLayer::Scalar(X) |
    .. => {}` against `_ => return Err(..)`) and later matches the evaluated ir::Constant of the same value with a
    catch-all that aborts, every admitted scalar type must have its constant kind among the handled arms. (The enum
    definition admits an initialiser of type bool / untyped int / int / uint.)"""
    f = chk.facts
    S2C = {"Bool": "Bool", "IntLiteral": "IntLiteral", "Int32": "Int32", "UInt32": "UInt32", "FloatLiteral": "FloatLiteral",
           "Float16": "Float16", "Float32": "Float32", "Float64": "Float64"}
    n = 0
    for b in f.crates["rssl_typer"]["bodies"]:
        if "thir" not in b or b.get("kind") not in ("Fn", "AssocFn"):
            continue
        admitted = None
        for m in F.exprs(b["thir"], "Match"):
            if not F.strip(m["scrut"]).get("ty", "").endswith("TypeLayer"):
                continue
            rejects = any(F.pat_is_catchall(a["pat"]) and any(x.get("k") == "Return" for x in F.walk(a["body"])) for a in m["arms"])
            if not rejects:
                continue
            for a in m["arms"]:
                alts = F.pat_alternatives(a["pat"])
                kinds = []
                for alt in alts:
                    if F.pat_variant(alt) == ("TypeLayer", "Scalar"):
                        inner = F.pat_sub(alt, "0")
                        if inner and inner.get("k") == "Variant":
                            kinds.append(inner["variant"])
                empty = F.strip(a["body"]).get("k") == "Block" and not F.strip(a["body"]).get("stmts") and "expr" not in F.strip(a["body"])
                if kinds and len(kinds) == len(alts) and empty:
                    admitted = (kinds, m)
        if not admitted:
            continue
        owner = short(b.get("parent") or b["path"])
        for m in F.exprs(b["thir"], "Match"):
            arms = m["arms"]
            handled = set()
            aborts = None
            for a in arms:
                for alt in F.pat_alternatives(a["pat"]):
                    pv = F.pat_variant(alt)
                    if pv and pv[0] == "Constant":
                        handled.add(pv[1])
                if F.pat_is_catchall(a["pat"]) and any((c.get("fn") or "").startswith("core::panicking") for c in F.exprs(a["body"], "Call")):
                    aborts = a
            if not handled or aborts is None:
                continue
            for k in admitted[0]:
                ck = S2C.get(k, k)
                ok = ck in handled
                n += 1
                chk.ob("C08.kinds/%s/%s" % (owner, k), ok, "admitted type %s: Constant::%s is handled" % (k, ck) if ok else
                       "%s admits a value of scalar type %s, but the later match over its evaluated constant has no arm for Constant::%s and its catch-all aborts: "
                       "an accepted program panics" % (owner, k, ck), where(b, aborts), sample={"fn": owner, "admitted": k, "handled": sorted(handled)})
    chk.floor("C08.floor/admitted-kinds", n, 4, "admitted scalar type x aborting constant match", "rssl_typer")
