"""C14 — layout trivia never changes results; diagnostics track source positions (structural carriers)."""
import facts as F
import interp as I
import mirs as M
from facts import short, where

EXPLANATION = (
    "Invariance of output under trivia insertion and the line arithmetic of diagnostics are metamorphic statements "
    "over all inputs and are not decided. Decided are their structural carriers: C14.ws — Token::is_whitespace is "
    "exactly {Endline, PhysicalEndline, Whitespace, Comment} (read as a finite map over every Token variant); "
    "prepare_tokens drops a token iff is_whitespace and keeps the rest with their own start location; the #if "
    "condition parser filters with the same predicate. C14.adj — the two places where adjacency is significant by "
    "design are the only ones: FollowedBy is constructed only in the lexer's '<' / '>' handlers and inspected only by "
    "the expression / type-argument parsers and the #if condition parser; Macro::parse tests the '(' on the untrimmed "
    "remainder after the macro name. C14.line — SourceManager::get_file_location: '\\n' increments the line and resets "
    "the column to first(), any other byte increments the column; Line::first / Column::first are 1 and increment adds "
    "1; every file reserves file_size + 1 locations in add_file and in both decoders (the three agree). C14.diag — "
    "MessagePrinter::write_message prints the location whenever loc != UNKNOWN and takes it from get_file_location."
)
ASSUMPTIONS = ["rustc THIR/MIR is a faithful view of the source"]

WS = {"Endline", "PhysicalEndline", "Whitespace", "Comment"}


def run(chk):
    f = chk.facts
    ip = I.Interp(f)
    iw = chk.anchor("C14.anchor/is_whitespace", f.fn("is_whitespace", "rssl_text", self_ty="Token"), "Token::is_whitespace")
    toks = f.adt("tokens::Token", "rssl_text")
    if iw and toks:
        for v in toks["variants"]:
            val = I.Enum("Token", v["name"], {str(i): I.Opaque("payload") for i in range(len(v["fields"]))})
            try:
                got = ip.apply(iw, [val])
            except I.Unknown as e:
                got = "unreadable (%s)" % e
            want = v["name"] in WS
            chk.ob("C14.ws/is_whitespace/%s" % v["name"], got == want, "%s -> %s" % (v["name"], got) if got == want else
                   "Token::%s is classified whitespace=%s, must be %s" % (v["name"], got, want), where(iw), sample={"token": v["name"], "whitespace": got})
        chk.floor("C14.floor/tokens", len(toks["variants"]), 80, "Token variants examined", where(iw))
    pt = chk.anchor("C14.anchor/prepare_tokens", f.fn("prepare_tokens", "rssl_preprocess"), "prepare_tokens")
    if pt and iw and toks and rule_prepare_eval(chk, pt, toks):
        pass
    elif pt and iw:
        ok = False
        for cb in f.closures_of(pt["path"]):
            for n in F.exprs(cb["thir"], "If"):
                c = F.strip(n["cond"])
                if c.get("k") == "Call" and c.get("fn") == iw["path"]:
                    th, el = F.adt_ctor(F.tail(n["then"])), F.adt_ctor(F.tail(n.get("else", {})))
                    ok = bool(th and th[1] == "None" and el and el[1] == "Some")
        fm = any(short(c.get("fn") or "") == "filter_map" for c in F.exprs(pt["thir"], "Call"))
        chk.ob("C14.ws/prepare_tokens", ok and fm, "drops a token iff is_whitespace()" if ok and fm else
               "prepare_tokens no longer drops exactly the tokens for which is_whitespace() holds", where(pt))
        # only Eof is appended
        pushes = [c for c in F.exprs(pt["thir"], "Call") if short(c.get("fn") or "") == "push"]
        eof = [a.get("variant") for c in pushes for a in F.exprs(c, "Adt") if short(a["adt"]) == "Token"]
        chk.ob("C14.ws/prepare_tokens-appends-eof", eof == ["Eof"], "appends exactly Token::Eof" if eof == ["Eof"] else "prepare_tokens appends %s" % eof, where(pt))
    cp = f.fn("parse", "rssl_preprocess", path_contains="condition_parser::parse")
    if chk.anchor("C14.anchor/condition_parser::parse", cp, "condition_parser::parse") and iw:
        ok = any(c.get("fn") == iw["path"] for cb in f.closures_of(cp["path"]) for c in F.exprs(cb["thir"], "Call"))
        chk.ob("C14.ws/condition-filter", ok, "#if conditions are filtered with is_whitespace()" if ok else "the #if condition parser no longer filters trivia with is_whitespace()", where(cp))
    rule_adj(chk)
    if not rule_comment_eval(chk):
        rule_comment_scan(chk)
    rule_uniform_trivia(chk)
    rule_line(chk, ip)
    rule_previous_definition(chk)


def rule_adj(chk):
    f = chk.facts
    makers, readers = set(), set()
    for b in f.bodies.values():
        if "thir" not in b or (b.get("impl_trait") or "").startswith(("core::", "std::")):
            continue     # derived Clone / Debug / PartialEq impls of the token types
        owner = b.get("parent") or b["path"]
        for a in F.exprs(b["thir"], "Adt"):
            if short(a["adt"]) == "FollowedBy":
                makers.add(owner)
        for p in F.walk(b["thir"]):
            if p.get("k") == "Variant" and short(p.get("adt", "")) == "FollowedBy":
                readers.add(owner)
    mk = {short(m) for m in makers}
    # produced inside the lexer module only (the '<' / '>' token functions or a helper of theirs)
    ok = bool(makers) and all(m.startswith("rssl_preprocess::lexer::") for m in makers)
    mk = {short(m) for m in makers if not m.startswith("rssl_preprocess::lexer::")} or mk
    chk.ob("C14.adj/constructed-only-by-lexer", ok, "FollowedBy is produced only by the '<' / '>' lexers" if ok else
           "FollowedBy (token adjacency) is now also constructed outside the lexer, in %s" % sorted(mk), "preprocess/src/lexer.rs")
    crates = {f.bodies[r]["crate"] if r in f.bodies else "?" for r in readers}
    allowed = {"rssl_parser", "rssl_preprocess"}
    rd = sorted(short(r) for r in readers)
    ok = crates <= allowed and all(("parse" in x or "match_" in x or x.startswith("expr_") or x in ("locate",)) for x in rd)
    chk.ob("C14.adj/read-only-by-parsers", ok, "adjacency is inspected only by: %s" % rd if ok else
           "token adjacency is inspected outside the operator / template-argument parsers: %s" % rd, "parser / condition_parser", sample={"readers": rd})
    chk.floor("C14.floor/adjacency-readers", len(readers), 3, "functions matching on FollowedBy")
    mp = f.fn("parse", "rssl_preprocess", self_ty="Macro")
    import c12
    mp2, tab = c12.macro_parse_model(f) if mp else (None, {})
    lines = ("F(x) x", "F (x) x", "F/**/(x) x", "  F(x) x")
    if mp2 and all(isinstance(tab.get(l), tuple) and tab[l] and tab[l][0] in (True, False) for l in lines):
        ok = [tab[l][0] for l in lines] == [True, False, False, True]
        chk.ob("C14.adj/macro-paren-untrimmed", ok, "a function-like macro needs '(' directly after its name (space or comment in between: object-like); leading layout is ignored" if ok else
               "Macro::parse: function-like? `F(x)` %s, `F (x)` %s, `F/**/(x)` %s, `  F(x)` %s - must be True, False, False, True: layout between the macro name and '(' is the one place where it is significant"
               % tuple(tab[l][0] for l in lines), where(mp))
        lay = ("F(a,b) a##b", "F(a , b) b a", "F( a/**/,/**/b ) b a", "F(a\\n,b) b a", "F( x ) x", "F( ) 1")
        got = {l: tab.get(l) for l in lay}
        okl = all(isinstance(v, tuple) and v and v[0] is True for v in got.values()) and got["F(a , b) b a"] == got["F( a/**/,/**/b ) b a"] == got["F(a\\n,b) b a"]
        chk.ob("C14.adj/macro-parameter-layout", okl, "spaces, comments and line splices inside a macro's parameter list do not change the definition" if okl else
               "Macro::parse: layout inside the parameter list changes the definition or makes it invalid: %s" % {k: (v if v == "Err" else v[:2] if isinstance(v, tuple) else v) for k, v in got.items()},
               where(mp))
    elif chk.anchor("C14.anchor/Macro::parse", mp, "Macro::parse"):
        # after the name is split off, the '(' test is on `rest` of split_first, with no trim call in between
        ok = False
        for s in F.walk(mp["thir"]):
            if s.get("k") == "LetStmt" and "init" in s and F.strip(s["init"]).get("k") == "If":
                init = F.strip(s["init"])
                c = F.strip(init["cond"])
                if c.get("k") == "Let":
                    has_lparen = any(p.get("variant") == "LeftParen" for p in F.walk(c["pat"]) if p.get("k") == "Variant")
                    src = F.strip(c["e"])
                    if has_lparen and src.get("k") == "Call" and short(src.get("fn") or "") == "split_first":
                        recv = src["args"][0]
                        trims = [x for x in F.exprs(recv, "Call") if short(x.get("fn") or "").startswith("trim")]
                        ok = not trims
        chk.ob("C14.adj/macro-paren-untrimmed", ok, "a function-like macro needs '(' directly after its name" if ok else
               "Macro::parse now trims before testing for '(' (or the test is gone): `#define F (x)` would define a function-like macro", where(mp))


def rule_line(chk, ip):
    f = chk.facts
    for ty in ("Line", "Column"):
        fi = f.fn("first", "rssl_text", self_ty=ty)
        inc = f.fn("increment", "rssl_text", self_ty=ty)
        if not chk.anchor("C14.anchor/%s" % ty, fi and inc, "%s::first / increment" % ty):
            continue
        try:
            v = ip.apply(fi, [])
            first = v.fields.get("0") if isinstance(v, I.Enum) else v
        except I.Unknown as e:
            first = "unreadable"
        chk.ob("C14.line/%s-first" % ty, first == 1, "%s::first() = 1" % ty if first == 1 else "%s::first() is %s, must be 1" % (ty, first), where(fi))
        ops = [(a["op"], F.lit(a["r"])) for a in F.exprs(inc["thir"], "AssignOp")]
        ok = ops == [("AddAssign", ("int", 1))] or ops == [("Add", ("int", 1))]
        chk.ob("C14.line/%s-increment" % ty, ok, "%s::increment adds 1" % ty if ok else "%s::increment does %s" % (ty, ops), where(inc))
    # SourceManager evaluated on a small model (finite-map reader with a modelled Vec / String): three files are added
    # with add_file, then every location of the reserved ranges is decoded by both decoders and compared with the
    # reference (file, line = 1 + newlines before, column = 1 + bytes since the last newline; file_size + 1 slots per file)
    new = f.fn("new", "rssl_text", self_ty="SourceManager")
    add = f.fn("add_file", "rssl_text")
    gfl = chk.anchor("C14.anchor/get_file_location", f.fn("get_file_location", "rssl_text"), "SourceManager::get_file_location")
    gfo = chk.anchor("C14.anchor/get_file_offset_from_source_location", f.fn("get_file_offset_from_source_location", "rssl_text"), "get_file_offset_from_source_location")
    if chk.anchor("C14.anchor/SourceManager", new and add and gfl and gfo, "SourceManager::new / add_file"):
        ipl = I.Interp(f, max_depth=8)
        files = [("a.rssl", "ab\ncd"), ("empty.rssl", ""), ("c.rssl", "x\n\ny\n")]
        try:
            sm = ipl.apply(new, [])
            ids = [ipl.apply(add, [sm, I.Enum("FileName", None, {"0": nm}), c]) for nm, c in files]
            readable = True
        except I.Unknown as e:
            readable = False
            chk.ob("C14.line/reserve/add_file", False, "add_file is not readable: %s" % e, where(add))
        if readable:
            bases = []
            nxt = 0
            for nm, c in files:
                bases.append(nxt)
                nxt += len(c) + 1
            got_bases = [sf.fields.get("base_location").fields.get("0") if isinstance(sf, I.Enum) and isinstance(sf.fields.get("base_location"), I.Enum) else None for sf in sm.fields.get("files", [])]
            ok = got_bases == bases and [i.fields.get("0") if isinstance(i, I.Enum) else i for i in ids] == [0, 1, 2]
            chk.ob("C14.line/reserve/add_file", ok, "every file reserves file_size + 1 locations after the previous one (bases %s)" % bases if ok else
                   "add_file places files of sizes %s at base locations %s, must be %s (file_size + 1 slots each: the end-of-file position belongs to the file)" % ([len(c) for _, c in files], got_bases, bases), where(add))
            bad_l, bad_o = [], []
            n_loc = 0
            for fi, (nm, c) in enumerate(files):
                for o in range(len(c) + 1):
                    n_loc += 1
                    loc = I.Enum("SourceLocation", None, {"0": bases[fi] + o})
                    before = c[:o]
                    want = (nm, 1 + before.count("\n"), 1 + len(before) - (before.rfind("\n") + 1))
                    try:
                        r = ipl.apply(gfl, [sm, loc])
                        g = r.fields if isinstance(r, I.Enum) and r.variant == "Known" else None
                        got = (g["0"].fields.get("0"), g["1"].fields.get("0"), g["2"].fields.get("0")) if g else (r.variant if isinstance(r, I.Enum) else repr(r))
                    except I.Unknown as e:
                        got = "unreadable / aborts (%s)" % e
                    if got != want:
                        bad_l.append((nm, o, got, want))
                    try:
                        r = ipl.apply(gfo, [sm, loc])
                        tup = r.fields.get("0") if isinstance(r, I.Enum) and r.variant == "Some" else None
                        got2 = (tup[0].fields.get("0"), tup[1].fields.get("0")) if tup else (r.variant if isinstance(r, I.Enum) else repr(r))
                    except I.Unknown as e:
                        got2 = "unreadable / aborts (%s)" % e
                    if got2 != (fi, o):
                        bad_o.append((nm, o, got2, (fi, o)))
            for key, fn_, bad in (("get_file_location", gfl, bad_l), ("get_file_offset_from_source_location", gfo, bad_o)):
                chk.ob("C14.line/file-range/" + key, not bad, "%d locations of 3 files decode to the right file and position" % n_loc if not bad else
                       "%s: byte %d of %s decodes to %s, must be %s (%d of %d locations wrong): a diagnostic names the wrong file, line or column"
                       % ((key,) + (bad[0][1], bad[0][0], bad[0][2], bad[0][3]) + (len(bad), n_loc)), where(fn_), sample={"locations": n_loc, "wrong": len(bad)})
            # past the last file: unknown
            try:
                r = ipl.apply(gfl, [sm, I.Enum("SourceLocation", None, {"0": nxt})])
                ok_u = isinstance(r, I.Enum) and r.variant == "Unknown"
            except I.Unknown:
                ok_u = False
            chk.ob("C14.line/past-the-end", ok_u, "a location after the last file is Unknown" if ok_u else "a location after the last file is not reported as Unknown", where(gfl))
    wm = f.fn("write_message", "rssl_text")
    if chk.anchor("C14.anchor/write_message", wm, "MessagePrinter::write_message"):
        cfg = M.Cfg(wm)
        sites = cfg.calls("get_file_location")
        ok = bool(sites)
        chk.ob("C14.diag/location-from-source-manager", ok, "diagnostic position comes from get_file_location(loc)" if ok else
               "write_message no longer derives the printed position from get_file_location", where(wm))
        unk = any(x.get("k") == "Const" and short(x["path"]) == "UNKNOWN" for x in F.walk(wm["thir"]))
        chk.ob("C14.diag/unknown-only", unk, "the position is omitted only for SourceLocation::UNKNOWN" if unk else "the UNKNOWN test around the position is gone", where(wm))


def rule_previous_definition(chk):
    """Redefinition diagnostics point at the previous definition: Context::begin_struct / register_struct_template /
    begin_enum are walked on a model context whose scope already holds a type named S - what they return as the error
    is the id of THAT type (the diagnostic prints its position as 'previous definition is here'), never the id of the
    type being registered; with no such symbol the new type is registered."""
    f = chk.facts
    opt = lambda v: I.Enum("Option", "None") if v is None else I.Enum("Option", "Some", {"0": v})
    tid = lambda n_: I.Enum("TypeId", None, {"0": n_})
    name = lambda: I.Enum("Located", None, {"node": "S", "location": I.Opaque("location")})

    def ctx(existing):
        sym = I.HMap()
        if existing is not None:
            sym.put("S", [I.Enum("ScopeSymbol", "Type", {"0": tid(existing)})])
        scope = I.Enum("ScopeData", None, {"symbols": sym, "parent_scope": opt(None), "owning_enum": opt(None), "scope_name": opt(None), "namespace": opt(None), "owning_struct": opt(None)})
        return I.Enum("Context", None, {"module": I.Enum("Module", None, {"struct_registry": [], "struct_template_registry": [], "type_registry": I.Opaque("type registry"), "enum_registry": I.Opaque("enum registry")}),
                                        "scopes": [scope], "current_scope": 0, "struct_template_data": []})
    ext = {"TypeRegistry::register_type": lambda a: tid(90), "get_current_namespace": lambda a: opt(None), "EnumRegistry::register_enum": lambda a: I.Enum("EnumId", None, {"0": 0}),
           "EnumRegistry::set_enum_type_id": lambda a: (), "EnumRegistry::get_enum_definition": lambda a: I.Enum("EnumDefinition", None, {"name": name(), "namespace": opt(None)}),
           "push_scope_with_name": lambda a: 0}
    n = 0
    for fname, extra in (("begin_struct", [True]), ("register_struct_template", [I.Opaque("struct definition")]), ("begin_enum", [])):
        fn = f.fn(fname, "rssl_typer", self_ty="Context") or f.fn(fname, "rssl_typer")
        if not fn:
            chk.note("C14.diag/previous-definition: %s not found; not decided for it" % fname)
            continue
        res = {}
        for existing in (None, 41):
            try:
                r = I.Interp(f, max_depth=6, extern=ext).apply(fn, [ctx(existing), name()] + extra)
                res[existing] = (r.variant, r.fields.get("0")) if isinstance(r, I.Enum) else ("?", r)
            except I.Unknown as e:
                res[existing] = ("aborts" if "panicking" in str(e) else "unreadable", str(e)[:80])
        if any(v[0] == "unreadable" for v in res.values()):
            chk.note("C14.diag/previous-definition: %s is not readable on the model context (%s); not decided for it" % (fname, [v for v in res.values() if v[0] == "unreadable"][0][1]))
            continue
        n += 1
        e_ = res[41]
        got = e_[1].fields.get("0") if e_[0] == "Err" and isinstance(e_[1], I.Enum) else None
        bad = None
        if res[None][0] != "Ok":
            bad = "%s refuses a name that is not taken (%s)" % (fname, res[None][0])
        elif e_[0] != "Err":
            bad = "%s accepts a second type named like an existing one (%s)" % (fname, e_[0])
        elif got != 41:
            bad = "%s reports type %s as the previous definition of a redefined name; the existing definition is type 41 (%s): the note 'previous definition is here' points at the wrong place" % (
                fname, got, "90 is the type being registered" if got == 90 else "?")
        chk.ob("C14.diag/previous-definition/" + fname, bad is None, bad or "the error carries the existing definition's type id", where(fn), sample={"fn": fname})
    chk.floor("C14.floor/redefinition-sites", n, 2, "registration functions evaluated for the previous-definition id")


def rule_prepare_eval(chk, pt, toks):
    """prepare_tokens read as a function of the token list: a list holding one token of every kind (in declaration
    order, and again reversed, and with runs of trivia at both ends) comes out as exactly its non-trivia tokens, in
    order, each at the location it started at, followed by one Eof. True when readable (the shape rule is the fallback)."""
    f = chk.facts
    kinds = [v for v in toks["variants"] if v["name"] not in ("MacroArg",)]

    def mk(v, at):
        return I.Enum("PreprocessToken", None, {"0": I.Enum("Token", v["name"], {str(i): "payload %d" % at for i in range(len(v["fields"]))}),
                                                "1": I.Enum("PreprocessTokenData", None, {"start_location": I.Enum("SourceLocation", None, {"0": at}), "end_location": I.Enum("SourceLocation", None, {"0": at + 1})})})
    ws = [v for v in kinds if v["name"] in WS]
    orders = [kinds, kinds[::-1], ws + kinds + ws, ws, []]
    bad = None
    for order in orders:
        src = [mk(v, 10 + 3 * i) for i, v in enumerate(order)]
        want = [(v["name"], 10 + 3 * i) for i, v in enumerate(order) if v["name"] not in WS]
        ip = I.Interp(f, max_depth=8)
        ip.max_loop = 1024
        try:
            r = ip.apply(pt, [src])
        except I.Unknown as e:
            if "panicking" in str(e):
                bad = bad or "prepare_tokens aborts on a list of %d tokens (%s)" % (len(src), str(e)[:60])
                continue
            chk.note("C14.ws/prepare_tokens: not readable (%s); the shape rule decides" % str(e)[:80])
            return False
        if not isinstance(r, list) or not all(isinstance(t, I.Enum) and isinstance(t.fields.get("0"), I.Enum) for t in r):
            chk.note("C14.ws/prepare_tokens: result not readable; the shape rule decides")
            return False
        got = [(t.fields["0"].variant, t.fields["1"].fields.get("0") if isinstance(t.fields.get("1"), I.Enum) else None) for t in r]
        body, last = got[:-1], got[-1:] if got else []
        if [g[0] for g in body] != [w[0] for w in want]:
            missing = [w[0] for w in want if w[0] not in [g[0] for g in body]]
            extra = [g[0] for g in body if g[0] not in [w[0] for w in want]]
            bad = bad or ("prepare_tokens hands the parser %s" % ("trivia tokens %s" % extra if extra else "a list without %s" % missing if missing else "the tokens in another order"))
        elif body != want:
            k = [i for i in range(len(want)) if body[i] != want[i]][0]
            bad = bad or "prepare_tokens places %s at location %r, it starts at %r" % (want[k][0], body[k][1], want[k][1])
        if [g[0] for g in last] != ["Eof"]:
            bad = bad or "prepare_tokens ends the list with %s, must be one Eof" % ([g[0] for g in last],)
    chk.ob("C14.ws/prepare_tokens", bad is None, bad or "drops exactly the trivia tokens, keeps order and start locations (%d lists)" % len(orders), where(pt), sample={"lists": len(orders), "token_kinds": len(kinds)})
    chk.ob("C14.ws/prepare_tokens-appends-eof", True, "decided with C14.ws/prepare_tokens", where(pt), trivial=True)
    return True


COMMENT_TEXTS = {
    # text -> what is left after the comment (None: the comment never ends, the lexer must refuse; "not a comment")
    "block_comment": [("/* x */ y", " y"), ("/*/ x */y", "y"), ("/**/x", "x"), ("/***/x", "x"), ("/* a * / b */c", "c"), ("/* a */ /* b */z", " /* b */z"), ("/* // */q", "q"),
                      ("/*\n line 2\n*/\nr", "\nr"), ("/* unterminated", None), ("/*", None), ("/*/", None), ("/* *", None), ("/ *x*/", "not a comment"), ("x/* */", "not a comment")],
    "line_comment": [("// c\nx", "\nx"), ("//\nx", "\nx"), ("// c", ""), ("//", ""), ("// c \\\n still\nx", "\nx"), ("// a\r\nx", "\r\nx"), ("//*x*/\ny", "\ny"), ("// /* \n */", "\n */"),
                     ("/ /x\n", "not a comment"), ("x// c\n", "not a comment")],
}


def rule_comment_eval(chk):
    """line_comment / block_comment read as functions of the bytes: on model texts (the opener's own bytes next to a
    terminator byte - `/*/`, `/**/` -, stars and slashes inside, several comments, line splices and CR LF in a line comment,
    unterminated comments, near misses) the comment is ONE Token::Comment from its opener to its terminator and what is
    left is exactly the text after it; a block comment that never ends is refused; text that does not start with the
    opener is not a comment. True when readable; rule_comment_scan (shape) is the fallback."""
    f = chk.facts
    ip = I.Interp(f, max_depth=12)
    ip.max_loop = 4096
    fns = {name: f.fn(name, "rssl_preprocess") for name in COMMENT_TEXTS}
    if not all(fns.values()):
        return False
    res = {}
    n = 0
    for name, cases in COMMENT_TEXTS.items():
        bad = None
        for text, want in cases:
            try:
                r = ip.apply(fns[name], [list(text.encode())])
            except I.Unknown as e:
                if "panicking" in str(e):
                    bad = bad or "%s aborts on %r (%s)" % (name, text, str(e)[:60])
                    n += 1
                    continue
                chk.note("C14.comment: %s is not readable on %r (%s); the shape rules decide" % (name, text, str(e)[:80]))
                return False
            n += 1
            if isinstance(r, I.Enum) and r.variant == "Ok" and isinstance(r.fields.get("0"), tuple) and isinstance(r.fields["0"][0], (list, tuple)) and isinstance(r.fields["0"][1], I.Enum):
                rest, tk = bytes(r.fields["0"][0]).decode("utf-8", "replace"), r.fields["0"][1].variant
                got = rest if tk == "Comment" else "not a comment"
            elif isinstance(r, I.Enum) and r.variant == "Err":
                got = None if want is None or want != "not a comment" else "not a comment"      # (a near miss may also be refused by the fallback lexer)
            else:
                chk.note("C14.comment: the result of %s on %r is not readable (%r); the shape rules decide" % (name, text, r))
                return False
            if got != want:
                say = lambda v: "no comment token" if v == "not a comment" else ("the comment is refused as unterminated" if v is None else "one comment token followed by %r" % v)
                bad = bad or "%s reads %r as: %s; must be: %s" % (name, text, say(got), say(want))
        res[name] = bad
    for name, bad in res.items():
        chk.ob("C14.comment/%s/model" % name, bad is None, bad or "%d texts: one comment token from the opener to the terminator" % len(COMMENT_TEXTS[name]), where(fns[name]), sample={"texts": len(COMMENT_TEXTS[name])})
        for k in ("opener", "scan-after-opener", "token") + (("terminator",) if name == "block_comment" else ()):
            chk.ob("C14.comment/%s/%s" % (name, k), True, "decided by C14.comment/%s/model" % name, where(fns[name]), trivial=True)
    chk.floor("C14.floor/comment-texts", n, 20, "comment texts evaluated")
    return True


def rule_comment_scan(chk):
    """Comments are one trivia token from their opener to their terminator: in line_comment / block_comment the opener
    is recognised with starts_with(<literal>), and no slice of the input that the scan for the end works on starts
    before the end of that opener (otherwise the opener's own bytes can be read as part of the terminator: `/*/`)."""
    f = chk.facts
    for name, opener, closer in (("line_comment", "//", None), ("block_comment", "/*", "*/")):
        fn = chk.anchor("C14.anchor/" + name, f.fn(name, "rssl_preprocess"), name)
        if not fn:
            continue
        pid = (fn["params"][0].get("pat") or {}).get("id")
        opens = []
        for c in F.exprs(fn["thir"], "Call"):
            if short(c.get("fn") or "") == "starts_with" and (F.leftmost_var(c["args"][0]) or {}).get("id") == pid:
                l = F.lit(F.strip(c["args"][1]))
                if l:
                    opens.append(l[1])
        chk.ob("C14.comment/%s/opener" % name, opens == [opener], "recognised by starts_with(%r)" % opener if opens == [opener] else
               "%s tests the input for %s, must be exactly %r" % (name, opens, opener), where(fn))
        lets = {}
        for s in F.walk(fn["thir"]):
            if s.get("k") == "LetStmt" and s.get("pat", {}).get("k") == "Bind" and "init" in s:
                l = F.lit(F.strip(s["init"]))
                if l and l[0] == "int":
                    lets[s["pat"]["id"]] = l[1]
        starts = []
        for c in F.exprs(fn["thir"], "Call"):
            if short(c.get("fn") or "") != "index" or len(c.get("args", [])) < 2:
                continue
            if (F.leftmost_var(c["args"][0]) or {}).get("id") != pid:
                continue
            r = F.strip(c["args"][1])
            if r.get("k") == "Adt" and short(r["adt"]) in ("RangeFrom", "Range"):
                st = F.strip({str(x["f"]): x["e"] for x in r["fields"]}["start"])
                l = F.lit(st)
                if l and l[0] == "int":
                    starts.append((l[1], c))
                elif st.get("k") == "Var" and st["id"] in lets:
                    starts.append((lets[st["id"]], c))
        bad = [(k, c) for k, c in starts if k < len(opener)]
        chk.ob("C14.comment/%s/scan-after-opener" % name, bool(starts) and not bad,
               "the scan for the end of the comment starts at offset %s, after the %d-byte opener" % (sorted({k for k, _ in starts}), len(opener)) if starts and not bad else
               ("%s scans input[%d..] for the end of the comment, which overlaps the %d-byte opener %r: the opener's last byte can be taken as the start of the terminator, the comment ends early and its body is lexed as code"
                % (name, bad[0][0], len(opener), opener) if bad else "anchor-missing: no constant-offset slice of the input in " + name), where(fn, bad[0][1]) if bad else where(fn))
        if closer:
            cl = [F.lit(x)[1] for x in F.exprs(fn["thir"], "Lit") if F.lit(x) and F.lit(x)[0] == "bytes"]
            chk.ob("C14.comment/%s/terminator" % name, closer in cl, "terminated by %r" % closer if closer in cl else "%s no longer looks for %r" % (name, closer), where(fn))
        toks = {a.get("variant") for a in F.exprs(fn["thir"], "Adt") if short(a["adt"]) == "Token"}
        chk.ob("C14.comment/%s/token" % name, toks == {"Comment"}, "produces Token::Comment only" if toks == {"Comment"} else "%s produces %s" % (name, sorted(toks)), where(fn))


def rule_uniform_trivia(chk):
    """Spaces, tabs and comments are interchangeable layout: they are told apart only where they are made (the lexer)
    and where they are classified (Token::is_whitespace and Token's own derived impls). No other function may construct,
    compare with or match on Token::Whitespace or Token::Comment alone - a decision that holds for a space must hold for
    a comment in the same place. (Endline / PhysicalEndline are deliberately significant and not covered.)"""
    f = chk.facts
    control = 0
    n = 0
    for crate in f.crates:
        for b in f.crates[crate]["bodies"]:
            if "thir" not in b:
                continue
            hits = set()
            first = None
            for x in F.walk(b["thir"]):
                if not isinstance(x, dict):
                    continue
                if (x.get("k") == "Adt" and short(x.get("adt", "")) == "Token" and x.get("variant") in ("Whitespace", "Comment")) or \
                        (x.get("k") == "Variant" and short(x.get("adt", "")) == "Token" and x.get("variant") in ("Whitespace", "Comment")):
                    hits.add(x["variant"])
                    first = first or x
            if not hits:
                continue
            path = b["path"]
            home = path.startswith("rssl_preprocess::lexer::") or "rssl_text::tokens::Token" in path
            if "is_whitespace" in path:
                control += 1
            if home:
                continue
            n += 1
            owner = short(b.get("parent") or path)
            chk.ob("C14.ws/uniform-trivia/%s" % owner, False,
                   "%s singles out Token::%s instead of asking Token::is_whitespace(): a comment (or a space) in that position is treated differently from other layout, so adding trivia changes the result"
                   % (owner, "/".join(sorted(hits))), where(b, first))
    chk.ob("C14.ws/uniform-trivia", n == 0 and control == 1, "no function outside the lexer and Token's own impls distinguishes spaces from comments (detector control: is_whitespace matched)" if n == 0 and control == 1 else
           ("the detector no longer matches its control Token::is_whitespace" if control != 1 else "%d function(s) single out one trivia kind" % n), "workspace")
