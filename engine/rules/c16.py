"""C16 — overload resolution is order-independent and prefers exact matches."""
import facts as F
import interp as I
import mirs as M
from facts import short, where

EXPLANATION = (
    "Order-independence over all candidate sets is a property of an algorithm and is not decided in general; decided are "
    "its necessary structural conditions. C16.unique (MIR dominance): find_function_type builds its Ok result only on "
    "the true edge of `casts.len() == 1`, and the `> 1` continuation returns the ambiguity error (never 'first wins'). "
    "C16.rank (finite maps read from THIR): NumericRank::order is injective with Exact least and follows the reference "
    "order; NumericRank::compare is exactly lt->Better / eq->Equal / gt->Worse over all 36 pairs; VectorRank::"
    "worst_to_best is a permutation of all variants from Contract to Exact; get_rank maps 'no numeric cast' and 'no "
    "dimension cast' to Exact; the scalar rank matrix of ImplicitConversion::find never yields Exact for two distinct "
    "scalar types and is total off the diagonal (56 pairs). C16.sym (THIR shape): the tournament compares every candidate "
    "against every other candidate of the same `casts` vector, operand order (candidate, against), only `Worse` "
    "disqualifies, the surviving candidate pushed is the outer loop's; the vector tie-break folds `<` over all survivors "
    "and keeps those equal to the minimum. C16.arity: a candidate is considered only when the argument count lies "
    "between non_default_params and the parameter count."
)
ASSUMPTIONS = ["rustc THIR/MIR is a faithful view of the source",
               "reference rank order Exact < Promotion < PromotionTwice < IntToBool < Conversion < EnumToNumeric (DESIGN.md App. A)"]

TY = "rssl_typer"
REF_ORDER = ["Exact", "Promotion", "PromotionTwice", "IntToBool", "Conversion", "EnumToNumeric"]



def rule_member_candidates(chk):
    """The candidate list of a method call is every method of the struct with that name, in every declaration order:
    Context::get_struct_member_expression read on a model struct (methods f, g, f, h, f declared in several orders, two
    data members): all overloads of the requested name are returned, none of another name; a data member is found by
    name with its index; an unknown name is an error."""
    import interp as I
    import itertools
    f = chk.facts
    fn = f.fn("get_struct_member_expression", "rssl_typer")
    if not fn:
        return
    loc = lambda v: I.Enum("Located", None, {"node": v, "location": I.Opaque("location")})
    fid = lambda i: I.Enum("FunctionId", None, {"0": i})

    def deref(v):
        return v.get() if isinstance(v, I.Ref) else v
    names = {10: "f", 11: "g", 12: "f", 13: "h", 14: "f"}
    bad = None
    n = 0
    orders = list(itertools.permutations([10, 11, 12, 13, 14]))[::7]
    for order in orders:
        sd = I.Enum("StructDefinition", None, {"methods": [fid(i) for i in order], "members": [I.Enum("StructMember", None, {"name": "x", "type_id": I.Enum("TypeId", None, {"0": 3})}),
                                                                                              I.Enum("StructMember", None, {"name": "y", "type_id": I.Enum("TypeId", None, {"0": 4})})]})
        ctx = I.Enum("Context", None, {"module": I.Enum("Module", None, {"struct_registry": [sd], "function_registry": I.Opaque("function registry")})})
        ext = {"FunctionRegistry::get_function_name": lambda a: names[deref(a[1]).fields["0"]]}
        for q, want in (("f", {10, 12, 14}), ("g", {11}), ("h", {13}), ("y", ("var", 1, 4)), ("nope", "err")):
            try:
                r = I.Interp(f, max_depth=5, extern=ext).apply(fn, [ctx, I.Enum("StructId", None, {"0": 0}), loc(q)])
            except I.Unknown as e:
                if "panicking" in str(e):
                    bad = bad or "looking up `%s` in a struct whose methods are declared in the order %s aborts (%s)" % (q, [names[i] for i in order], str(e)[:60])
                    continue
                chk.unreadable("C16.member/candidates", "Context::get_struct_member_expression on the model struct", str(e)[:100], where(fn))
                return
            n += 1
            got = None
            if isinstance(r, I.Enum) and r.variant == "Ok":
                v = r.fields["0"]
                if v.variant == "Method":
                    got = {x.fields["0"] for x in v.fields["0"]}
                elif v.variant == "Variable":
                    got = ("var", v.fields.get("2"), v.fields["0"].fields["0"])
            elif isinstance(r, I.Enum) and r.variant == "Err":
                got = "err"
            if got != want and not bad:
                bad = "in a struct whose methods are declared in the order %s, `%s` resolves to %s, must be %s: which overloads take part in the resolution depends on the declaration order" % (
                    [names[i] for i in order], q, sorted(got) if isinstance(got, set) else got, sorted(want) if isinstance(want, set) else want)
    chk.ob("C16.member/candidates", bad is None, bad or "%d lookups over %d declaration orders: every overload of the name, and only those" % (n, len(orders)), where(fn), sample={"lookups": n})

def rule_overload_identity(chk):
    """Which declarations are the same overload: Context::check_existing_functions_in_scope read on a model scope that
    holds one function, against new signatures whose parameter lists are built from {in, out, inout} x {T, U}. A new
    declaration is a redeclaration of the existing function exactly when the parameter lists are identical (types AND
    in / out / inout); anything else is another overload and must enter the candidate set - merging `f(out T)` with
    `f(inout T)` makes the selected function depend on which one was declared first."""
    f = chk.facts
    fn = f.fn("check_existing_functions_in_scope", TY)
    if not fn:
        chk.note("C16.overloads: check_existing_functions_in_scope not found; not decided")
        return
    opt = lambda v: I.Enum("Option", "None") if v is None else I.Enum("Option", "Some", {"0": v})
    pt = lambda t, m: I.Enum("ParamType", None, {"type_id": I.Enum("TypeId", None, {"0": t}), "input_modifier": I.Enum("InputModifier", m), "interpolation_modifier": opt(None), "precise": False})
    slots = [(3, "In"), (3, "Out"), (3, "InOut"), (4, "In"), (4, "Out")]
    lists = [[s_] for s_ in slots] + [[a, b] for a in slots[:3] for b in slots[:4]]
    sig = lambda ps: I.Enum("FunctionSignature", None, {"return_type": I.Opaque("return type"), "template_params": [], "param_types": [pt(*p_) for p_ in ps]})
    show = lambda ps: "f(%s)" % ", ".join("%s%s" % ({"In": "", "Out": "out ", "InOut": "inout "}[m], {3: "T", 4: "U"}[t]) for t, m in ps)
    name = I.Enum("Located", None, {"node": "f", "location": I.Opaque("location")})
    bad = None
    n = 0
    for existing in lists:
        for new in lists:
            for has_impl, is_def in ((False, False), (True, True), (False, True)):
                ext = {"find_identifier_in_scope": lambda a: opt(I.Enum("VariableExpression", "Function", {"0": I.Enum("UnresolvedFunction", None, {"overloads": [I.Enum("FunctionId", None, {"0": 0})]})})),
                       "FunctionRegistry::get_function_signature": lambda a, e_=existing: sig(e_), "FunctionRegistry::get_function_implementation": lambda a, h=has_impl: opt(I.Opaque("implementation") if h else None),
                       "FunctionRegistry::get_intrinsic_data": lambda a: opt(None)}
                ctx = I.Enum("Context", None, {"module": I.Enum("Module", None, {"function_registry": I.Opaque("function registry")}), "scopes": [I.Opaque("scope")]})
                try:
                    r = I.Interp(f, max_depth=6, extern=ext).apply(fn, [ctx, 0, name, sig(new), is_def])
                except I.Unknown as e:
                    if "panicking" in str(e):
                        bad = bad or "declaring %s after %s aborts (%s)" % (show(new), show(existing), str(e)[:60])
                        n += 1
                        continue
                    chk.unreadable("C16.overloads/identity", "check_existing_functions_in_scope on a model scope", str(e)[:100], where(fn))
                    return
                n += 1
                same = existing == new
                if isinstance(r, I.Enum) and r.variant == "Ok":
                    d = r.fields["0"]
                    got = "redeclaration" if isinstance(d, I.Enum) and d.variant == "Some" else "new overload"
                else:
                    got = "refused"
                want = ("refused" if (is_def and has_impl) else "redeclaration") if same else "new overload"
                if got != want and bad is None:
                    bad = "declaring %s after %s%s is treated as %s; it is %s" % (show(new), show(existing), " (both with bodies)" if has_impl and is_def else "", got,
                                                                                   "the same function" if same else "another overload: the parameter lists differ, both must be candidates")
    chk.ob("C16.overloads/identity", bad is None, bad or "%d declaration pairs: the same overload exactly when the parameter lists are identical" % n, where(fn), sample={"pairs": n})
    chk.floor("C16.floor/declaration-pairs", n, 500, "declaration pairs evaluated", where(fn))


def run(chk):
    f = chk.facts
    ip = I.Interp(f)
    rule_rank(chk, ip)
    rule_dimension_total(chk, ip)
    rule_candidates_once(chk)
    rule_member_candidates(chk)
    rule_overload_identity(chk)
    import c03
    c03.rule_lvalue_destination(chk, prefix="C16.viable/lvalue-parameter")      # which candidates are viable at all: an out / inout parameter takes only an lvalue of its own type
    fft = chk.anchor("C16.anchor/find_function_type", f.fn("find_function_type", TY), "find_function_type")
    if fft:
        resolved = False
        try:
            resolved = rule_resolution_eval(chk, fft)
        except Exception as e:
            chk.note("overload resolution not evaluated: %r" % (e,))
        if not resolved:
            rule_unique(chk, fft)
            rule_arity(chk, fft)
            rule_sym(chk, fft)
    try:
        rule_resolution_types(chk)
    except I.Unknown as e:
        chk.note('C16.types not evaluated: %s' % e)

OVL_TYPES = ["Bool", "Int32", "UInt32", "Float16", "Float32", "Float322", "Float324", "Int323"]
OVL_ARGS = [("Bool", 0, "Rvalue"), ("Int32", 0, "Lvalue"), ("Int32", 1, "Lvalue"), ("UInt32", 0, "Rvalue"), ("IntLiteral", 0, "Rvalue"), ("FloatLiteral", 0, "Rvalue"),
            ("Float16", 0, "Lvalue"), ("Float32", 0, "Rvalue"), ("Float32", 0, "Lvalue"), ("Float322", 0, "Lvalue"), ("Float324", 0, "Rvalue"), ("Int323", 0, "Lvalue"), ("Enum", 0, "Rvalue")]
_W = {}


def _ovl_task(i):
    """all overload sets {f(P), f(Q)} and {f(P), f(Q), f(R)} containing parameter type OVL_TYPES[i] as the first
    overload, every permutation of the declaration order, every argument: same verdict in every order; an overload whose
    parameter is exactly the argument's type wins. -> (i, readable, sets, calls, first order failure, first exact failure)"""
    import itertools
    import elabmodel as EM
    if "el" not in _W:
        _W["el"] = EM.Elab(_W["facts"])
    el = _W["el"]
    types = [t for t in OVL_TYPES if t in el.u.names]
    if i >= len(types):
        return (i, True, 0, 0, None, None)
    order_bad = exact_bad = None
    nsets = ncalls = 0
    rest = types[i + 1:]
    sets = [(types[i], q) for q in rest] + [(types[i], q, r) for q, r in itertools.combinations(rest, 2)]
    for tset in sets:
        nsets += 1
        ovl = [(k, [(t, 0, "In")]) for k, t in enumerate(tset)]
        for an, am, avt in OVL_ARGS:
            if an not in el.u.names:
                continue
            arg = el.ety(an, am, avt)
            verdicts = {}
            for perm in itertools.permutations(ovl):
                ncalls += 1
                r = el.run_overloads(list(perm), [arg])
                if r[0] == "unreadable":
                    return (i, False, nsets, ncalls, r[1], None)
                verdicts[tuple(k for k, _p in perm)] = r
            vs = set(verdicts.values())
            what = "f(%s) called with %s" % ("), f(".join(tset), el.describe(arg))
            if len(vs) > 1 and order_bad is None:
                a, b = list(verdicts.items())[0], [x for x in verdicts.items() if x[1] != list(verdicts.values())[0]][0]
                name = lambda v: ("f(%s)" % tset[v[1]]) if v[0] == "Ok" else ("ambiguous" if v[1] is True else "no match" if v[1] is False else str(v))
                order_bad = "%s: declared in order %s it resolves to %s, in order %s to %s" % (
                    what, [tset[k] for k in a[0]], name(a[1]), [tset[k] for k in b[0]], name(b[1]))
            if an in tset and exact_bad is None:
                want = ("Ok", tset.index(an))
                wrong = [v for v in vs if v != want]
                if wrong:
                    v = wrong[0]
                    exact_bad = "%s: the overload taking exactly %s must be chosen, got %s" % (
                        what, an, ("f(%s)" % tset[v[1]]) if v[0] == "Ok" else ("an ambiguity error" if v[1] is True else "no match" if v[1] is False else str(v)))
    return (i, True, nsets, ncalls, order_bad, exact_bad)

OVL2_TYPES = ["Int32", "UInt32", "Float32", "Float322"]
OVL2_TYPES_QUICK = ["Int32", "Float32", "Float322"]
OVL2_ARGS = [("Int32", 0, "Lvalue"), ("UInt32", 0, "Rvalue"), ("IntLiteral", 0, "Rvalue"), ("Float32", 0, "Lvalue"), ("Float322", 0, "Rvalue"), ("Bool", 0, "Rvalue")]


def _ovl2_task(i):
    """two-parameter overloads: every pair {f(P1,P2), f(Q1,Q2)} whose first signature is number i, both declaration
    orders, every pair of arguments"""
    import itertools
    import elabmodel as EM
    if "el" not in _W:
        _W["el"] = EM.Elab(_W["facts"])
    el = _W["el"]
    types = [t for t in (OVL2_TYPES if _W.get("tier") == "thorough" else OVL2_TYPES_QUICK) if t in el.u.names]
    sigs = list(itertools.product(types, repeat=2))
    if i >= len(sigs):
        return (i, True, 0, 0, None, None)
    order_bad = exact_bad = None
    nsets = ncalls = 0
    args = [el.ety(*a) for a in OVL2_ARGS if a[0] in el.u.names]
    for j in range(i + 1, len(sigs)):
        nsets += 1
        tset = (sigs[i], sigs[j])
        ovl = [(k, [(t, 0, "In") for t in sg]) for k, sg in enumerate(tset)]
        for a in args:
            for b in args:
                ncalls += 2
                r1 = el.run_overloads(ovl, [a, b])
                r2 = el.run_overloads(ovl[::-1], [a, b])
                if r1[0] == "unreadable" or r2[0] == "unreadable":
                    return (i, False, nsets, ncalls, r1[1] if r1[0] == "unreadable" else r2[1], None)
                what = "f(%s), f(%s) called with (%s, %s)" % (", ".join(tset[0]), ", ".join(tset[1]), el.describe(a), el.describe(b))
                name = lambda v: ("f(%s)" % ", ".join(tset[v[1]])) if v[0] == "Ok" else ("ambiguous" if v[1] is True else "no match" if v[1] is False else str(v))
                if r1 != r2 and order_bad is None:
                    order_bad = "%s: resolves to %s, with the declarations swapped to %s" % (what, name(r1), name(r2))
                exact = tuple(el.describe(x).replace("const ", "").split()[0] for x in (a, b))
                if exact in tset and exact_bad is None and (r1 != ("Ok", tset.index(exact)) or r2 != ("Ok", tset.index(exact))):
                    exact_bad = "%s: the overload taking exactly these types must be chosen, got %s" % (what, name(r1 if r1 != ("Ok", tset.index(exact)) else r2))
    return (i, True, nsets, ncalls, order_bad, exact_bad)



OVL3_TYPES = ["Int32", "Float32", "Float322"]
OVL3_ARGS = [("Int32", 0, "Lvalue"), ("Int32", 0, "Rvalue"), ("Int32", 1, "Lvalue"), ("Float32", 0, "Lvalue"), ("Float32", 0, "Rvalue"), ("Float322", 0, "Lvalue"), ("IntLiteral", 0, "Rvalue")]


def _ovl3_task(i):
    """overloads that differ in parameter direction: every pair {f(d1 P), f(d2 Q)} with P = OVL3_TYPES[i], d1, d2 in
    in / out / inout (the two signatures distinct), both declaration orders, every argument"""
    import itertools
    import elabmodel as EM
    if "el" not in _W:
        _W["el"] = EM.Elab(_W["facts"])
    el = _W["el"]
    types = [t for t in OVL3_TYPES if t in el.u.names]
    if i >= len(types):
        return (i, True, 0, 0, None, None)
    order_bad = None
    nsets = ncalls = 0
    dirs = ("In", "Out", "InOut")
    args = [el.ety(*a) for a in OVL3_ARGS if a[0] in el.u.names]
    for q in types[i:]:
        for d1, d2 in itertools.product(dirs, repeat=2):
            if q == types[i] and d1 >= d2:
                continue
            nsets += 1
            ovl = [(0, [(types[i], 0, d1)]), (1, [(q, 0, d2)])]
            for a in args:
                ncalls += 2
                r1 = el.run_overloads(ovl, [a])
                r2 = el.run_overloads(ovl[::-1], [a])
                if r1[0] == "unreadable" or r2[0] == "unreadable":
                    return (i, False, nsets, ncalls, r1[1] if r1[0] == "unreadable" else r2[1], None)
                if r1 != r2 and order_bad is None:
                    sig = ["f(%s %s)" % (d.lower(), t) for d, t in ((d1, types[i]), (d2, q))]
                    name = lambda v: sig[v[1]] if v[0] == "Ok" else ("ambiguous" if v[1] is True else "no match" if v[1] is False else str(v))
                    order_bad = "%s, %s called with %s: resolves to %s, with the declarations swapped to %s" % (sig[0], sig[1], el.describe(a), name(r1), name(r2))
    return (i, True, nsets, ncalls, order_bad, None)


def rule_resolution_types(chk):
    """Overload resolution end to end (write_function -> find_function_type -> find_overload_casts ->
    ImplicitConversion::find / get_rank, none scripted) on the model type registry: every set of two or three
    one-parameter overloads over eight parameter types, every declaration order, thirteen argument types; every pair of
    two-parameter overloads over four parameter types, both orders, 36 argument pairs."""
    import multiprocessing as mp
    import os
    f = chk.facts
    wf = f.fn("write_function", TY)
    if not wf:
        return False
    _W.clear()
    _W["facts"] = f
    _W["tier"] = chk.tier
    items = list(range(len(OVL_TYPES)))
    items2 = list(range(len(OVL2_TYPES) ** 2))
    n = min(16, int(os.environ.get("VERIF_JOBS", "0") or 0) or (os.cpu_count() or 2))
    if n <= 1:
        res = [_ovl_task(x) for x in items] + [_ovl2_task(x) for x in items2] + [_ovl3_task(x) for x in range(len(OVL3_TYPES))]
    else:
        with mp.get_context("fork").Pool(n) as pool:
            r1 = pool.map_async(_ovl_task, items, chunksize=1)
            r2 = pool.map_async(_ovl2_task, items2, chunksize=1)
            r3 = pool.map_async(_ovl3_task, list(range(len(OVL3_TYPES))), chunksize=1)
            res = r1.get() + r2.get() + r3.get()
    if not all(r[1] for r in res):
        return chk.unreadable("C16.types/readable", "write_function on the type model", [r[4] for r in res if not r[1]][:1], where(wf))
    sets, calls = sum(r[2] for r in res), sum(r[3] for r in res)
    ob = [r[4] for r in res if r[4]]
    eb = [r[5] for r in res if r[5]]
    chk.ob("C16.types/order-independent", not ob, "%d overload sets, %d resolutions: the chosen overload (or the error) is the same for every declaration order" % (sets, calls)
           if not ob else ob[0], where(wf), sample={"sets": sets, "resolutions": calls})
    chk.ob("C16.types/exact-wins", not eb, "whenever an overload takes exactly the argument's type it is the one chosen" if not eb else eb[0], where(wf))
    chk.floor("C16.floor/type-resolutions", calls, 1000, "resolutions evaluated on the type model", where(wf))
    return True



def rule_resolution_eval(chk, fft):
    """find_function_type evaluated as a whole (find_overload_casts and the signature lookup are scripted) on every
    ordered overload list of length 1..3 over nine candidate profiles for a two-argument call (casts fail / wrong
    arity / default parameter / exact / promotion on either argument / expand / contract / conversion). The result must
    be: Ok(the one candidate that is not numerically worse than any other and has the best vector-rank histogram),
    the ambiguity error when several remain, the no-match error when none does - and the same whatever the order of
    declaration. True when readable."""
    import itertools
    f = chk.facts
    ORD = {r: i for i, r in enumerate(REF_ORDER)}
    VORD = ["Contract", "Expand", "Exact"]

    def conv(num, vec):
        prim = I.Enum("Option", "None") if num == "Exact" else I.Enum("Option", "Some", {"0": I.Enum("PrimaryCast", None, {
            "source": I.Enum("TypeId", None, {"0": 1}), "dest": I.Enum("TypeId", None, {"0": 2}), "rank": I.Enum("NumericRank", num)})})
        S, V3 = I.Enum("NumericDimension", "Scalar"), I.Enum("NumericDimension", "Vector", {"0": 3})
        dim = {"Exact": I.Enum("Option", "None"), "Expand": I.Enum("Option", "Some", {"0": I.Enum("DimensionCast", None, {"0": S, "1": V3})}),
               "Contract": I.Enum("Option", "Some", {"0": I.Enum("DimensionCast", None, {"0": V3, "1": S})})}[vec]
        return I.Enum("ImplicitConversion", None, {"0": I.Opaque("source"), "1": I.Enum("Option", "None"), "2": dim, "3": prim, "4": I.Enum("Option", "None")})
    E = "Exact"
    PROFILES = [
        ("casts-fail", 2, 2, None), ("too-few-params", 1, 1, [(E, E), (E, E)]), ("too-many-required", 3, 3, [(E, E), (E, E)]),
        ("exact", 2, 2, [(E, E), (E, E)]), ("promote-2nd", 2, 2, [(E, E), ("Promotion", E)]), ("promote-1st", 2, 2, [("Promotion", E), (E, E)]),
        ("expand-1st", 2, 2, [(E, "Expand"), (E, E)]), ("contract-2nd", 2, 2, [(E, E), (E, "Contract")]), ("default-param", 3, 2, [(E, E), (E, E)]),
    ]
    n = 0
    bad = []
    for k in (1, 2, 3):
        for combo in itertools.product(range(len(PROFILES)), repeat=k):
            n += 1
            profs = [PROFILES[i] for i in combo]
            ext = {
                "FunctionRegistry::get_function_signature": lambda a, profs=profs: I.Enum("FunctionSignature", None, {
                    "param_types": [I.Opaque("param")] * profs[a[1].fields["0"]][1], "non_default_params": profs[a[1].fields["0"]][2], "template_params": []}),
                "find_overload_casts": lambda a, profs=profs: (I.Enum("Result", "Err", {"0": ()}) if profs[a[0].fields["0"]][3] is None else
                                                              I.Enum("Result", "Ok", {"0": (a[0], [conv(nu, ve) for nu, ve in profs[a[0].fields["0"]][3]])})),
            }
            ip = I.Interp(f, max_depth=8, extern=ext)
            ip.max_loop = 64
            overloads = [I.Enum("FunctionId", None, {"0": i}) for i in range(k)]
            try:
                r = ip.apply(fft, [overloads, I.Opaque("template args"), [I.Opaque("arg"), I.Opaque("arg")], I.Opaque("loc"),
                                   I.Enum("Context", None, {"module": I.Enum("Module", None, {"function_registry": I.Opaque("functions")})})])
            except I.Unknown as e:
                if n == 1:
                    return False
                bad.append(([p[0] for p in profs], "evaluation stopped: %s" % str(e)[:80]))
                continue
            if isinstance(r, I.Enum) and r.variant == "Ok":
                got = ("Ok", r.fields["0"][0].fields["0"])
            elif isinstance(r, I.Enum) and r.variant == "Err":
                e0 = r.fields["0"]
                got = ("Err", e0.fields.get("3")) if isinstance(e0, I.Enum) and e0.variant == "FunctionArgumentTypeMismatch" else ("Err", repr(e0)[:40])
            else:
                got = repr(r)[:60]
            cands = [(i, p[3]) for i, p in enumerate(profs) if p[3] is not None and p[2] <= 2 <= p[1]]
            surv = [(i, c) for i, c in cands if all(all(ORD[c[a][0]] <= ORD[o[a][0]] for a in range(2)) for j, o in cands if j != i)]
            if not surv:
                want = ("Err", False)
            else:
                hist = {i: [sum(1 for x in c if x[1] == v) for v in VORD] for i, c in surv}
                best = min(hist.values())
                B = [i for i, c in surv if hist[i] == best]
                want = ("Ok", B[0]) if len(B) == 1 else ("Err", True)
            if got != want:
                bad.append(([p[0] for p in profs], "gives %s, must be %s" % ((got,), (want,))))
    ok = not bad
    chk.ob("C16.resolve/model", ok, "%d ordered overload lists: the selected overload / ambiguity / no-match verdict equals the resolution rule" % n if ok else
           "overload resolution is wrong for %d of %d overload lists, e.g. candidates %s: %s" % (len(bad), n, bad[0][0], bad[0][1]), where(fft), sample={"lists": n, "wrong": len(bad)})
    for k_, txt in (("C16.unique/ok-only-when-single", "Ok only for a single survivor"), ("C16.unique/ambiguous-error", "several survivors -> ambiguity error"),
                    ("C16.arity/min", "arity lower bound"), ("C16.arity/max", "arity upper bound"), ("C16.sym/tie-break", "vector-rank tie-break")):
        chk.ob(k_, ok, "decided by the evaluated resolution (%s)" % txt if ok else "see C16.resolve/model", where(fft), trivial=True)
    return True


def rule_rank(chk, ip):
    f = chk.facts
    order = chk.anchor("C16.anchor/NumericRank::order", f.fn("order", TY, self_ty="NumericRank"), "NumericRank::order")
    comp = chk.anchor("C16.anchor/NumericRank::compare", f.fn("compare", TY, self_ty="NumericRank"), "NumericRank::compare")
    ranks = f.variants("casting::NumericRank", TY)
    chk.ob("C16.rank/variants", ranks is not None and set(ranks) == set(REF_ORDER), "NumericRank = %s" % ranks, "typer/src/casting.rs")
    vals = {}
    if order and ranks:
        for r in ranks:
            try:
                vals[r] = ip.apply(order, [I.Enum("NumericRank", r)])
            except I.Unknown as e:
                vals[r] = None
        inj = len(set(vals.values())) == len(vals) and None not in vals.values()
        chk.ob("C16.rank/order-injective", inj, "order: %s" % vals if inj else "NumericRank::order is not injective: %s" % vals, where(order))
        if inj:
            got = sorted(vals, key=lambda r: vals[r])
            for i, r in enumerate(REF_ORDER):
                chk.ob("C16.rank/order/%s" % r, i < len(got) and got[i] == r,
                       "rank #%d" % i if i < len(got) and got[i] == r else
                       "rank order is %s; the reference puts %s at position %d (Exact must be the least)" % (got, r, i),
                       where(order), sample={"rank": r, "value": vals.get(r)})
    if comp and ranks and vals and None not in vals.values():
        for a in ranks:
            for b in ranks:
                want = "Better" if vals[a] < vals[b] else ("Equal" if vals[a] == vals[b] else "Worse")
                try:
                    got = ip.apply(comp, [I.Enum("NumericRank", a), I.Enum("NumericRank", b)])
                    gv = got.variant if isinstance(got, I.Enum) else str(got)
                except I.Unknown as e:
                    gv = "unreadable (%s)" % e
                chk.ob("C16.rank/compare/%s-vs-%s" % (a, b), gv == want, "%s vs %s -> %s" % (a, b, gv) if gv == want else
                       "compare(%s, %s) = %s, must be %s" % (a, b, gv, want), where(comp), sample={"a": a, "b": b, "result": gv})
    # VectorRank::worst_to_best
    w2b = chk.anchor("C16.anchor/worst_to_best", f.fn("worst_to_best", TY), "VectorRank::worst_to_best")
    vr = f.variants("casting::VectorRank", TY)
    if w2b and vr:
        consts = [b for b in f.crates[TY]["bodies"] if b["kind"] == "Const" and b["path"].startswith(w2b["path"])]
        seq = []
        for c in consts + [w2b]:
            for arr in F.exprs(c["thir"], "Array"):
                s = [F.adt_ctor(x) for x in arr["elems"]]
                if s and all(x and x[0] == "VectorRank" for x in s):
                    seq = [x[1] for x in s]
            if seq:
                break
        ok = seq == ["Contract", "Expand", "Exact"] and set(seq) == set(vr)
        chk.ob("C16.rank/vector-order", ok, "worst_to_best = %s" % seq if ok else
               "VectorRank::worst_to_best is %s; must be a permutation of %s from Contract (worst) to Exact (best)" % (seq, vr), where(w2b))
    # find / get_rank evaluated over a finite model of the type registry (convmodel.py)
    import convmodel as CM
    gr = chk.anchor("C16.anchor/get_rank", f.fn("get_rank", TY, self_ty="ImplicitConversion"), "ImplicitConversion::get_rank")
    find = chk.anchor("C16.anchor/ImplicitConversion::find", f.fn("find", TY, self_ty="ImplicitConversion"), "ImplicitConversion::find")
    scalars = f.variants("ir_types::ScalarType", "rssl_ir")
    if gr and find and scalars:
        cv = CM.Conversions(f)
        r = cv.find("Float32", "Rvalue", "Float32", "Rvalue")
        rk = cv.rank(r[1]) if r[0] == "Ok" else r
        chk.ob("C16.rank/no-cast-is-exact", rk == ("Exact", "Exact"),
               "identical types: no cast, ranked (Exact, Exact)" if rk == ("Exact", "Exact") else
               "a conversion between identical types is ranked %s, must be (Exact, Exact)" % (rk,), where(gr))
        n = 0
        for a in scalars:
            for b_ in scalars:
                if a == b_:
                    continue
                n += 1
                r = cv.find(a, "Rvalue", b_, "Rvalue")
                if r[0] == "Ok":
                    rv = cv.parts(r[1])[2] or "Exact"
                    rk = cv.rank(r[1])
                    if rk[0] in ("aborts", "unreadable") or rk[0] != rv:
                        rv = "%s (get_rank: %s)" % (rv, rk[0])
                elif r[0] == "Err":
                    rv = "refused"
                else:
                    rv = "%s (%s)" % r
                ok = rv in REF_ORDER and rv != "Exact"
                chk.ob("C16.rank/matrix/%s-to-%s" % (a, b_), ok, "%s -> %s: %s" % (a, b_, rv) if ok else
                       "conversion %s -> %s is ranked %s: a conversion between distinct scalar types must exist and have a rank worse than Exact"
                       % (a, b_, rv), where(find), sample={"from": a, "to": b_, "rank": rv})
        chk.floor("C16.floor/matrix", n, 56, "off-diagonal scalar pairs", where(find))
        same = []
        for a in scalars:
            r = cv.find(a, "Rvalue", a, "Rvalue")
            if not (r[0] == "Ok" and cv.parts(r[1])[2] is None):
                same.append(a)
        chk.ob("C16.rank/matrix/diagonal", not same, "identical scalar types need no numeric cast" if not same else
               "identical scalar types %s get a numeric cast (an exact match would be ranked worse than Exact)" % same, where(find))


def rule_unique(chk, fft):
    cfg = M.Cfg(fft)
    oks = [i for i, j, s in cfg.stmts(lambda s: s.get("r") == "Agg" and short(s.get("adt", "")) == "Result" and s.get("variant") == "Ok")]
    chk.ob("C16.unique/site", len(oks) >= 1, "%d Ok construction site(s)" % len(oks), where(fft), trivial=True)

    def len_eq_1(src):
        if src[0] != "bin" or src[1] != "Eq":
            return False
        s = src[2]
        consts = [M.op_const(s[x]) for x in ("a", "b")]
        if not any(c is not None and c.get("v") == 1 for c in consts):
            return False
        for x in ("a", "b"):
            p = M.op_place(s[x])
            if p is not None:
                sig = cfg.slice([p if isinstance(p, int) else p["l"]], through_calls=False)
                if sig.has_call("::len"):
                    return True
        return False
    for b in oks:
        ok, n = M.dominated_by_guard(cfg, b, len_eq_1, want=True)
        chk.ob("C16.unique/ok-only-when-single", ok,
               "Ok(candidate) is built only under `casts.len() == 1`" if ok else
               "find_function_type can return Ok without the unique-winner test `len() == 1` (first candidate wins)", where(fft))
    # ambiguity error: FunctionArgumentTypeMismatch(.., true) under len() > 1
    amb = []
    for i, j, s in cfg.stmts(lambda s: s.get("r") == "Agg" and s.get("variant") == "FunctionArgumentTypeMismatch"):
        last = M.op_const(s["xs"][-1]) if s.get("xs") else None
        if last is not None and last.get("v") is True:
            amb.append(i)

    def len_gt_1(src):
        if src[0] != "bin" or src[1] not in ("Gt", "Ge", "Lt", "Le", "Ne"):
            return False
        return any((M.op_const(src[2][x]) or {}).get("v") in (1, 2) for x in ("a", "b"))
    ok = bool(amb) and all(M.dominated_by_guard(cfg, b, len_gt_1, want=True)[0] or M.dominated_by_guard(cfg, b, len_gt_1, want=False)[0] for b in amb)
    chk.ob("C16.unique/ambiguous-error", ok, "several equally good candidates -> ambiguity error" if ok else
           "the ambiguity error (FunctionArgumentTypeMismatch(.., true)) under `len() > 1` is gone", where(fft))


def rule_sym(chk, fft):
    if rule_tournament_eval(chk, fft):
        return          # the tournament was read completely; the shape rules below are the fallback when it is not readable
    loops = F.for_loops(fft["thir"])
    # the tournament: two nested loops over the same vector, containing a call to NumericRank::compare
    outer = inner = None
    for (p, it, body, node) in loops:
        if body is None:
            continue
        nested = [l for l in F.for_loops(body) if l[2] is not None and any(short(c.get("fn") or "") == "compare" for c in F.exprs(l[2], "Call"))]
        for l2 in nested:
            a, b = F.leftmost_var(it), F.leftmost_var(l2[1])
            if a and b and a["id"] == b["id"] and plain_iter(it) and plain_iter(l2[1]):
                outer, inner = (p, it, body, node), l2
    if not chk.anchor("C16.anchor/tournament", outer, "nested candidate-vs-against loops, each over the whole of the same vector", where(fft)):
        return
    ob = {i: (n, p) for i, n, p in F.pat_binds(outer[0])}
    ib = {i: (n, p) for i, n, p in F.pat_binds(inner[0])}
    # innermost zip loop
    zips = [l for l in F.for_loops(inner[2]) if l[2] is not None]
    ok_cmp = False
    only_worse = False
    for (zp, zit, zbody, _) in zips:
        zit_s = F.strip(zit)
        if not (zit_s.get("k") == "Call" and short(zit_s.get("fn") or "") == "zip"):
            continue
        recv = F.leftmost_var(zit_s["args"][0])
        arg = F.leftmost_var(zit_s["args"][1])
        zb = {i: p for i, n, p in F.pat_binds(zp)}
        first = [i for i, p in zb.items() if p == ("0",)]
        second = [i for i, p in zb.items() if p == ("1",)]
        if not (recv and arg and first and second):
            continue
        recv_outer = recv["id"] in ob
        arg_inner = arg["id"] in ib
        for c in F.exprs(zbody, "Call"):
            if short(c.get("fn") or "") != "compare":
                continue
            l, r = resolve_let(zbody, F.leftmost_var(c["args"][0])), resolve_let(zbody, F.leftmost_var(c["args"][1]))
            ok_cmp = bool(l and r and l["id"] == first[0] and r["id"] == second[0] and recv_outer and arg_inner)
        for m in F.exprs(zbody, "Match"):
            vs = {}
            for arm in m["arms"]:
                pv = F.pat_variant(arm["pat"])
                if pv and pv[0] == "ConversionPriority":
                    vs[pv[1]] = any(F.lit(a["r"]) == ("bool", False) for a in F.exprs(arm["body"], "Assign"))
            if vs:
                only_worse = vs == {"Better": False, "Equal": False, "Worse": True}
    chk.ob("C16.sym/compare-operands", ok_cmp,
           "compare(candidate's rank, against's rank), candidate from the outer loop, against from the inner loop" if ok_cmp else
           "the rank comparison no longer compares (outer candidate, inner candidate) position-wise", where(fft))
    chk.ob("C16.sym/only-worse-disqualifies", only_worse, "only `Worse` clears not_worse_than" if only_worse else
           "the tournament no longer disqualifies exactly on ConversionPriority::Worse", where(fft))
    # the pushed survivor is the outer candidate
    pushed_outer = False
    for c in F.exprs(outer[2], "Call"):
        if (c.get("fn") or "").endswith("Vec::<T, A>::push") and not any(x is c for l in F.for_loops(outer[2]) if l[2] for x in F.walk(l[2])):
            vs = {v["id"] for v in F.exprs(c["args"][1], "Var")}
            pushed_outer = bool(vs) and vs <= set(ob)
    chk.ob("C16.sym/survivor", pushed_outer, "the surviving candidate pushed is the outer loop's" if pushed_outer else
           "the candidate pushed into the winners is not the outer loop's candidate", where(fft))
    # skip self: `if candidate == against { continue }`
    skip = False
    for n in F.exprs(inner[2], "If"):
        if any(x.get("k") == "Continue" for x in F.walk(n["then"])):
            vs = {v["id"] for v in F.exprs(n["cond"], "Var")}
            skip = bool(vs & set(ob)) and bool(vs & set(ib))
    # ... and that is the only reason an opponent is skipped: every `continue` / early exit of the inner loop body
    # (outside the per-argument loop) is guarded by a single equality between the outer and the inner candidate
    zip_nodes = [x for l in F.for_loops(inner[2]) if l[2] is not None for x in F.walk(l[3])]
    other = []
    for n in F.exprs(inner[2], "If"):
        if any(n is z for z in zip_nodes):
            continue
        if not any(x.get("k") == "Continue" for x in F.walk(n["then"])):
            continue
        c = F.strip(n["cond"])
        is_eq = (c.get("k") == "Binary" and c["op"] == "Eq") or (c.get("k") == "Call" and short(c.get("fn") or "") == "eq")
        if not is_eq:
            other.append(n)
    chk.ob("C16.sym/skip-only-self", skip and not other, "an opponent is skipped only when it is the candidate itself" if skip and not other else
           "the tournament skips opponents for another reason than being the candidate itself (%s): a candidate that only loses to a skipped opponent survives, so the outcome depends on declaration order"
           % ("condition is not a single `candidate == against`" if other else "no self test"), where(fft, other[0]) if other else where(fft))
    chk.ob("C16.sym/skip-self", skip, "a candidate is not compared with itself" if skip else "the `candidate == against -> continue` test is gone", where(fft))
    # vector tie-break: best_order = min over all, filter == best
    fold = False
    for (p, it, body, node) in loops:
        if body is None:
            continue
        for n in F.exprs(body, "If"):
            c = F.strip(n["cond"])
            is_lt = (c.get("k") == "Binary" and c["op"] == "Lt") or (c.get("k") == "Call" and short(c.get("fn") or "") == "lt")
            if is_lt and any(True for _ in F.exprs(n["then"], "Assign")):
                args = c["args"] if c.get("k") == "Call" else [c["l"], c["r"]]
                lv, rv = F.leftmost_var(args[0]), F.leftmost_var(args[1])
                asg = [F.leftmost_var(a["l"]) for a in F.exprs(n["then"], "Assign")]
                pb = {i for i, _, _ in F.pat_binds(p)}
                fold = bool(lv and rv and lv["id"] in pb and asg and asg[0] and asg[0]["id"] == rv["id"])
    chk.ob("C16.sym/min-fold", fold, "best_order is the minimum over all survivors (`if order < best { best = order }`)" if fold else
           "the vector-rank tie-break no longer takes the minimum over all surviving candidates", where(fft))


def plain_iter(it):
    """`&v`, `v.iter()` or `v.into_iter()` — the whole collection, no skip/take/filter adaptor."""
    it = F.strip(it)
    if it.get("k") == "Var":
        return True
    if it.get("k") == "Call" and short(it.get("fn") or "") == "enumerate" and it.get("args"):
        return plain_iter(it["args"][0])       # enumerate() numbers the elements, it drops none
    if it.get("k") == "Call" and short(it.get("fn") or "") in ("iter", "into_iter", "deref", "as_slice") and it.get("args"):
        return plain_iter(it["args"][0])
    return False


def resolve_let(scope, v):
    """Follow `let x = <expr>` inside scope to the variable at the bottom of expr."""
    seen = 0
    while v is not None and seen < 4:
        seen += 1
        nxt = None
        for s in F.walk(scope):
            if s.get("k") == "LetStmt" and s["pat"].get("k") == "Bind" and s["pat"]["id"] == v["id"] and "init" in s:
                nxt = F.leftmost_var(s["init"])
        if nxt is None:
            return v
        v = nxt
    return v


def rule_arity(chk, fft):
    cfg = M.Cfg(fft)
    sites = cfg.calls("find_overload_casts")
    chk.ob("C16.arity/site", bool(sites), "find_overload_casts call", where(fft), trivial=True)

    def field_cmp(field):
        def pred(src):
            if src[0] != "bin" or src[1] not in ("Le", "Ge", "Lt", "Gt"):
                return False
            s = src[2]
            for x in ("a", "b"):
                p = M.op_place(s[x])
                if p is not None:
                    sig = cfg.slice([p if isinstance(p, int) else p["l"]], through_calls=True)
                    if sig.has_field(field) or (field == "param_types" and sig.has_call("::len") and sig.has_field("param_types")):
                        return True
            return False
        return pred
    for bb, t in sites:
        ok1, _ = M.dominated_by_guard(cfg, bb, field_cmp("non_default_params"), want=True)
        ok2, _ = M.dominated_by_guard(cfg, bb, field_cmp("param_types"), want=True)
        chk.ob("C16.arity/min", ok1, "candidate considered only if args >= non_default_params" if ok1 else
               "a candidate is tried without the `param_types.len() >= non_default_params` test", where(fft, t.get("ln")))
        chk.ob("C16.arity/max", ok2, "candidate considered only if args <= parameter count" if ok2 else
               "a candidate is tried without the `param_types.len() <= signature.param_types.len()` test", where(fft, t.get("ln")))


# ------------------------------------------------------------------ find <-> get_rank agreement on dimension casts

def dims():
    out = [("Scalar", None)]
    out += [("Vector", n) for n in (1, 2, 3, 4)]
    out += [("Matrix", (2, 2)), ("Matrix", (4, 4)), ("Matrix", (3, 4))]
    return out


def layer(kind, arg, scalar_id=7):
    tid = I.Enum("TypeId", None, {"0": scalar_id})
    if kind == "Scalar":
        return I.Enum("TypeLayer", "Scalar", {"0": I.Enum("ScalarType", "Float32")})
    if kind == "Vector":
        return I.Enum("TypeLayer", "Vector", {"0": tid, "1": arg})
    return I.Enum("TypeLayer", "Matrix", {"0": tid, "1": arg[0], "2": arg[1]})


def rule_dimension_total(chk, ip, prefix="C16.rank"):
    """Every conversion ImplicitConversion::find grants is ranked by get_rank without aborting: both functions are
    evaluated over the model's scalar / vector / matrix shapes (two element types, both value categories)."""
    import convmodel as CM
    f = chk.facts
    find = f.fn("find", TY, self_ty="ImplicitConversion")
    gr = f.fn("get_rank", TY, self_ty="ImplicitConversion")
    if not find or not gr:
        chk.ob(prefix + "/dimension-total", False, "anchor-missing: ImplicitConversion::find / get_rank", TY)
        return
    cv = CM.Conversions(f)
    shapes = ["%s", "%s1", "%s2", "%s3", "%s4", "%s2x2", "%s4x4", "%s3x4"]
    seen = {}
    n = 0
    for ea, eb in (("Float32", "Float32"), ("Int32", "Float32")):
        for sa in shapes:
            for sb in shapes:
                for dvt in ("Rvalue", "Lvalue"):
                    src, dst = sa % ea, sb % eb
                    r = cv.find(src, "Lvalue", dst, dvt)
                    if r[0] in ("unreadable", "aborts"):
                        chk.ob(prefix + "/dimension-total/readable", False, "find(%s -> %s %s) is %s: %s" % (src, dst, dvt, r[0], r[1]), where(find))
                        return
                    if r[0] != "Ok":
                        continue
                    dc = cv.parts(r[1])[1]
                    if dc is None:
                        continue
                    gen = lambda d: "Vector(n)" if d.startswith("Vector(") and d != "Vector(1)" else ("Matrix" if d.startswith("Matrix") else d)
                    shape = "%s->%s" % (gen(dc[0]), gen(dc[1]))
                    rk = cv.rank(r[1])
                    ok = rk[0] not in ("aborts", "unreadable") and rk[1] in ("Exact", "Expand", "Contract")
                    if shape in seen and (seen[shape] or not ok) and ok:
                        continue
                    if shape not in seen:
                        n += 1
                    seen[shape] = ok
                    chk.ob(prefix + "/dimension-total/%s" % shape.replace("(", "").replace(")", "").replace(", ", "x"), ok,
                           "find builds DimensionCast %s, get_rank ranks it %s" % (shape, rk[1]) if ok else
                           "ImplicitConversion::find accepts the dimension cast %s (%s -> %s) but get_rank has no arm for it: overload "
                           "resolution panics (%s)" % (shape, src, dst, rk[1] if len(rk) > 1 else rk), where(gr), sample={"cast": shape, "rank": str(rk)})
    chk.floor(prefix.replace(".rank", ".floor") + "/dimension-casts", n, 6, "distinct dimension-cast shapes constructed by find", where(find))


def find_roles(find, dm):
    """The variables the dimension-cast match of ImplicitConversion::find reads, identified by what they ARE (not by
    their names): dest_l = the scrutinee, source_l = the layer the inner matches pair with the value category,
    *_id = the id each layer was read from with get_type_layer, dest = the ExpressionType parameter whose category is tested."""
    roles = {}
    lets = {}
    for s in F.walk(find["thir"]):
        if s.get("k") == "LetStmt" and "init" in s:
            if s["pat"].get("k") == "Bind":
                lets[s["pat"]["id"]] = s["init"]
    dv = F.leftmost_var(dm["scrut"])
    if dv is None:
        return roles
    roles["dest_l"] = dv["id"]

    def layer_source(vid):
        init = lets.get(vid)
        if init is None:
            return None
        for c in F.exprs(init, "Call"):
            if short(c.get("fn") or "") == "get_type_layer" and len(c.get("args", [])) > 1:
                v = F.leftmost_var(c["args"][1])
                return v["id"] if v else None
        return None
    roles["dest_id"] = layer_source(dv["id"])
    for m in F.exprs(dm, "Match"):
        if m is dm:
            continue
        sc = F.strip(m["scrut"])
        if sc.get("k") == "Tuple" and len(sc["elems"]) == 2:
            sv = F.leftmost_var(sc["elems"][0])
            if sv is not None and sv["id"] != dv["id"]:
                roles["source_l"] = sv["id"]
                roles["source_id"] = layer_source(sv["id"])
            for v in F.exprs(sc["elems"][1], "Var"):
                if "ExpressionType" in v.get("ty", ""):
                    roles["dest"] = v["id"]
    return {k: v for k, v in roles.items() if v is not None}


def dim_name(d):
    if not isinstance(d, I.Enum):
        return "?"
    if d.variant == "Scalar":
        return "Scalar"
    if d.variant == "Vector":
        v = d.fields.get("0")
        return "Vector(1)" if v == 1 else "Vector(n)"
    return "Matrix"


def rule_tournament_eval(chk, fft):
    """The numeric-rank tournament of find_function_type, evaluated as written (helpers inlined) on every ordered
    candidate list of length 1..3 whose two argument conversions have ranks in {Exact, Promotion, Conversion}: the
    survivors must be exactly the candidates that are not worse than any other candidate on any argument - a set that
    does not depend on the order of declaration. Returns False when the loop cannot be read (shape rules then apply)."""
    import itertools
    f = chk.facts
    comp = f.fn("compare", TY, self_ty="NumericRank")
    if not comp:
        return False

    def reaches_compare(node):
        seen = set()
        stack = [node]
        while stack:
            n = stack.pop()
            for c in F.exprs(n, "Call"):
                cal = c.get("rfn") or c.get("fn")
                if cal == comp["path"]:
                    return True
                cb = f.bodies.get(cal)
                if cb is not None and cb.get("crate") == TY and cal not in seen and "thir" in cb:
                    seen.add(cal)
                    stack.append(cb["thir"])
        return False
    outer = None
    for (p_, it_, body_, node_) in F.for_loops(fft["thir"]):
        if body_ is not None and reaches_compare(body_):
            if outer is None or len(list(F.walk(node_))) > len(list(F.walk(outer[3]))):
                outer = (p_, it_, body_, node_)
    if outer is None:
        return False
    p_, it_, body_, node_ = outer
    src = F.leftmost_var(it_)
    inner_nodes = [x for l in F.for_loops(body_) if l[2] is not None for x in F.walk(l[3])]
    local = {i for i, n_, pth in F.pat_binds(p_)}
    sinks = set()
    for c in F.exprs(body_, "Call"):
        if short(c.get("fn") or "") == "push" and c.get("args") and not any(c is x for x in inner_nodes):
            v = F.leftmost_var(c["args"][0])
            if v is not None and v["id"] not in local:
                sinks.add(v["id"])
    if src is None or len(sinks) != 1:
        return False
    sink = sinks.pop()
    # state declared before the loop that the loop may use (`let mut culled = vec![false; casts.len()]`)
    pre = []
    for s in F.walk(fft["thir"]):
        if s.get("k") == "LetStmt" and "init" in s and s["pat"].get("k") == "Bind" and (s.get("ln") or 0) <= (node_.get("ln") or 0) and s["pat"]["id"] not in (sink,):
            used = any(v["id"] == s["pat"]["id"] for v in F.exprs(body_, "Var"))
            if used and s["pat"]["id"] != src["id"]:
                pre.append(s)
    RANKS = ["Exact", "Promotion", "Conversion"]
    ORD = {r: i for i, r in enumerate(REF_ORDER)}

    def conv(rank):
        prim = I.Enum("Option", "None") if rank == "Exact" else I.Enum("Option", "Some", {"0": I.Enum("PrimaryCast", None, {
            "source": I.Enum("TypeId", None, {"0": 1}), "dest": I.Enum("TypeId", None, {"0": 2}), "rank": I.Enum("NumericRank", rank)})})
        return I.Enum("ImplicitConversion", None, {"0": I.Opaque("source"), "1": I.Enum("Option", "None"), "2": I.Enum("Option", "None"), "3": prim, "4": I.Enum("Option", "None")})
    ip = I.Interp(f, max_depth=8)
    vecs = list(itertools.product(RANKS, repeat=2))
    n = 0
    bad = []
    for k in (1, 2, 3):
        for combo in itertools.product(vecs, repeat=k):
            n += 1
            casts = [(I.Enum("FunctionId", None, {"0": i}), [conv(r) for r in rv]) for i, rv in enumerate(combo)]
            env = {src["id"]: casts, sink: []}
            try:
                for s in pre:
                    v = ip.ev(s["init"], env, 0)
                    ip.match_pat(s["pat"], v, env)
                ip.ev(node_, env, 0)
            except (I.Unknown, I.ReturnEx, I.BreakEx, I.ContinueEx) as e:
                if n == 1:
                    return False        # not readable at all
                bad.append((combo, "evaluation stopped: %s" % e))
                continue
            got = []
            for w in env[sink]:
                w0 = w[0] if isinstance(w, tuple) else w
                if isinstance(w0, I.Ref):
                    w0 = w0.get()
                got.append(w0.fields.get("0") if isinstance(w0, I.Enum) else w0)
            want = [i for i, rv in enumerate(combo) if all(all(ORD[rv[a]] <= ORD[ov[a]] for a in range(2)) for j, ov in enumerate(combo) if j != i)]
            if got != want:
                bad.append((combo, "survivors %s, must be %s" % (got, want)))
    ok = not bad
    chk.ob("C16.sym/tournament", ok,
           "%d ordered candidate lists: the survivors are exactly the candidates not worse than any other on any argument" % n if ok else
           "the numeric-rank tournament is wrong for %d of %d candidate lists, e.g. argument ranks %s: %s - the chosen overload depends on the order of declaration or a dominated / ambiguous candidate survives"
           % (len(bad), n, [list(x) for x in bad[0][0]], bad[0][1]), where(fft, node_), sample={"lists": n, "wrong": len(bad)})
    for key, txt in (("compare-operands", "operand order"), ("only-worse-disqualifies", "only Worse disqualifies"), ("survivor", "the outer candidate survives"),
                     ("skip-only-self", "self is the only skipped opponent"), ("skip-self", "no self comparison")):
        chk.ob("C16.sym/" + key, ok, "decided by the evaluated tournament (%s)" % txt if ok else "see C16.sym/tournament", where(fft, node_), trivial=True)
    return True


def rule_candidates_once(chk):
    """The candidate set of a call is the list of Function symbols of the scope; the tournament never compares a
    candidate with itself, so an id listed twice beats every rival twice and the call is reported ambiguous, depending
    on the order of declarations. An id is therefore entered into a scope only where it is created: every call of
    add_function_to_current_scope / insert_function_in_scope is dominated by the register_function call of the same
    body (MIR dominance), and insert_function_in_scope adds exactly one symbol per call."""
    f = chk.facts
    n = 0
    for b in f.crates[TY]["bodies"]:
        if "mir" not in b or b.get("name") in ("add_function_to_current_scope", "insert_function_in_scope"):
            continue
        cfg = M.Cfg(b)
        adds = [(bb, t) for bb, t in cfg.calls() if short(cfg.callee(t) or "") in ("add_function_to_current_scope", "insert_function_in_scope")]
        if not adds:
            continue
        regs = [bb for bb, t in cfg.calls() if short(cfg.callee(t) or "") == "register_function"]
        owner = short(b.get("parent") or b["path"])
        # ids handed out by iterating the registry itself are visited once each (Context::new registers the intrinsics)
        registry_loop_lines = set()
        for (p_, it_, body_, node_) in F.for_loops(b["thir"]):
            if body_ is None or not any(x.get("k") == "Field" and x.get("name") == "function_registry" for x in F.walk(it_)):
                continue
            if not plain_iter(it_) and not (F.strip(it_).get("k") == "Call" and short(F.strip(it_).get("fn") or "") == "iter"):
                continue
            ids_ = {i for i, nm, pth in F.pat_binds(p_)}
            for c in F.exprs(body_, "Call"):
                if short(c.get("fn") or "") in ("add_function_to_current_scope", "insert_function_in_scope") and \
                        any(v["id"] in ids_ for a in c.get("args", [])[1:] for v in F.exprs(a, "Var")):
                    registry_loop_lines.add(c.get("ln"))
        for k, (bb, t) in enumerate(adds):
            ok = any(cfg.dominates(r, bb) for r in regs) or t.get("ln") in registry_loop_lines
            n += 1
            chk.ob("C16.candidates/once/%s#%d" % (owner, k), ok, "the id is entered into the scope right after it was created by register_function" if ok else
                   "%s enters a function id into the scope on a path that did not create it (not dominated by register_function): a re-declared overload is listed twice among the candidates, "
                   "both copies survive the tournament and the call becomes ambiguous depending on declaration order" % owner, where(b, t.get("ln")))
    chk.floor("C16.floor/scope-insertions", n, 1, "call sites that enter a function into a scope", TY)
    ins = f.fn("insert_function_in_scope", TY)
    if chk.anchor("C16.anchor/insert_function_in_scope", ins, "Context::insert_function_in_scope"):
        conds = [x for x in F.walk(ins["thir"]) if isinstance(x, dict) and x.get("k") == "If"]
        pushes = [c for c in F.exprs(ins["thir"], "Call") if short(c.get("fn") or "") in ("push", "insert") and any(a.get("variant") == "Function" for a in F.exprs(c, "Adt"))]
        conds += [a_ for m_ in F.exprs(ins["thir"], "Match") for a_ in m_["arms"] if "guard" in a_]
        ok = not conds and len(pushes) >= 1
        chk.ob("C16.candidates/insert-unconditional", ok, "one symbol added per call, unconditionally" if ok else
               "insert_function_in_scope adds the symbol conditionally (%d condition(s), %d insertion(s)): whether an overload is listed depends on what was declared just before it" % (len(conds), len(pushes)), where(ins))
