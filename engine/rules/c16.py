"""C16 — overload resolution is order-independent and prefers exact matches."""
import facts as F
import interp as I
import mirs as M
from facts import short, where

EXPLANATION = (
    "Order-independence over all candidate sets is a property of an algorithm and is not decided in general; decided are "
    "its necessary structural conditions. C16.unique (MIR dominance): find_function_type builds its Ok result only on "
    "the true edge of `casts.len() == 1`, and the `> 1` continuation returns the ambiguity error (never 'first wins'). "
    "C16.rank (finite maps read from THIR): NumericRank::order is injective with Exact least and follows the reference "
    "order; NumericRank::compare is exactly lt->Better / eq->Equal / gt->Worse over all 36 pairs; VectorRank::"
    "worst_to_best is a permutation of all variants from Contract to Exact; get_rank maps 'no numeric cast' and 'no "
    "dimension cast' to Exact; the scalar rank matrix of ImplicitConversion::find never yields Exact for two distinct "
    "scalar types and is total off the diagonal (56 pairs). C16.sym (THIR shape): the tournament compares every candidate "
    "against every other candidate of the same `casts` vector, operand order (candidate, against), only `Worse` "
    "disqualifies, the surviving candidate pushed is the outer loop's; the vector tie-break folds `<` over all survivors "
    "and keeps those equal to the minimum. C16.arity: a candidate is considered only when the argument count lies "
    "between non_default_params and the parameter count."
)
ASSUMPTIONS = ["rustc THIR/MIR is a faithful view of the source",
               "reference rank order Exact < Promotion < PromotionTwice < IntToBool < Conversion < EnumToNumeric (DESIGN.md App. A)"]

TY = "rssl_typer"
REF_ORDER = ["Exact", "Promotion", "PromotionTwice", "IntToBool", "Conversion", "EnumToNumeric"]


def run(chk):
    f = chk.facts
    ip = I.Interp(f)
    rule_rank(chk, ip)
    rule_dimension_total(chk, ip)
    rule_candidates_once(chk)
    fft = chk.anchor("C16.anchor/find_function_type", f.fn("find_function_type", TY), "find_function_type")
    if fft:
        rule_unique(chk, fft)
        rule_sym(chk, fft)
        rule_arity(chk, fft)


def rule_rank(chk, ip):
    f = chk.facts
    order = chk.anchor("C16.anchor/NumericRank::order", f.fn("order", TY, self_ty="NumericRank"), "NumericRank::order")
    comp = chk.anchor("C16.anchor/NumericRank::compare", f.fn("compare", TY, self_ty="NumericRank"), "NumericRank::compare")
    ranks = f.variants("casting::NumericRank", TY)
    chk.ob("C16.rank/variants", ranks is not None and set(ranks) == set(REF_ORDER), "NumericRank = %s" % ranks, "typer/src/casting.rs")
    vals = {}
    if order and ranks:
        for r in ranks:
            try:
                vals[r] = ip.apply(order, [I.Enum("NumericRank", r)])
            except I.Unknown as e:
                vals[r] = None
        inj = len(set(vals.values())) == len(vals) and None not in vals.values()
        chk.ob("C16.rank/order-injective", inj, "order: %s" % vals if inj else "NumericRank::order is not injective: %s" % vals, where(order))
        if inj:
            got = sorted(vals, key=lambda r: vals[r])
            for i, r in enumerate(REF_ORDER):
                chk.ob("C16.rank/order/%s" % r, i < len(got) and got[i] == r,
                       "rank #%d" % i if i < len(got) and got[i] == r else
                       "rank order is %s; the reference puts %s at position %d (Exact must be the least)" % (got, r, i),
                       where(order), sample={"rank": r, "value": vals.get(r)})
    if comp and ranks and vals and None not in vals.values():
        for a in ranks:
            for b in ranks:
                want = "Better" if vals[a] < vals[b] else ("Equal" if vals[a] == vals[b] else "Worse")
                try:
                    got = ip.apply(comp, [I.Enum("NumericRank", a), I.Enum("NumericRank", b)])
                    gv = got.variant if isinstance(got, I.Enum) else str(got)
                except I.Unknown as e:
                    gv = "unreadable (%s)" % e
                chk.ob("C16.rank/compare/%s-vs-%s" % (a, b), gv == want, "%s vs %s -> %s" % (a, b, gv) if gv == want else
                       "compare(%s, %s) = %s, must be %s" % (a, b, gv, want), where(comp), sample={"a": a, "b": b, "result": gv})
    # VectorRank::worst_to_best
    w2b = chk.anchor("C16.anchor/worst_to_best", f.fn("worst_to_best", TY), "VectorRank::worst_to_best")
    vr = f.variants("casting::VectorRank", TY)
    if w2b and vr:
        consts = [b for b in f.crates[TY]["bodies"] if b["kind"] == "Const" and b["path"].startswith(w2b["path"])]
        seq = []
        for c in consts + [w2b]:
            for arr in F.exprs(c["thir"], "Array"):
                s = [F.adt_ctor(x) for x in arr["elems"]]
                if s and all(x and x[0] == "VectorRank" for x in s):
                    seq = [x[1] for x in s]
            if seq:
                break
        ok = seq == ["Contract", "Expand", "Exact"] and set(seq) == set(vr)
        chk.ob("C16.rank/vector-order", ok, "worst_to_best = %s" % seq if ok else
               "VectorRank::worst_to_best is %s; must be a permutation of %s from Contract (worst) to Exact (best)" % (seq, vr), where(w2b))
    # get_rank: None -> Exact
    gr = chk.anchor("C16.anchor/get_rank", f.fn("get_rank", TY, self_ty="ImplicitConversion"), "ImplicitConversion::get_rank")
    if gr:
        none_num = none_vec = False
        for m in F.exprs(gr["thir"], "Match"):
            for arm in m["arms"]:
                for alt in F.pat_alternatives(arm["pat"]):
                    if F.pat_variant(alt) == ("Option", "None"):
                        c = F.adt_ctor(F.tail(arm["body"]))
                        if c and c[0] == "NumericRank":
                            none_num = c[1] == "Exact"
                        if c and c[0] == "VectorRank":
                            none_vec = c[1] == "Exact"
        chk.ob("C16.rank/no-cast-is-exact", none_num and none_vec,
               "no numeric cast -> NumericRank::Exact, no dimension cast -> VectorRank::Exact" if none_num and none_vec else
               "get_rank no longer ranks the absence of a cast as Exact (numeric=%s vector=%s)" % (none_num, none_vec), where(gr))
    # scalar rank matrix inside ImplicitConversion::find
    find = chk.anchor("C16.anchor/ImplicitConversion::find", f.fn("find", TY, self_ty="ImplicitConversion"), "ImplicitConversion::find")
    scalars = f.variants("ir_types::ScalarType", "rssl_ir")
    if find and scalars:
        mm = None
        for m in F.exprs(find["thir"], "Match"):
            s = F.strip(m["scrut"])
            if s.get("k") == "Tuple" and len(s["elems"]) == 2 and all(x.get("ty", "").endswith("ScalarType") for x in s["elems"]):
                mm = m
        if chk.anchor("C16.anchor/rank-matrix", mm, "match over (source_scalar, dest_scalar)", where(find)):
            ids = [F.strip(x).get("id") for x in F.strip(mm["scrut"])["elems"]]
            n = 0
            for a in scalars:
                for b in scalars:
                    if a == b:
                        continue
                    n += 1
                    try:
                        r = ip.ev(mm, {ids[0]: I.Enum("ScalarType", a), ids[1]: I.Enum("ScalarType", b)})
                        rv = r.variant if isinstance(r, I.Enum) else str(r)
                    except I.Unknown as e:
                        rv = "unreadable (%s)" % e
                    ok = rv in REF_ORDER and rv != "Exact"
                    chk.ob("C16.rank/matrix/%s-to-%s" % (a, b), ok, "%s -> %s: %s" % (a, b, rv) if ok else
                           "conversion %s -> %s is ranked %s: a conversion between distinct scalar types must have a rank worse than Exact"
                           % (a, b, rv), where(find, mm), sample={"from": a, "to": b, "rank": rv})
            chk.floor("C16.floor/matrix", n, 56, "off-diagonal scalar pairs", where(find))
            # identical scalars produce no primary cast: the matrix is guarded by source_scalar == dest_scalar -> None
            guard = False
            for n_ in F.exprs(find["thir"], "If"):
                if any(x is mm for x in F.walk(n_.get("else", {}))):
                    c = F.strip(n_["cond"])
                    vids = {v.get("id") for v in F.exprs(c, "Var")}
                    if set(ids) <= vids and F.adt_ctor(F.tail(n_["then"])) and F.adt_ctor(F.tail(n_["then"]))[1] == "None":
                        guard = True
            chk.ob("C16.rank/identical-no-cast", guard, "identical scalars need no primary cast" if guard else
                   "the `source_scalar == dest_scalar -> None` guard around the rank matrix is gone", where(find))


def rule_unique(chk, fft):
    cfg = M.Cfg(fft)
    oks = [i for i, j, s in cfg.stmts(lambda s: s.get("r") == "Agg" and short(s.get("adt", "")) == "Result" and s.get("variant") == "Ok")]
    chk.ob("C16.unique/site", len(oks) >= 1, "%d Ok construction site(s)" % len(oks), where(fft), trivial=True)

    def len_eq_1(src):
        if src[0] != "bin" or src[1] != "Eq":
            return False
        s = src[2]
        consts = [M.op_const(s[x]) for x in ("a", "b")]
        if not any(c is not None and c.get("v") == 1 for c in consts):
            return False
        for x in ("a", "b"):
            p = M.op_place(s[x])
            if p is not None:
                sig = cfg.slice([p if isinstance(p, int) else p["l"]], through_calls=False)
                if sig.has_call("::len"):
                    return True
        return False
    for b in oks:
        ok, n = M.dominated_by_guard(cfg, b, len_eq_1, want=True)
        chk.ob("C16.unique/ok-only-when-single", ok,
               "Ok(candidate) is built only under `casts.len() == 1`" if ok else
               "find_function_type can return Ok without the unique-winner test `len() == 1` (first candidate wins)", where(fft))
    # ambiguity error: FunctionArgumentTypeMismatch(.., true) under len() > 1
    amb = []
    for i, j, s in cfg.stmts(lambda s: s.get("r") == "Agg" and s.get("variant") == "FunctionArgumentTypeMismatch"):
        last = M.op_const(s["xs"][-1]) if s.get("xs") else None
        if last is not None and last.get("v") is True:
            amb.append(i)

    def len_gt_1(src):
        if src[0] != "bin" or src[1] not in ("Gt", "Ge", "Lt", "Le", "Ne"):
            return False
        return any((M.op_const(src[2][x]) or {}).get("v") in (1, 2) for x in ("a", "b"))
    ok = bool(amb) and all(M.dominated_by_guard(cfg, b, len_gt_1, want=True)[0] or M.dominated_by_guard(cfg, b, len_gt_1, want=False)[0] for b in amb)
    chk.ob("C16.unique/ambiguous-error", ok, "several equally good candidates -> ambiguity error" if ok else
           "the ambiguity error (FunctionArgumentTypeMismatch(.., true)) under `len() > 1` is gone", where(fft))


def rule_sym(chk, fft):
    loops = F.for_loops(fft["thir"])
    # the tournament: two nested loops over the same vector, containing a call to NumericRank::compare
    outer = inner = None
    for (p, it, body, node) in loops:
        if body is None:
            continue
        nested = [l for l in F.for_loops(body) if l[2] is not None and any(short(c.get("fn") or "") == "compare" for c in F.exprs(l[2], "Call"))]
        for l2 in nested:
            a, b = F.leftmost_var(it), F.leftmost_var(l2[1])
            if a and b and a["id"] == b["id"] and plain_iter(it) and plain_iter(l2[1]):
                outer, inner = (p, it, body, node), l2
    if not chk.anchor("C16.anchor/tournament", outer, "nested candidate-vs-against loops, each over the whole of the same vector", where(fft)):
        return
    ob = {i: (n, p) for i, n, p in F.pat_binds(outer[0])}
    ib = {i: (n, p) for i, n, p in F.pat_binds(inner[0])}
    # innermost zip loop
    zips = [l for l in F.for_loops(inner[2]) if l[2] is not None]
    ok_cmp = False
    only_worse = False
    for (zp, zit, zbody, _) in zips:
        zit_s = F.strip(zit)
        if not (zit_s.get("k") == "Call" and short(zit_s.get("fn") or "") == "zip"):
            continue
        recv = F.leftmost_var(zit_s["args"][0])
        arg = F.leftmost_var(zit_s["args"][1])
        zb = {i: p for i, n, p in F.pat_binds(zp)}
        first = [i for i, p in zb.items() if p == ("0",)]
        second = [i for i, p in zb.items() if p == ("1",)]
        if not (recv and arg and first and second):
            continue
        recv_outer = recv["id"] in ob
        arg_inner = arg["id"] in ib
        for c in F.exprs(zbody, "Call"):
            if short(c.get("fn") or "") != "compare":
                continue
            l, r = resolve_let(zbody, F.leftmost_var(c["args"][0])), resolve_let(zbody, F.leftmost_var(c["args"][1]))
            ok_cmp = bool(l and r and l["id"] == first[0] and r["id"] == second[0] and recv_outer and arg_inner)
        for m in F.exprs(zbody, "Match"):
            vs = {}
            for arm in m["arms"]:
                pv = F.pat_variant(arm["pat"])
                if pv and pv[0] == "ConversionPriority":
                    vs[pv[1]] = any(F.lit(a["r"]) == ("bool", False) for a in F.exprs(arm["body"], "Assign"))
            if vs:
                only_worse = vs == {"Better": False, "Equal": False, "Worse": True}
    chk.ob("C16.sym/compare-operands", ok_cmp,
           "compare(candidate's rank, against's rank), candidate from the outer loop, against from the inner loop" if ok_cmp else
           "the rank comparison no longer compares (outer candidate, inner candidate) position-wise", where(fft))
    chk.ob("C16.sym/only-worse-disqualifies", only_worse, "only `Worse` clears not_worse_than" if only_worse else
           "the tournament no longer disqualifies exactly on ConversionPriority::Worse", where(fft))
    # the pushed survivor is the outer candidate
    pushed_outer = False
    for c in F.exprs(outer[2], "Call"):
        if (c.get("fn") or "").endswith("Vec::<T, A>::push") and not any(x is c for l in F.for_loops(outer[2]) if l[2] for x in F.walk(l[2])):
            vs = {v["id"] for v in F.exprs(c["args"][1], "Var")}
            pushed_outer = bool(vs) and vs <= set(ob)
    chk.ob("C16.sym/survivor", pushed_outer, "the surviving candidate pushed is the outer loop's" if pushed_outer else
           "the candidate pushed into the winners is not the outer loop's candidate", where(fft))
    # skip self: `if candidate == against { continue }`
    skip = False
    for n in F.exprs(inner[2], "If"):
        if any(x.get("k") == "Continue" for x in F.walk(n["then"])):
            vs = {v["id"] for v in F.exprs(n["cond"], "Var")}
            skip = bool(vs & set(ob)) and bool(vs & set(ib))
    # ... and that is the only reason an opponent is skipped: every `continue` / early exit of the inner loop body
    # (outside the per-argument loop) is guarded by a single equality between the outer and the inner candidate
    zip_nodes = [x for l in F.for_loops(inner[2]) if l[2] is not None for x in F.walk(l[3])]
    other = []
    for n in F.exprs(inner[2], "If"):
        if any(n is z for z in zip_nodes):
            continue
        if not any(x.get("k") == "Continue" for x in F.walk(n["then"])):
            continue
        c = F.strip(n["cond"])
        is_eq = (c.get("k") == "Binary" and c["op"] == "Eq") or (c.get("k") == "Call" and short(c.get("fn") or "") == "eq")
        if not is_eq:
            other.append(n)
    chk.ob("C16.sym/skip-only-self", skip and not other, "an opponent is skipped only when it is the candidate itself" if skip and not other else
           "the tournament skips opponents for another reason than being the candidate itself (%s): a candidate that only loses to a skipped opponent survives, so the outcome depends on declaration order"
           % ("condition is not a single `candidate == against`" if other else "no self test"), where(fft, other[0]) if other else where(fft))
    chk.ob("C16.sym/skip-self", skip, "a candidate is not compared with itself" if skip else "the `candidate == against -> continue` test is gone", where(fft))
    # vector tie-break: best_order = min over all, filter == best
    fold = False
    for (p, it, body, node) in loops:
        if body is None:
            continue
        for n in F.exprs(body, "If"):
            c = F.strip(n["cond"])
            is_lt = (c.get("k") == "Binary" and c["op"] == "Lt") or (c.get("k") == "Call" and short(c.get("fn") or "") == "lt")
            if is_lt and any(True for _ in F.exprs(n["then"], "Assign")):
                args = c["args"] if c.get("k") == "Call" else [c["l"], c["r"]]
                lv, rv = F.leftmost_var(args[0]), F.leftmost_var(args[1])
                asg = [F.leftmost_var(a["l"]) for a in F.exprs(n["then"], "Assign")]
                pb = {i for i, _, _ in F.pat_binds(p)}
                fold = bool(lv and rv and lv["id"] in pb and asg and asg[0] and asg[0]["id"] == rv["id"])
    chk.ob("C16.sym/min-fold", fold, "best_order is the minimum over all survivors (`if order < best { best = order }`)" if fold else
           "the vector-rank tie-break no longer takes the minimum over all surviving candidates", where(fft))


def plain_iter(it):
    """`&v`, `v.iter()` or `v.into_iter()` — the whole collection, no skip/take/filter adaptor."""
    it = F.strip(it)
    if it.get("k") == "Var":
        return True
    if it.get("k") == "Call" and short(it.get("fn") or "") == "enumerate" and it.get("args"):
        return plain_iter(it["args"][0])       # enumerate() numbers the elements, it drops none
    if it.get("k") == "Call" and short(it.get("fn") or "") in ("iter", "into_iter", "deref", "as_slice") and it.get("args"):
        return plain_iter(it["args"][0])
    return False


def resolve_let(scope, v):
    """Follow `let x = <expr>` inside scope to the variable at the bottom of expr."""
    seen = 0
    while v is not None and seen < 4:
        seen += 1
        nxt = None
        for s in F.walk(scope):
            if s.get("k") == "LetStmt" and s["pat"].get("k") == "Bind" and s["pat"]["id"] == v["id"] and "init" in s:
                nxt = F.leftmost_var(s["init"])
        if nxt is None:
            return v
        v = nxt
    return v


def rule_arity(chk, fft):
    cfg = M.Cfg(fft)
    sites = cfg.calls("find_overload_casts")
    chk.ob("C16.arity/site", bool(sites), "find_overload_casts call", where(fft), trivial=True)

    def field_cmp(field):
        def pred(src):
            if src[0] != "bin" or src[1] not in ("Le", "Ge", "Lt", "Gt"):
                return False
            s = src[2]
            for x in ("a", "b"):
                p = M.op_place(s[x])
                if p is not None:
                    sig = cfg.slice([p if isinstance(p, int) else p["l"]], through_calls=True)
                    if sig.has_field(field) or (field == "param_types" and sig.has_call("::len") and sig.has_field("param_types")):
                        return True
            return False
        return pred
    for bb, t in sites:
        ok1, _ = M.dominated_by_guard(cfg, bb, field_cmp("non_default_params"), want=True)
        ok2, _ = M.dominated_by_guard(cfg, bb, field_cmp("param_types"), want=True)
        chk.ob("C16.arity/min", ok1, "candidate considered only if args >= non_default_params" if ok1 else
               "a candidate is tried without the `param_types.len() >= non_default_params` test", where(fft, t.get("ln")))
        chk.ob("C16.arity/max", ok2, "candidate considered only if args <= parameter count" if ok2 else
               "a candidate is tried without the `param_types.len() <= signature.param_types.len()` test", where(fft, t.get("ln")))


# ------------------------------------------------------------------ find <-> get_rank agreement on dimension casts

def dims():
    out = [("Scalar", None)]
    out += [("Vector", n) for n in (1, 2, 3, 4)]
    out += [("Matrix", (2, 2)), ("Matrix", (4, 4)), ("Matrix", (3, 4))]
    return out


def layer(kind, arg, scalar_id=7):
    tid = I.Enum("TypeId", None, {"0": scalar_id})
    if kind == "Scalar":
        return I.Enum("TypeLayer", "Scalar", {"0": I.Enum("ScalarType", "Float32")})
    if kind == "Vector":
        return I.Enum("TypeLayer", "Vector", {"0": tid, "1": arg})
    return I.Enum("TypeLayer", "Matrix", {"0": tid, "1": arg[0], "2": arg[1]})


def rule_dimension_total(chk, ip, prefix="C16.rank"):
    """Every DimensionCast that ImplicitConversion::find can construct is ranked by get_rank without aborting."""
    f = chk.facts
    find = f.fn("find", TY, self_ty="ImplicitConversion")
    gr = f.fn("get_rank", TY, self_ty="ImplicitConversion")
    if not find or not gr:
        chk.ob(prefix + "/dimension-total", False, "anchor-missing: ImplicitConversion::find / get_rank", TY)
        return
    dm = None
    for m in F.exprs(find["thir"], "Match"):
        st = F.strip(m["scrut"]).get("ty", "")
        if st.endswith("TypeLayer") and any(short(a["adt"]) == "DimensionCast" for a in F.exprs(m, "Adt")):
            if dm is None or len(list(F.walk(m))) > len(list(F.walk(dm))):
                dm = m
    rm = None
    for m in F.exprs(gr["thir"], "Match"):
        if "DimensionCast" in F.strip(m["scrut"]).get("ty", ""):
            rm = m
    if dm is None or rm is None:
        chk.ob(prefix + "/dimension-total", False, "anchor-missing: the dimension-cast match of find / get_rank", where(find))
        return
    names = find_roles(find, dm)
    need = ["source_l", "dest_l", "dest", "source_id", "dest_id"]
    if not all(n in names for n in need):
        chk.ob(prefix + "/dimension-total", False, "anchor-missing: inputs %s of the dimension-cast match" % [n for n in need if n not in names], where(find, dm))
        return
    rv = F.leftmost_var(rm["scrut"])
    n = 0
    seen = {}
    for sk, sa in dims():
        for dk, da in dims():
            for lval in (False, True):
                env = {names["source_l"]: layer(sk, sa), names["dest_l"]: layer(dk, da),
                       names["dest"]: I.Enum("ExpressionType", None, {"0": I.Enum("TypeId", None, {"0": 100}),
                                                                       "1": I.Enum("ValueType", "Lvalue" if lval else "Rvalue")}),
                       names["source_id"]: I.Enum("TypeId", None, {"0": 7 if sk == "Scalar" else 50}),
                       names["dest_id"]: I.Enum("TypeId", None, {"0": 7 if dk == "Scalar" else 51})}
                try:
                    cast = ip.ev(dm, env)
                except I.ReturnEx:
                    continue      # conversion refused
                except I.Unknown as e:
                    chk.ob(prefix + "/dimension-total/readable", False, "dimension-cast table of find not readable: %s" % e, where(find, dm))
                    return
                if not isinstance(cast, I.Enum) or cast.variant != "Some":
                    continue
                dc = cast.fields["0"]
                shape = "%s->%s" % (dim_name(dc.fields.get("0")), dim_name(dc.fields.get("1")))
                if shape in seen:
                    continue
                n += 1
                try:
                    r = ip.ev(rm, {rv["id"]: cast}) if rv else None
                    res = r.variant if isinstance(r, I.Enum) else str(r)
                    ok = res in ("Exact", "Expand", "Contract")
                except I.Unknown as e:
                    res, ok = "aborts (%s)" % e, False
                seen[shape] = res
                chk.ob(prefix + "/dimension-total/%s" % shape.replace("(", "").replace(")", "").replace(", ", "x"), ok,
                       "find builds DimensionCast %s, get_rank ranks it %s" % (shape, res) if ok else
                       "ImplicitConversion::find accepts the dimension cast %s but get_rank has no arm for it: overload "
                       "resolution panics (%s)" % (shape, res), where(gr, rm), sample={"cast": shape, "rank": res})
    chk.floor(prefix.replace(".rank", ".floor") + "/dimension-casts", n, 6, "distinct dimension-cast shapes constructed by find", where(find))


def find_roles(find, dm):
    """The variables the dimension-cast match of ImplicitConversion::find reads, identified by what they ARE (not by
    their names): dest_l = the scrutinee, source_l = the layer the inner matches pair with the value category,
    *_id = the id each layer was read from with get_type_layer, dest = the ExpressionType parameter whose category is tested."""
    roles = {}
    lets = {}
    for s in F.walk(find["thir"]):
        if s.get("k") == "LetStmt" and "init" in s:
            if s["pat"].get("k") == "Bind":
                lets[s["pat"]["id"]] = s["init"]
    dv = F.leftmost_var(dm["scrut"])
    if dv is None:
        return roles
    roles["dest_l"] = dv["id"]

    def layer_source(vid):
        init = lets.get(vid)
        if init is None:
            return None
        for c in F.exprs(init, "Call"):
            if short(c.get("fn") or "") == "get_type_layer" and len(c.get("args", [])) > 1:
                v = F.leftmost_var(c["args"][1])
                return v["id"] if v else None
        return None
    roles["dest_id"] = layer_source(dv["id"])
    for m in F.exprs(dm, "Match"):
        if m is dm:
            continue
        sc = F.strip(m["scrut"])
        if sc.get("k") == "Tuple" and len(sc["elems"]) == 2:
            sv = F.leftmost_var(sc["elems"][0])
            if sv is not None and sv["id"] != dv["id"]:
                roles["source_l"] = sv["id"]
                roles["source_id"] = layer_source(sv["id"])
            for v in F.exprs(sc["elems"][1], "Var"):
                if "ExpressionType" in v.get("ty", ""):
                    roles["dest"] = v["id"]
    return {k: v for k, v in roles.items() if v is not None}


def dim_name(d):
    if not isinstance(d, I.Enum):
        return "?"
    if d.variant == "Scalar":
        return "Scalar"
    if d.variant == "Vector":
        v = d.fields.get("0")
        return "Vector(1)" if v == 1 else "Vector(n)"
    return "Matrix"


def rule_candidates_once(chk):
    """The candidate set of a call is the list of Function symbols of the scope; the tournament never compares a
    candidate with itself, so an id listed twice beats every rival twice and the call is reported ambiguous, depending
    on the order of declarations. An id is therefore entered into a scope only where it is created: every call of
    add_function_to_current_scope / insert_function_in_scope is dominated by the register_function call of the same
    body (MIR dominance), and insert_function_in_scope adds exactly one symbol per call."""
    f = chk.facts
    n = 0
    for b in f.crates[TY]["bodies"]:
        if "mir" not in b or b.get("name") in ("add_function_to_current_scope", "insert_function_in_scope"):
            continue
        cfg = M.Cfg(b)
        adds = [(bb, t) for bb, t in cfg.calls() if short(cfg.callee(t) or "") in ("add_function_to_current_scope", "insert_function_in_scope")]
        if not adds:
            continue
        regs = [bb for bb, t in cfg.calls() if short(cfg.callee(t) or "") == "register_function"]
        owner = short(b.get("parent") or b["path"])
        # ids handed out by iterating the registry itself are visited once each (Context::new registers the intrinsics)
        registry_loop_lines = set()
        for (p_, it_, body_, node_) in F.for_loops(b["thir"]):
            if body_ is None or not any(x.get("k") == "Field" and x.get("name") == "function_registry" for x in F.walk(it_)):
                continue
            if not plain_iter(it_) and not (F.strip(it_).get("k") == "Call" and short(F.strip(it_).get("fn") or "") == "iter"):
                continue
            ids_ = {i for i, nm, pth in F.pat_binds(p_)}
            for c in F.exprs(body_, "Call"):
                if short(c.get("fn") or "") in ("add_function_to_current_scope", "insert_function_in_scope") and \
                        any(v["id"] in ids_ for a in c.get("args", [])[1:] for v in F.exprs(a, "Var")):
                    registry_loop_lines.add(c.get("ln"))
        for k, (bb, t) in enumerate(adds):
            ok = any(cfg.dominates(r, bb) for r in regs) or t.get("ln") in registry_loop_lines
            n += 1
            chk.ob("C16.candidates/once/%s#%d" % (owner, k), ok, "the id is entered into the scope right after it was created by register_function" if ok else
                   "%s enters a function id into the scope on a path that did not create it (not dominated by register_function): a re-declared overload is listed twice among the candidates, "
                   "both copies survive the tournament and the call becomes ambiguous depending on declaration order" % owner, where(b, t.get("ln")))
    chk.floor("C16.floor/scope-insertions", n, 2, "call sites that enter a function into a scope", TY)
    ins = f.fn("insert_function_in_scope", TY)
    if chk.anchor("C16.anchor/insert_function_in_scope", ins, "Context::insert_function_in_scope"):
        conds = [x for x in F.walk(ins["thir"]) if isinstance(x, dict) and x.get("k") == "If"]
        pushes = [c for c in F.exprs(ins["thir"], "Call") if short(c.get("fn") or "") in ("push", "insert") and any(a.get("variant") == "Function" for a in F.exprs(c, "Adt"))]
        ok = not conds and len(pushes) == 2
        chk.ob("C16.candidates/insert-unconditional", ok, "one symbol added per call (occupied: push, vacant: insert)" if ok else
               "insert_function_in_scope adds the symbol conditionally (%d condition(s), %d insertion(s)): whether an overload is listed depends on what was declared just before it" % (len(conds), len(pushes)), where(ins))
