"""C04 — emitted DirectX HLSL is accepted by the front end and is a fixpoint (structural part)."""
import facts as F
import mirs as M
from facts import short, where

EXPLANATION = (
    "Byte-for-byte fixpoint and slot re-derivation compare two run-time strings and are NOT decided (float printing "
    "drift is a numerical fact). Decided: 'the output stays inside the input language and re-reads as written'. "
    "C04.inlang — the set of ast variants the HLSL exporter constructs is disjoint from the variants on which "
    "rssl_formatter aborts or errors (Typedef, Pipeline, StaticSampler, PackOffset, template defaults, "
    "AmbiguousParseBranch). C04.attr — every attribute name the DirectX path emits is accepted by the typer's "
    "attribute parsers (compared the way the typer compares: lower-cased), and the statement-attribute tables of typer "
    "and exporter are inverse. C04.reg — RegisterType's Display letters and the parser's register letter table are "
    "inverse; the printer writes `<letter><index>` then `spaceN`, which parse_register / parse_space_identifier read "
    "back; output topology strings are inverse. C04.lit — literal suffix writer/reader tables (shared with C09.lit). "
    "C04.regroup / C04.adjacent / C04.names — the C09 parenthesis and adjacency rules and the C15 declaration-name "
    "provenance rules are re-evaluated here because each of their violations makes the emitted text unparsable, "
    "re-grouped or clashing on re-reading."
)
ASSUMPTIONS = ["rustc THIR/MIR is a faithful view of the source"]


class Proxy:
    """Re-keys another property's rule instances under C04."""

    def __init__(self, chk, mapping):
        self.chk = chk
        self.facts = chk.facts
        self.mapping = mapping

    def _k(self, key):
        for a, b in self.mapping:
            if key.startswith(a):
                return b + key[len(a):]
        return "C04.shared/" + key

    def anchor(self, key, obj, what, where=None):
        return self.chk.anchor(self._k(key), obj, what, where)

    def ob(self, key, ok, why="", where=None, trivial=False, sample=None):
        return self.chk.ob(self._k(key), ok, why, where, trivial, sample)

    def floor(self, key, count, floor, what, where=None):
        return self.chk.floor(self._k(key), count, floor, what, where)

    def unreadable(self, key, what, reason, where=None):
        return self.chk.unreadable(self._k(key), what, reason, where)

    @property
    def tier(self):
        return self.chk.tier

    def note(self, t):
        self.chk.note(t)

RT_TYPES = ["Bool", "Int32", "UInt32", "Float32", "Int323", "Float322", "Float324", "Float322x2", "Enum", "Struct"]
RT_MEMBERS = ["x", "y", "xy", "yx", "xx", "zyx", "xyzw", "wzyx", "_m00", "_m01", "_m10", "_m01_m10", "_11_22", "_12", "_m00_m01_m10_m11", "a", "v"]
_RT = {}


def _rt():
    import exportmodel as XM
    if "rt" not in _RT:
        _RT["rt"] = XM.RoundTrip(_RT["facts"], "rssl_hlsl")
    return _RT["rt"]


def _rt_task(item):
    """-> (family, readable, cases, round trips, skipped, first failure, unreadable reason)"""
    import elabmodel as EM
    import interp as I
    kind, arg = item
    rt = _rt()
    el = rt.el
    # (volatile destinations: the exporter writes the conversion to them as a cast naming the qualified type, which must read back as written)
    ls = [el.ety(t, m, vt) for t in RT_TYPES if t in el.u.names for m, vt in ((0, "Lvalue"), (1, "Lvalue"), (2, "Lvalue"))]
    rs = [el.ety(t, 0, "Lvalue") for t in ("Int32", "Float32", "Float322", "Bool", "UInt32") if t in el.u.names]
    cases = trips = skipped = 0
    bad = None

    def one(what, res, operands):
        nonlocal cases, trips, skipped, bad
        cases += 1
        if res[0] == "unreadable":
            return res[1]
        if res[0] != "Ok" or res[2] is None:
            return None
        r = rt.check(what, res[1], res[2], operands)
        if r is None:
            trips += 1
        elif r[0] == "skip":
            skipped += 1
        elif r[0] == "unreadable":
            return r[1]
        else:
            bad = bad or r[1]
        return None
    if kind == "binop":
        for l in ls:
            for r in rs:
                u = one("%s %s %s" % (el.describe(l), arg, el.describe(r)), el.run_binop(arg, l, r), {"L": l, "R": r})
                if u:
                    return (kind + "/" + arg, False, cases, trips, skipped, bad, u)
    elif kind == "unop":
        for l in ls:
            u = one("%s applied to %s" % (arg, el.describe(l)), el.run_unop(arg, l), {"L": l})
            if u:
                return (kind + "/" + arg, False, cases, trips, skipped, bad, u)
    elif kind == "ternary":
        c = el.ety(arg, 0, "Lvalue")
        for l in ls:
            for r in rs:
                u = one("(%s) ? %s : %s" % (el.describe(c), el.describe(l), el.describe(r)), el.run_ternary(c, l, r), {"C": c, "L": l, "R": r})
                if u:
                    return (kind + "/" + arg, False, cases, trips, skipped, bad, u)
    elif kind == "access":
        for m, vt in ((0, "Lvalue"), (1, "Lvalue")):     # (the model writes an rvalue operand as a cast of the variable: not a fixpoint by construction)
            comp = el.ety(arg, m, vt)
            for sw in RT_MEMBERS:
                u = one("%s.%s" % (el.describe(comp), sw), el.run_expr(I.Enum("Expression", "Member", {"0": EM.located("L"), "1": EM.member_path(sw)}), {"L": comp}), {"L": comp})
                if u:
                    return (kind + "/" + arg, False, cases, trips, skipped, bad, u)
            for it in ("Int32", "UInt32", "Float32"):
                ie = el.ety(it, 0, "Lvalue")
                u = one("%s[%s]" % (el.describe(comp), el.describe(ie)), el.run_expr(I.Enum("Expression", "ArraySubscript", {"0": EM.located("L"), "1": EM.located("R")}), {"L": comp, "R": ie}),
                        {"L": comp, "R": ie})
                if u:
                    return (kind + "/" + arg, False, cases, trips, skipped, bad, u)
    return (kind + "/" + arg, True, cases, trips, skipped, bad, None)


def rule_decl_refix(chk, prefix="C04.refix/decl", crate="rssl_hlsl"):
    """Declarations as a fixpoint (exportmodel.DeclRoundTrip): storage class, precise, input and interpolation modifier of
    every local / global / parameter declaration survive export and re-reading by the typer. For the MSL exporter (whose
    text the front end does not read) only the local storage class is looked at: `static` is printed iff the local is static."""
    import exportmodel as XM
    f = chk.facts
    d = XM.DeclRoundTrip(f, crate)
    hl = crate == "rssl_hlsl"
    need = [d.gen_local] + ([d.gen_global, d.gen_param, d.parse_local, d.parse_global, d.parse_input, d.parse_interp] if hl else [])
    if not all(need):
        chk.note("%s: exporter / typer declaration functions not found" % prefix)
        return False
    n = 0

    def unread(r):
        return isinstance(r, tuple) and r and r[0] == "unreadable"
    locs = {}
    for st in (f.variants("LocalStorage", "rssl_ir") or []):
        bad = None
        for pr, c, arr, ini in [(pr_, c_, False, None) for pr_ in (False, True) for c_ in (False, True)] + [(False, c_, arr_, ini_) for c_ in (False, True) for arr_ in (False, True)
                                                                                                         for ini_ in ("expression", "aggregate") if arr_ or ini_ == "expression"]:
            if True:
                r = d.local(st, pr, c, arr, ini)
                what = "a %s%s%s%slocal%s" % ("static " if st == "Static" else "", "precise " if pr else "", "const " if c else "", "array " if arr else "",
                                              " with %s initialiser" % ("an aggregate" if ini == "aggregate" else "an expression") if ini else "")
                if unread(r) or (r[0] == "Ok" and hl and unread(r[2])):
                    chk.unreadable(prefix + "/local/readable", "generate_variable_definition / parse_localtype on the declaration model", (r[1] if unread(r) else r[2][1]), where(d.gen_local))
                    return False
                n += 1
                if r[0] == "aborts":
                    bad = bad or "exporting %s aborts (%s)" % (what, r[1])
                elif r[0] == "Ok":
                    if ("Static" in r[1]) != (st == "Static"):
                        bad = bad or "%s is declared with modifiers %s: the `static` storage class %s (a static local keeps its value between calls and is initialised once)" % (
                            what, r[1], "is dropped" if st == "Static" else "appears from nowhere")
                    elif c and "Const" not in r[1]:
                        bad = bad or "%s loses its const" % what
                    elif hl and r[2] != (st, pr):
                        bad = bad or "%s is declared with modifiers %s, which the front end reads back as %s" % (what, r[1], r[2])
        locs[st] = bad
    for st, bad in sorted(locs.items()):
        chk.ob("%s/local/%s" % (prefix, st), bad is None, bad or "storage class, precise and const of a %s local survive export" % st, where(d.gen_local), sample={"storage": st})
    if hl:
        for st in (f.variants("GlobalStorage", "rssl_ir") or []):
            bad = None
            for c in (False, True):
                r = d.global_(st, c)
                what = "a %s%s global" % (st, " const" if c else "")
                if unread(r) or (r[0] == "Ok" and unread(r[2])):
                    chk.unreadable(prefix + "/global/readable", "generate_global_variable / parse_globaltype on the declaration model", (r[1] if unread(r) else r[2][1]), where(d.gen_global))
                    return False
                n += 1
                if r[0] == "aborts":
                    bad = bad or "exporting %s aborts (%s)" % (what, r[1])
                elif r[0] == "Ok":
                    if r[2] != st:
                        bad = bad or "%s is declared with modifiers %s, which the front end reads back as storage class %s" % (what, r[1], r[2])
                    elif c and st != "Extern" and "Const" not in r[1]:
                        bad = bad or "%s loses its const" % what
            chk.ob("%s/global/%s" % (prefix, st), bad is None, bad or "storage class and const of a %s global survive export" % st, where(d.gen_global), sample={"storage": st})
        interps = [None] + (f.variants("InterpolationModifier", "rssl_ir") or [])
        res = {}
        for im in (f.variants("InputModifier", "rssl_ir") or []):
            for ip_ in interps:
                for pr in (False, True):
                    r = d.param(im, ip_, pr)
                    what = "a%s %s parameter%s" % (" precise" if pr else "", im, " with interpolation %s" % ip_ if ip_ else "")
                    if unread(r) or (r[0] == "Ok" and any(unread(v) for v in r[2].values())):
                        chk.unreadable(prefix + "/param/readable", "generate_function_param / parse_input_modifier / parse_interpolation_modifier on the declaration model",
                                       r[1] if unread(r) else [v[1] for v in r[2].values() if unread(v)][0], where(d.gen_param))
                        return False
                    n += 1
                    bad = None
                    if r[0] == "aborts":
                        bad = "exporting %s aborts (%s)" % (what, r[1])
                    elif r[0] == "Ok":
                        got_im = r[2]["input"] or "In"
                        if got_im != im:
                            bad = "%s is declared with modifiers %s, which the front end reads back as an %s parameter" % (what, r[1], got_im)
                        elif r[2]["interpolation"] != ip_:
                            bad = "%s is declared with modifiers %s, which the front end reads back with interpolation %s" % (what, r[1], r[2]["interpolation"])
                        elif ("Precise" in r[1]) != pr:
                            bad = "%s is declared with modifiers %s: precise %s" % (what, r[1], "is dropped" if pr else "appears from nowhere")
                    for k in ("input/" + im, "interpolation/" + str(ip_)):
                        if bad and not res.get(k):
                            res[k] = bad
                        res.setdefault(k, None)
        for k, bad in sorted(res.items()):
            chk.ob("%s/param/%s" % (prefix, k), bad is None, bad or "survives export and re-reading", where(d.gen_param))
    chk.floor(prefix.split("/")[0].replace(".refix", "").replace(".decl", "") + ".floor/declarations-" + crate, n, 8 if not hl else 100, "model declarations exported", where(d.gen_local))
    return True


def rule_refix(chk, prefix="C04.refix"):
    """Expression-level fixpoint of DirectX HLSL export (exportmodel.py): every typed expression the typer builds for the
    operators, the ternary, member / swizzle / matrix-swizzle / subscript accesses over a matrix of operand types is
    exported by generate_expression and elaborated again by parse_expr_unchecked - it must come back as the same IR
    node with the same type. Both functions are walked by the reader; nothing is executed."""
    import multiprocessing as mp
    import os
    f = chk.facts
    _RT.clear()
    _RT["facts"] = f
    rt = _rt()
    if not rt.gen or not rt.parse or not rt.el.binop:
        chk.note("%s: generate_expression / parse_expr_unchecked not found" % prefix)
        return False
    binops = f.variants("ast_expressions::BinOp", "rssl_ast") or []
    unops = [u for u in (f.variants("ast_expressions::UnaryOp", "rssl_ast") or []) if u not in ("Dereference", "AddressOf")]
    comps = [t for t in ("Float32", "Int32", "Float322", "Float324", "Int323", "Float322x2", "Int324x4", "Struct", "Float32[4]", "const Float324[2]") if t in rt.el.u.names]
    items = [("binop", b) for b in binops] + [("unop", u) for u in unops] + [("ternary", t) for t in ("Bool", "Int32")] + [("access", c) for c in comps]
    n = min(len(items), int(os.environ.get("VERIF_JOBS", "0") or 0) or (os.cpu_count() or 2))
    if n <= 1:
        res = [_rt_task(x) for x in items]
    else:
        with mp.get_context("fork").Pool(n) as pool:
            res = pool.map(_rt_task, items, chunksize=1)
    if not all(r[1] for r in res):
        chk.unreadable(prefix + "/readable", "HLSL generate_expression / parse_expr_unchecked on the expression model", [(r[0], r[6]) for r in res if not r[1]][:1], where(rt.gen))
        return False
    for fam, _ok, cases, trips, skipped, bad, _u in sorted(res):
        chk.ob("%s/%s" % (prefix, fam), bad is None, "%d typed expressions: %d exported and read back as the same node and type (%d refused by the exporter)" % (cases, trips, skipped)
               if bad is None else bad, where(rt.gen), sample={"family": fam, "cases": cases, "round_trips": trips})
    chk.floor(prefix.replace(".refix", ".floor") + "/refix-round-trips", sum(r[3] for r in res), 1000, "expressions exported and read back", where(rt.gen))
    return True



def rule_every_declaration_emitted(chk):
    """generate_root_definitions / generate_root_definition read on a module with two functions of one leaf name in two
    namespaces (A::f, B::f), each declared first and defined later, and a prototype repeated: every root declaration of
    the module comes out, in order, in its own namespace - a prototype that is left out makes the emitted text call a
    function before anything declares it, and the front end refuses the compiler's own output."""
    import interp as I
    f = chk.facts
    fn = f.fn("generate_root_definitions", "rssl_hlsl")
    if not fn:
        return
    opt = lambda v: I.Enum("Option", "None") if v is None else I.Enum("Option", "Some", {"0": v})
    ns = lambda n_: I.Enum("NamespaceId", None, {"0": n_})
    fid = lambda n_: I.Enum("FunctionId", None, {"0": n_})

    def deref(v):
        return v.get() if isinstance(v, I.Ref) else v
    NS_OF = {1: 1, 2: 2, 3: None}
    ext = {"generate_function": lambda a: I.Enum("Result", "Ok", {"0": [I.Enum("FunctionDefinition", None, {
               "name": I.Enum("Located", None, {"node": "f", "location": I.Opaque("location")}), "tag": "%s of function %d" % ("prototype" if a[1] is True else "definition", deref(a[0]).fields["0"]),
               "body": opt(None) if a[1] is True else opt([])})]}),
           "FunctionRegistry::get_function_name_definition": lambda a: I.Enum("FunctionNameDefinition", None, {"name": I.Enum("Located", None, {"node": "f", "location": I.Opaque("location")}), "namespace": opt(None if NS_OF[deref(a[1]).fields["0"]] is None else ns(NS_OF[deref(a[1]).fields["0"]]))}),
           "NamespaceRegistry::get_namespace_name": lambda a: {1: "A", 2: "B"}[deref(a[1]).fields["0"]], "NamespaceRegistry::get_namespace_parent": lambda a: opt(None)}
    decls = [("FunctionDeclaration", 1), ("FunctionDeclaration", 2), ("FunctionDeclaration", 3), ("FunctionDeclaration", 1), ("Function", 1), ("Function", 2), ("Function", 3)]
    module = I.Enum("Module", None, {"namespace_registry": I.Opaque("namespace registry"), "function_registry": I.Opaque("function registry")})
    ctx = I.Enum("GenerateContext", None, {"module": module})
    out = []
    try:
        I.Interp(f, max_depth=8, extern=ext).apply(fn, [module, [I.Enum("RootDefinition", k, {"0": fid(i)}) for k, i in decls], out, ctx])
    except I.Unknown as e:
        if "panicking" in str(e):
            chk.ob("C04.roots/every-declaration", False, "generate_root_definitions aborts on the model module (%s)" % str(e)[:60], where(fn))
        else:
            chk.unreadable("C04.roots/every-declaration", "generate_root_definitions on a model module", str(e)[:100], where(fn))
        return
    got = []
    for d in out:
        chain = []
        cur = [d]
        while len(cur) == 1 and isinstance(cur[0], I.Enum) and cur[0].variant == "Namespace":
            nm = cur[0].fields.get("0")
            chain.append(nm.fields["node"] if isinstance(nm, I.Enum) else nm)
            cur = cur[0].fields.get("1")
        for x in cur:
            inner = x.fields.get("0") if isinstance(x, I.Enum) and x.variant == "Function" else x
            got.append(("::".join(chain) or "(root)", inner.fields.get("tag") if isinstance(inner, I.Enum) else repr(inner)))
    want = [({1: "A", 2: "B", 3: "(root)"}[i], "%s of function %d" % ("prototype" if k == "FunctionDeclaration" else "definition", i)) for k, i in decls]
    ok = got == want
    missing = [w for w in want if w not in got]
    chk.ob("C04.roots/every-declaration", ok, "%d root declarations in, %d definitions out, each in its namespace" % (len(want), len(got)) if ok else
           "of the module's declarations %s the output holds %s%s" % (want, got, ": %s is not emitted - a call before the definition then names an undeclared function" % (missing[0],) if missing else ""), where(fn), sample={"declarations": len(want)})


def rule_forward_declaration(chk):
    """generate_function_inner read twice on a model function (with and without a return semantic, attributes, two
    parameters): as a prototype and as a definition. The front end takes a function's signature - return type, return
    semantic, parameter list - from its FIRST declaration, so the prototype must carry exactly the signature the
    definition carries; only the body differs. (Attributes are read from the definition and may be left off.)"""
    import interp as I
    f = chk.facts
    fn = f.fn("generate_function_inner", "rssl_hlsl")
    if not fn:
        chk.note("C04.fwd: generate_function_inner not found; not decided")
        return
    ok = lambda v: I.Enum("Result", "Ok", {"0": v})
    opt = lambda v: I.Enum("Option", "None") if v is None else I.Enum("Option", "Some", {"0": v})

    def deref(v):
        return v.get() if isinstance(v, I.Ref) else v
    bad = {}
    n = 0
    for sem in (None, "SV_Target1"):
        for attrs in ([], [I.Enum("FunctionAttribute", "WaveSize", {"0": I.Opaque("expr")})]):
            sig = I.Enum("FunctionSignature", None, {"return_type": I.Enum("FunctionReturn", None, {"return_type": I.Enum("TypeId", None, {"0": 5}), "semantic": opt(None if sem is None else I.Enum("Semantic", "User", {"0": sem}))}),
                                                    "template_params": [], "param_types": [I.Opaque("pt0"), I.Opaque("pt1")]})
            impl = I.Enum("FunctionImplementation", None, {"params": [I.Enum("FunctionParam", "Tagged", {"tag": "p0"}), I.Enum("FunctionParam", "Tagged", {"tag": "p1"})],
                                                          "scope_block": I.Enum("ScopeBlock", None, {"0": [I.Enum("Statement", "Tagged", {"tag": "s0"})], "1": I.Opaque("decls")}), "attributes": list(attrs)})
            ext = {"FunctionRegistry::get_function_signature": lambda a, sig=sig: sig, "FunctionRegistry::get_function_implementation": lambda a, impl=impl: opt(impl),
                   "FunctionRegistry::get_template_instantiation_data": lambda a: opt(None), "generate_type": lambda a: ok(I.Enum("Type", "Tagged", {"tag": "T%s" % deref(a[0]).fields["0"]})),
                   "::get_function_name": lambda a: ok("fn"), "generate_function_param": lambda a: ok(I.Enum("FunctionParam", "Tagged", {"tag": "printed " + deref(a[0]).fields["tag"]})),
                   "generate_statement": lambda a: ok(I.Enum("Statement", "Tagged", {"tag": "printed"})), "generate_expression": lambda a: ok(I.Enum("Expression", "Tagged", {"tag": "e"}))}
            out = {}
            for only_declare in (True, False):
                ctx = I.Enum("GenerateContext", None, {"module": I.Enum("Module", None, {"function_registry": I.Opaque("function registry"), "type_registry": I.Opaque("type registry")}),
                                                       "pixel_entry_for_mesh": opt(None), "name_map": I.Opaque("names")})
                try:
                    r = I.Interp(f, max_depth=8, extern=ext).apply(fn, [I.Enum("FunctionId", None, {"0": 4}), only_declare, ctx])
                except I.Unknown as e:
                    if "panicking" in str(e):
                        bad.setdefault("total", "generate_function_inner aborts (%s)" % str(e)[:60])
                        break
                    chk.unreadable("C04.fwd/readable", "generate_function_inner on a model function", str(e)[:100], where(fn))
                    return
                if not (isinstance(r, I.Enum) and r.variant == "Ok" and isinstance(r.fields.get("0"), I.Enum)):
                    bad.setdefault("total", "generate_function_inner refuses the model function (%r)" % (r,))
                    break
                out[only_declare] = r.fields["0"].fields
            if len(out) != 2:
                continue
            n += 1
            d, b = out[True], out[False]
            flat = lambda v: repr(v)
            what = "a function %s a return semantic%s" % ("with" if sem else "without", " and an attribute" if attrs else "")
            if not (isinstance(d.get("body"), I.Enum) and d["body"].variant == "None") or not (isinstance(b.get("body"), I.Enum) and b["body"].variant == "Some"):
                bad.setdefault("body", "%s: the prototype %s a body, the definition %s" % (what, "has" if getattr(d.get("body"), "variant", "") == "Some" else "has no", "has one" if getattr(b.get("body"), "variant", "") == "Some" else "has none"))
            rd, rb_ = d["returntype"].fields, b["returntype"].fields
            if flat(rd["location_annotations"]) != flat(rb_["location_annotations"]) or (sem and sem not in flat(rd["location_annotations"])):
                bad.setdefault("return-semantic", "%s: its prototype is written with return annotations %s, its definition with %s - the front end takes the signature from the first declaration, so re-reading the output loses or changes the semantic"
                               % (what, flat(rd["location_annotations"])[:80], flat(rb_["location_annotations"])[:80]))
            if flat(rd["return_type"]) != flat(rb_["return_type"]) or flat(d["params"]) != flat(b["params"]) or flat(d["name"]) != flat(b["name"]) or flat(d["template_params"]) != flat(b["template_params"]):
                bad.setdefault("signature", "%s: prototype and definition differ in return type, name, parameters or template parameters" % what)
    for k, text in (("body", "a prototype has no body, a definition has one"), ("return-semantic", "prototype and definition carry the same return semantic"),
                    ("signature", "prototype and definition carry the same return type, name and parameters"), ("total", "no abort")):
        chk.ob("C04.fwd/" + k, k not in bad, bad.get(k) or text, where(fn), sample={"aspect": k, "functions": n})
    chk.floor("C04.floor/forward-declarations", n, 4, "model functions exported as prototype and as definition", where(fn))


def run(chk):
    f = chk.facts
    rule_inlang(chk)
    rule_attr(chk)
    rule_reg(chk)
    rule_refix(chk)
    rule_decl_refix(chk)
    rule_forward_declaration(chk)
    rule_every_declaration_emitted(chk)
    import c06
    c06.rule_lang_slot_eval(chk, prefix="C04.reread")      # what the exporter writes as register(..) the front end reads back as written (slot and space)
    import c01
    c01.rule_intrinsic(chk, "C04")      # an intrinsic is exported under a name the front end declares with the same parameter lists
    import c09
    import c15
    import interp as I
    px = Proxy(chk, [("C09.context", "C04.regroup-context"), ("C09.stmt", "C04.regroup-stmt"), ("C09.decl", "C04.regroup-decl"), ("C09.paren", "C04.regroup"), ("C09.adj", "C04.adjacent"), ("C09.lit", "C04.lit"), ("C09.anchor", "C04.anchor/c09"),
                     ("C09.floor", "C04.floor/c09"), ("C09.assoc", "C04.assoc"), ("C09.lexer", "C04.lexer"), ("C09.sides", "C04.sides"),
                     ("C15.flow/hlsl", "C04.names"), ("C15.flow/msl", "C04.ignore-msl"), ("C15.floor", "C04.floor/c15")])
    try:
        fm = c09.Formatter(px)
        pr = c09.Parser(px)
        lx = c09.Lexer(px)
        c09.rule_paren(px, fm, pr)
        c09.rule_contexts(px, fm, pr, lx)
        c09.rule_stmt_roundtrip(px)
        c09.rule_decl_roundtrip(px)
        c09.rule_adj(px, fm, pr, lx)
        c09.rule_literals(px, fm)
    except (c09.Missing, I.Unknown) as e:
        chk.ob("C04.anchor/c09-extraction", False, "anchor-missing: %s" % e, "rssl_formatter / rssl_parser")

    class OnlyHlsl(Proxy):
        def ob(self, key, ok, why="", where=None, trivial=False, sample=None):
            if "/msl" in key:
                return ok
            return Proxy.ob(self, key, ok, why, where, trivial, sample)

        def floor(self, key, count, floor, what, where=None):
            if "/msl" in key:
                return True
            return Proxy.floor(self, key, count, floor, what, where)
    only = OnlyHlsl(chk, px.mapping + [("C15.unique", "C04.names-unique"), ("C15.verbatim", "C04.names-verbatim"), ("C15.seeded", "C04.names-seeded"),
                                       ("C15.anchor", "C04.anchor/c15"), ("C15.ref", "C04.names-qualified")])
    c15.rule_flow(only)
    c15.rule_namemap(only)
    c15.rule_qualified_eval(only)      # references to entities in nested namespaces name them as they are declared


def formatter_aborts(f):
    """(adt, variant) for which the formatter aborts or returns an error."""
    out = {}
    for b in f.crates["rssl_formatter"]["bodies"]:
        if "thir" not in b:
            continue
        for m in F.exprs(b["thir"], "Match"):
            if m.get("src", "").startswith(("TryDesugar", "ForLoop")):
                continue
            for arm in m["arms"]:
                body = arm["body"]
                panics = any((c.get("fn") or "").startswith("core::panicking") for c in F.exprs(body, "Call"))
                t = F.strip(F.tail(body))
                errs = False
                if t.get("k") == "Return" and "e" in t:
                    a = F.adt_ctor(t["e"])
                    errs = bool(a and a[1] == "Err")
                a = F.adt_ctor(t)
                if a and a[0] == "Result" and a[1] == "Err":
                    errs = True
                # only arms that do nothing else
                if not (panics or errs):
                    continue
                n_calls = sum(1 for c in F.exprs(body, "Call") if not (c.get("fn") or "").startswith(("core::panicking", "core::fmt")))
                if panics and n_calls > 2:
                    continue
                for alt in F.pat_alternatives(arm["pat"]):
                    pv = F.pat_variant(alt)
                    if pv and pv[0] not in ("Result", "Option", "ControlFlow", "Ordering"):
                        out[pv] = "panics" if panics else "returns an error"
        # `if x.default.is_some() { todo!() }`
        for n in F.exprs(b["thir"], "If"):
            if any((c.get("fn") or "").startswith("core::panicking") for c in F.exprs(n["then"], "Call")):
                for fld in F.exprs(n["cond"], "Field"):
                    if fld["name"] == "default":
                        out[(short(fld.get("of", "")), "default=Some")] = "panics"
    return out


def rule_inlang(chk):
    f = chk.facts
    ab = formatter_aborts(f)
    chk.floor("C04.floor/formatter-abort-arms", len(ab), 5, "ast variants the formatter refuses")
    chk.note("formatter refuses: %s" % sorted("%s::%s" % k for k in ab))
    built = {}
    for b in f.crates["rssl_hlsl"]["bodies"]:
        if "thir" not in b:
            continue
        for a in F.exprs(b["thir"], "Adt"):
            if a["adt"].startswith("rssl_ast::"):
                built.setdefault((short(a["adt"]), a.get("variant")), []).append((b, a))
            if short(a["adt"]) in ("TemplateTypeParam", "TemplateValueParam"):
                fl = {x["f"]: x["e"] for x in a["fields"]}
                d = F.adt_ctor(fl.get("default", {}))
                if d and d[1] != "None":
                    built.setdefault((short(a["adt"]), "default=Some"), []).append((b, a))
    chk.floor("C04.floor/exporter-built-variants", len(built), 60, "ast variants constructed by the HLSL exporter")
    n = 0
    for k, why in sorted(ab.items()):
        sites = built.get(k, [])
        n += 1
        if k == ("LocationAnnotation", "PackOffset") and sites:
            # built only from ConstantVariable.offset, which only the (aborting) packoffset production sets
            pp = f.fn("parse_packoffset", "rssl_parser")
            aborts = pp is not None and any((c.get("fn") or "").startswith("core::panicking") for c in F.exprs(pp["thir"], "Call"))
            chk.ob("C04.inlang/LocationAnnotation::PackOffset", aborts,
                   "constructed from a cbuffer member's packoffset, which no accepted program can carry (the packoffset production aborts; see C08.unimpl/rssl_parser/parse_packoffset)" if aborts else
                   "the exporter emits LocationAnnotation::PackOffset and the formatter %s on it: a cbuffer member with packoffset cannot be printed" % why,
                   where(sites[0][0], sites[0][1]))
            continue
        chk.ob("C04.inlang/%s::%s" % k, not sites, "never constructed by the exporter (formatter %s)" % why if not sites else
               "the HLSL exporter constructs %s::%s (%s) but the formatter %s on it: export of such a program fails" %
               (k[0], k[1], where(sites[0][0], sites[0][1]), why), where(sites[0][0], sites[0][1]) if sites else "formatter/src/formatter.rs",
               sample={"variant": "%s::%s" % k, "formatter": why, "constructed": bool(sites)})


def rule_attr(chk):
    f = chk.facts
    # names the typer accepts (string patterns in attribute parsers, compared after to_lowercase)
    accepted = {}
    for fn_name in ("parse_function_attribute", "parse_statement_attribute"):
        cands = [b for b in f.crates["rssl_typer"]["bodies"] if "thir" in b and b["name"].startswith("parse_") and "attribute" in b["name"]]
        for b in cands:
            lower = any(short(c.get("fn") or "") == "to_lowercase" for c in F.exprs(b["thir"], "Call"))
            for m in F.exprs(b["thir"], "Match"):
                for arm in m["arms"]:
                    for alt in F.pat_alternatives(arm["pat"]):
                        if alt.get("k") == "Const" and isinstance(alt.get("v"), str) and alt.get("ty", "").endswith("str"):
                            accepted[alt["v"]] = (b["name"], lower)
            # a name tested with == / != against a string literal is a name the parser knows as well
            for c in F.walk(b["thir"]):
                if not isinstance(c, dict):
                    continue
                is_cmp = (c.get("k") == "Binary" and c.get("op") in ("Eq", "Ne")) or (c.get("k") == "Call" and short(c.get("fn") or "") in ("eq", "ne"))
                if not is_cmp:
                    continue
                ops = c["args"] if c.get("k") == "Call" else [c["l"], c["r"]]
                for o in ops:
                    l = F.lit(F.strip(o))
                    if l and l[0] == "str" and l[1] and l[1].replace("_", "").isalnum():
                        accepted.setdefault(l[1], (b["name"], lower))
    chk.floor("C04.floor/accepted-attributes", len(accepted), 10, "attribute names accepted by the typer")
    emitted = {}
    for gname in ("generate_function_attribute", "generate_statement_attribute"):
        g = f.fn(gname, "rssl_hlsl")
        if not chk.anchor("C04.anchor/" + gname, g, gname):
            continue
        for a in F.exprs(g["thir"], "Adt"):
            if short(a["adt"]) == "Attribute":
                fl = {x["f"]: x["e"] for x in a["fields"]}
                names = [F.lit(x)[1] for x in F.exprs(fl.get("name", {}), "Lit") if x.get("t") == "str"]
                if len(names) == 1:
                    emitted[names[0]] = g
    chk.floor("C04.floor/emitted-attributes", len(emitted), 8, "attribute names emitted on the DirectX path")
    for nm, g in sorted(emitted.items()):
        acc = accepted.get(nm) or accepted.get(nm.lower())
        ok = acc is not None and (nm in accepted or acc[1])
        chk.ob("C04.attr/%s" % nm, ok, "[%s] is accepted by %s" % (nm, acc[0]) if ok else
               "the exporter emits attribute [%s], which no attribute parser of the typer accepts: re-compiling the output fails" % nm, where(g),
               sample={"attribute": nm, "accepted_by": acc[0] if acc else None})
    # statement attributes: typer name -> variant, exporter variant -> name are inverse
    t2v = {}
    for b in f.crates["rssl_typer"]["bodies"]:
        if "thir" not in b or "attribute" not in b["name"]:
            continue
        for m in F.exprs(b["thir"], "Match"):
            for arm in m["arms"]:
                vs = [a["variant"] for a in F.exprs(arm["body"], "Adt") if short(a["adt"]) == "StatementAttribute"]
                for alt in F.pat_alternatives(arm["pat"]):
                    if alt.get("k") == "Const" and isinstance(alt.get("v"), str) and len(set(vs)) == 1:
                        t2v[alt["v"]] = vs[0]
    g = f.fn("generate_statement_attribute", "rssl_hlsl")
    v2t = {}
    if g:
        for m in F.find_matches(g, "StatementAttribute"):
            for arm in m["arms"]:
                pv = F.pat_variant(F.pat_alternatives(arm["pat"])[0])
                names = [F.lit(x)[1] for x in F.exprs(arm["body"], "Lit") if x.get("t") == "str"]
                if pv and names:
                    v2t.setdefault(pv[1], set()).add(names[0])
    for v, names in sorted(v2t.items()):
        ok = all(t2v.get(n) == v for n in names) or (v == "Unroll" and names == {"unroll"})
        chk.ob("C04.attr/statement/%s" % v, ok, "%s <-> [%s]" % (v, ",".join(sorted(names))) if ok else
               "StatementAttribute::%s is printed as %s, which the typer reads as %s" % (v, sorted(names), [t2v.get(n) for n in names]), where(g))


def rule_reg(chk):
    f = chk.facts
    disp = [b for b in f.by_name.get("fmt", []) if short(b.get("self_ty", "")) == "RegisterType" and "Display" in (b.get("impl_trait") or "")]
    pr = f.fn("parse_register", "rssl_parser")
    if not chk.anchor("C04.anchor/RegisterType-Display", disp[0] if len(disp) == 1 else None, "impl Display for RegisterType") or \
            not chk.anchor("C04.anchor/parse_register", pr, "parse_register"):
        return
    w = {}
    for m in F.find_matches(disp[0], "RegisterType"):
        for arm in m["arms"]:
            pv = F.pat_variant(arm["pat"])
            t = F.fmt_template(arm["body"])
            if pv and t:
                w[pv[1]] = "".join(x[1] for x in t if x[0] == "lit")
    r = {}
    for m in F.exprs_deep(f, pr, "Match", depth=1):
        for arm in m["arms"]:
            vs = [a["variant"] for a in F.exprs(arm["body"], "Adt") if short(a["adt"]) == "RegisterType"]
            for alt in F.pat_alternatives(arm["pat"]):
                if alt.get("k") == "Const" and isinstance(alt.get("v"), str) and len(vs) == 1:
                    r[alt["v"]] = vs[0]
    for v, letter in sorted(w.items()):
        ok = r.get(letter) == v
        chk.ob("C04.reg/letter/%s" % v, ok, "RegisterType::%s prints '%s', parser reads it back" % (v, letter) if ok else
               "RegisterType::%s prints as '%s', which parse_register reads as %s" % (v, letter, r.get(letter)), where(disp[0]),
               sample={"type": v, "letter": letter, "parsed_as": r.get(letter)})
    chk.floor("C04.floor/register-letters", len(w), 4, "register type letters", where(disp[0]))
    fr = f.fn("format_register_annotation", "rssl_formatter")
    ps = f.fn("parse_space_identifier", "rssl_parser")
    if chk.anchor("C04.anchor/format_register_annotation", fr, "format_register_annotation") and ps:
        lits = [l.get("v") for l in F.exprs(fr["thir"], "Lit") if l.get("t") == "str"]
        tmpl = []
        for c in F.exprs(fr["thir"], "Call"):
            if (c.get("mac") or "").startswith("write") or short(c.get("fn") or "") == "write_fmt":
                t = F.fmt_template(c)
                if t:
                    tmpl.append(t)
        space_w = any([x for x in t if x[0] == "lit"] and t[0] == ("lit", "space") for t in tmpl)
        prefix_r = [F.lit(c["args"][1]) for c in F.exprs(ps["thir"], "Call") if short(c.get("fn") or "") == "strip_prefix"]
        ok = space_w and ("str", "space") in prefix_r and " : register(" in lits
        chk.ob("C04.reg/space", ok, "`spaceN` is written and read with the same prefix" if ok else
               "the register space is written as %s but read with prefix %s" % (tmpl, prefix_r), where(fr))
        slot_t = [t for t in tmpl if [x[0] for x in t] == ["arg", "arg"]]
        chk.ob("C04.reg/slot-format", bool(slot_t), "slot printed as <letter><index> with nothing in between" if slot_t else
               "the register slot is no longer printed as `{letter}{index}`", where(fr))
    # output topology strings
    g = f.fn("generate_function_attribute", "rssl_hlsl")
    if g:
        w = {}
        for m in F.find_matches(g, "OutputTopology"):
            for arm in m["arms"]:
                pv = F.pat_variant(arm["pat"])
                l = F.lit(arm["body"])
                if pv and l:
                    w[pv[1]] = l[1]
        r = {}
        for b in f.crates["rssl_typer"]["bodies"]:
            if "thir" not in b:
                continue
            for m in F.exprs(b["thir"], "Match"):
                for arm in m["arms"]:
                    vs = [a["variant"] for a in F.exprs(arm["body"], "Adt") if short(a["adt"]) == "OutputTopology"]
                    for alt in F.pat_alternatives(arm["pat"]):
                        if alt.get("k") == "Const" and isinstance(alt.get("v"), str) and len(vs) == 1:
                            r[alt["v"]] = vs[0]
        for v, s in sorted(w.items()):
            chk.ob("C04.attr/outputtopology/%s" % v, r.get(s) == v, "\"%s\" <-> %s" % (s, v) if r.get(s) == v else
                   "OutputTopology::%s is printed as \"%s\", which the typer reads as %s" % (v, s, r.get(s)), where(g))
