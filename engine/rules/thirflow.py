"""Value-origin tracing over THIR (the tree-level counterpart of a backward slice).

trace(body, expr, path) answers: "which expression produced the component `path` of the
value of `expr`?"  It follows local variables to their binding sites (let / match arm /
if-let patterns, keeping track of the position inside tuple / struct / enum patterns),
the `?` operator, field accesses, tuple and ADT constructors, and calls into workspace
functions (depth-bounded, parameters are mapped back to the caller's arguments).

Origins are tuples:
  ('call', callee, path, ln)        result of a call that is not looked into
  ('param', fn_path, index, path)   a parameter of the outermost function
  ('lit', tag, value) ('const', path) ('fnref', path)
  ('ctor', adt, variant, ln)        an ADT constructed here (path exhausted)
  ('binop', op, ln) ('unop', op, ln) ('cast', from, to, ln)
  ('other', kind, ln)
Path steps: ('f', name) for struct fields / tuple indices, ('v', Adt, Variant, field).
"""
from facts import short, walk, exprs

TRANSPARENT = ("Borrow", "Deref", "Coerce", "RawBorrow")

# std functions that return (part of) their first argument unchanged
PASS_FIRST = (
    "alloc::boxed::Box::<T>::new", "core::clone::Clone::clone", "alloc::borrow::ToOwned::to_owned",
    "core::convert::Into::into", "core::convert::From::from", "core::convert::AsRef::as_ref",
    "core::ops::deref::Deref::deref", "core::ops::deref::DerefMut::deref_mut",
    "core::option::Option::<T>::as_ref", "core::option::Option::<T>::as_mut",
    "core::option::Option::<&T>::cloned", "core::option::Option::<&T>::copied",
    "core::option::Option::<T>::take", "core::option::Option::<T>::as_deref",
    "core::result::Result::<T, E>::as_ref",
    "core::borrow::Borrow::borrow", "alloc::string::ToString::to_string",
    "alloc::string::String::as_str", "alloc::vec::Vec::<T, A>::as_slice",
    "core::mem::take", "core::mem::replace",
)
# std adaptors whose result is (made of) elements of their first argument
ELEMENT_OF = (
    "core::iter::traits::collect::IntoIterator::into_iter", "core::iter::traits::iterator::Iterator::next",
    "core::slice::<impl [T]>::iter", "core::slice::<impl [T]>::iter_mut", "core::slice::<impl [T]>::split_last",
    "core::slice::<impl [T]>::split_first", "core::slice::<impl [T]>::first", "core::slice::<impl [T]>::last",
    "core::iter::traits::iterator::Iterator::rev", "core::iter::traits::iterator::Iterator::enumerate",
    "core::iter::traits::iterator::Iterator::peekable", "core::iter::traits::iterator::Iterator::skip",
    "core::iter::traits::iterator::Iterator::cloned", "core::iter::traits::iterator::Iterator::copied",
    "core::slice::<impl [T]>::get", "alloc::vec::Vec::<T, A>::pop", "core::slice::<impl [T]>::to_vec",
)
UNWRAP_SOME = ("core::option::Option::<T>::unwrap", "core::option::Option::<T>::expect",
               "core::option::Option::<T>::unwrap_or", "core::option::Option::<T>::unwrap_or_default")
UNWRAP_OK = ("core::result::Result::<T, E>::unwrap", "core::result::Result::<T, E>::expect")


def _vstep(adt, variant, field):
    return ("v", short(adt), variant, str(field))


class BodyIndex:
    """Binding sites of every local of one body."""

    def __init__(self, body):
        self.body = body
        self.sites = {}     # id -> [(source_kind, source, path)]
        for i, p in enumerate(body.get("params", [])):
            if "pat" in p:
                for (bid, path) in self._binds(p["pat"], ()):
                    self.sites.setdefault(bid, []).append(("param", i, path))
        for n in walk(body["thir"]):
            k = n.get("k")
            if k == "LetStmt" and "init" in n:
                for (bid, path) in self._binds(n["pat"], ()):
                    self.sites.setdefault(bid, []).append(("expr", n["init"], path))
            elif k == "Let":
                for (bid, path) in self._binds(n["pat"], ()):
                    self.sites.setdefault(bid, []).append(("expr", n["e"], path))
            elif k == "Match":
                for arm in n["arms"]:
                    for (bid, path) in self._binds(arm["pat"], ()):
                        self.sites.setdefault(bid, []).append(("expr", n["scrut"], path))
            elif k in ("Assign",):
                l = n["l"]
                while l.get("k") in TRANSPARENT:
                    l = l["e"]
                if l.get("k") == "Var":
                    self.sites.setdefault(l["id"], []).append(("expr", n["r"], ()))

    def _binds(self, p, path):
        k = p.get("k")
        if k == "Bind":
            yield (p["id"], path)
            if "sub" in p:
                yield from self._binds(p["sub"], path)
        elif k == "Variant":
            for sp in p["subs"]:
                yield from self._binds(sp["p"], path + (_vstep(p["adt"], p["variant"], sp["f"]),))
        elif k == "Leaf":
            for sp in p["subs"]:
                yield from self._binds(sp["p"], path + (("f", str(sp["f"])),))
        elif k == "Or":
            for q in p["pats"]:
                yield from self._binds(q, path)
        elif k == "Slice":
            for i, q in enumerate(p.get("prefix", [])):
                yield from self._binds(q, path + (("idx", i),))
            if "slice" in p:
                yield from self._binds(p["slice"], path + (("rest",),))
            for i, q in enumerate(p.get("suffix", [])):
                yield from self._binds(q, path + (("idx", -1 - i),))
        elif k == "Guard":
            yield from self._binds(p["sub"], path)


class Tracer:
    def __init__(self, facts, max_depth=3, inline=None, no_inline=(), through_casts=False, via=None):
        self.facts = facts
        self.max_depth = max_depth
        self._idx = {}
        self.no_inline = tuple(no_inline)
        self.inline = inline  # optional predicate(path) -> bool
        self.through_casts = through_casts
        self.via = via or {}   # callee short name -> argument index: report ('via', name, origin-of-that-argument)

    def index(self, body):
        p = body["path"]
        if p not in self._idx:
            self._idx[p] = BodyIndex(body)
        return self._idx[p]

    def returns(self, body):
        """Expressions whose value the function may return."""
        out = []
        t = body["thir"]
        out.append(t)
        for n in exprs(t, "Return"):
            if "e" in n:
                out.append(n["e"])
        return out

    def trace(self, body, e, path=(), depth=0, _seen=None, ctx=()):
        seen = _seen if _seen is not None else set()
        key = (body["path"], id(e), tuple(path), ctx)
        if key in seen or len(seen) > 6000:
            return set()
        seen.add(key)
        path = tuple(path)
        k = e.get("k")
        T = lambda x, p=path: self.trace(body, x, p, depth, seen, ctx)  # noqa: E731
        if k in TRANSPARENT:
            return T(e["e"])
        if k == "Block":
            if "expr" in e:
                return T(e["expr"])
            return {("other", "unit", None)}
        if k == "Var":
            return self._var(body, e, path, depth, seen, ctx)
        if k == "Field":
            return T(e["e"], (("f", e["name"]),) + path)
        if k == "Tuple":
            if path and path[0][0] == "f":
                i = int(path[0][1])
                if i < len(e["elems"]):
                    return T(e["elems"][i], path[1:])
                return set()
            return {("ctor", "tuple", None, e.get("ln"))} if not path else set()
        if k == "Adt":
            if not path:
                return {("ctor", short(e["adt"]), e.get("variant"), e.get("ln"))}
            st = path[0]
            if st[0] == "v":
                if short(e["adt"]) != st[1] or e.get("variant") != st[2]:
                    return set()
                fname = st[3]
            elif st[0] == "f":
                fname = st[1]
            else:
                return {("other", "adt-step", e.get("ln"))}
            for f in e["fields"]:
                if str(f["f"]) == fname:
                    return T(f["e"], path[1:])
            if "base" in e:
                return T(e["base"], path)
            return set()
        if k == "Match":
            src = e.get("src", "")
            if src.startswith("TryDesugar"):
                inner = e["scrut"]["args"][0]
                ity = inner.get("ty", "")
                if "option::Option" in ity.split("<")[0]:
                    return T(inner, (_vstep("Option", "Some", 0),) + path)
                return T(inner, (_vstep("Result", "Ok", 0),) + path)
            out = set()
            for arm in e["arms"]:
                out |= T(arm["body"])
            return out
        if k == "If":
            out = T(e["then"])
            if "else" in e:
                out |= T(e["else"])
            return out
        if k == "Lit":
            return {("lit", e.get("t"), e.get("v"))}
        if k == "Const":
            return {("const", e["path"])}
        if k == "Static":
            return {("const", e["path"])}
        if k == "FnRef":
            return {("fnref", e.get("rfn") or e["fn"])}
        if k == "Binary" or k == "Logical":
            return {("binop", e["op"], e.get("ln"))}
        if k == "Unary":
            return {("unop", e["op"], e.get("ln"))}
        if k == "Cast":
            if self.through_casts:
                return T(e["e"])
            return {("cast", e.get("from"), e.get("ty"), e.get("ln"))}
        if k == "Index":
            from facts import lit as _lit
            li = _lit(e["i"])
            if li and li[0] == "int":
                return T(e["e"], (("idx", li[1]),) + path)
            return T(e["e"], (("elem",),) + path)
        if k == "Array":
            if path and path[0][0] in ("idx", "elem"):
                out = set()
                for x in e["elems"]:
                    out |= T(x, path[1:])
                return out
            return {("other", "array", e.get("ln"))}
        if k == "Call":
            return self._call(body, e, path, depth, seen, ctx)
        if k in ("Return", "Break", "Continue"):
            return set()
        if k == "Closure":
            return {("closure", e["path"], e.get("ln"))}
        return {("other", k, e.get("ln"))}

    def _var(self, body, e, path, depth, seen, ctx=()):
        idx = self.index(body)
        sites = idx.sites.get(e["id"])
        if sites is None and e.get("upvar") and body.get("parent"):
            pb = self.facts.bodies.get(body["parent"])
            if pb is not None:
                return self.trace(pb, e, path, depth, seen, ctx)
        if not sites:
            return {("other", "unbound:" + e.get("name", "?"), e.get("ln"))}
        out = set()
        if path and path[0][0] == "elem":
            # elements of a local collection: whatever is pushed into it in this body
            for c in exprs(body["thir"], "Call"):
                fn = c.get("fn") or ""
                if fn in ("alloc::vec::Vec::<T, A>::push", "alloc::vec::Vec::<T, A>::insert",
                          "alloc::collections::vec_deque::VecDeque::<T, A>::push_back") and c.get("args"):
                    tgt = c["args"][0]
                    while tgt.get("k") in TRANSPARENT:
                        tgt = tgt["e"]
                    if tgt.get("k") == "Var" and tgt["id"] == e["id"]:
                        out |= self.trace(body, c["args"][-1], path[1:], depth, seen, ctx)
        for kind, src, bpath in sites:
            if kind == "param":
                out.add(("param", body["path"], src, tuple(bpath) + path))
            else:
                out |= self.trace(body, src, tuple(bpath) + path, depth, seen, ctx)
        return out

    def _call(self, body, e, path, depth, seen, ctx=()):
        cal = e.get("rfn") or e.get("fn")
        gen = e.get("fn")
        args = e.get("args", [])
        if cal is None:
            return {("other", "indirect-call", e.get("ln"))}
        if (gen or "").startswith(("core::panicking::", "std::rt::begin_panic", "core::option::expect_failed", "core::result::unwrap_failed")):
            return set()    # diverges: contributes no value
        if gen in PASS_FIRST or cal in PASS_FIRST:
            if args:
                return self.trace(body, args[0], path, depth, seen, ctx)
        if gen in UNWRAP_SOME:
            return self.trace(body, args[0], (_vstep("Option", "Some", 0),) + path, depth, seen, ctx)
        if gen in UNWRAP_OK:
            return self.trace(body, args[0], (_vstep("Result", "Ok", 0),) + path, depth, seen, ctx)
        if gen == "core::ops::try_trait::FromResidual::from_residual" and path and path[0][0] == "v" \
                and path[0][2] in ("Ok", "Some"):
            return set()   # from_residual only ever produces the Err / None side
        if gen in ELEMENT_OF and args:
            rest = list(path)
            while rest and ((rest[0][0] == "v" and rest[0][1] == "Option") or (rest[0][0] == "f" and rest[0][1].isdigit())
                            or rest[0][0] == "elem"):
                rest.pop(0)
            return self.trace(body, args[0], (("elem",),) + tuple(rest), depth, seen, ctx)
        sn = short(cal)
        if sn in self.via and self.via[sn] < len(args):
            inner = self.trace(body, args[self.via[sn]], (), depth, seen, ctx)
            return {("via", sn, o) for o in inner} or {("via", sn, ("other", "empty", e.get("ln")))}
        callee = self.facts.bodies.get(cal)
        can_inline = callee is not None and depth < self.max_depth and "thir" in callee \
            and not any(cal.endswith(x) for x in self.no_inline) \
            and (self.inline is None or self.inline(cal))
        if can_inline:
            out = set()
            for r in self.returns(callee):
                for o in self.trace(callee, r, path, depth + 1, seen, ctx + (id(e),)):
                    if o[0] == "param" and o[1] == callee["path"]:
                        i = o[2]
                        if i < len(args):
                            out |= self.trace(body, args[i], o[3], depth, seen, ctx)
                        else:
                            out.add(o)
                    else:
                        out.add(o)
            if out:
                return out
        return {("call", cal, path, e.get("ln"))}


def calls_in(origins, suffix=None):
    return {o for o in origins if o[0] == "call" and (suffix is None or o[1].endswith(suffix))}


def describe(o):
    if o[0] == "call":
        return "call %s%s" % (short(o[1]), "".join("." + "/".join(map(str, s[1:])) for s in o[2]))
    if o[0] == "param":
        return "param#%d%s" % (o[2], "".join("." + "/".join(map(str, s[1:])) for s in o[3]))
    return " ".join(str(x) for x in o)
