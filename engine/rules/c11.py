"""C11 — conditional compilation selects exactly the branches C semantics select."""
import facts as F
import interp as I
import mirs as M
import thirflow as TF
from facts import short, where

EXPLANATION = (
    "The conditional-compilation mechanism is a three-state automaton (ConditionChain), a gate in front of every "
    "directive with an effect, and a small #if evaluator; all three are finite and are decided completely from the "
    "type-checked program. C11.fsm: ConditionChain::switch's transition match is read as a finite map over "
    "ConditionState x bool and compared with the reference automaton of the C rules; pop/switch on an empty chain "
    "return the unmatched-#endif/#else errors; is_active is `all(== Enabled)`; the states pushed by #if/#ifdef/#ifndef "
    "are Enabled iff the (possibly negated) condition holds and DisabledInner under a skipped region; an unfinished chain "
    "is rejected at the end of the entry file. C11.gate (MIR dominance): every call with an effect in preprocess_command "
    "(Macro::parse, macros.push/retain, FileLoader::load, preprocess_included_file, mark_as_pragma_once, the #if "
    "condition evaluation, every push of a state that can be Enabled, the unknown-directive and unknown-pragma errors) is "
    "dominated by the `skip == false` edge, and flush_normal's output.extend by is_active() == true. C11.eval: "
    "BinOp::apply per operator over a complete set of orderings/zero-ness; operator token tables per level via the "
    "lexer's symbol table; level chain || < && < ==,!= < relational < ! < leaf from the call graph; left fold with "
    "(accumulated, right) operand order; leaf table; result `value != 0` and rejection of trailing tokens. "
    "C11.defined: `defined` is recognised only when apply_defined is set (#if/#elif) and yields LiteralInt(1|0) from a "
    "name comparison over the live macro list. Not decided: that each line's token stream reaches preprocess_command intact."
)
ASSUMPTIONS = [
    "rustc THIR/MIR is a faithful view of the source",
    "reference automaton and operator semantics are the ones of ISO C (typed into the rule, DESIGN.md App. A)",
]

PP = "rssl_preprocess"


def run(chk):
    f = chk.facts
    rule_fsm(chk)
    rule_gate(chk)
    evaluated_cond = bool(rule_cond_eval(chk))
    rule_eval(chk, shape=not evaluated_cond)
    import c08
    evaluated = c08.rule_defined_eval(chk, prefix="C11.defined/model")
    rule_defined(chk, shape=not evaluated)


# ------------------------------------------------------------------ fsm

REF_SWITCH = {
    ("Enabled", True): "DisabledOuter", ("Enabled", False): "DisabledOuter",
    ("DisabledInner", True): "Enabled", ("DisabledInner", False): "DisabledInner",
    ("DisabledOuter", True): "DisabledOuter", ("DisabledOuter", False): "DisabledOuter",
}


def rule_fsm(chk):
    f = chk.facts
    ip = I.Interp(f)
    sw = chk.anchor("C11.anchor/switch", f.fn("switch", PP, self_ty="ConditionChain"), "ConditionChain::switch")
    pop = chk.anchor("C11.anchor/pop", f.fn("pop", PP, self_ty="ConditionChain"), "ConditionChain::pop")
    act = chk.anchor("C11.anchor/is_active", f.fn("is_active", PP, self_ty="ConditionChain"), "ConditionChain::is_active")
    states = f.variants("preprocess::ConditionState", PP)
    chk.ob("C11.fsm/states", states is not None and set(states) == {"Enabled", "DisabledInner", "DisabledOuter"},
           "ConditionState = %s" % states, "preprocess/src/preprocess.rs")
    # switch / pop / is_active are evaluated on concrete chains (finite-map reader with a modelled Vec): whatever way the
    # functions are written, what counts is the chain they leave behind and the result they return
    ST = ["Enabled", "DisabledInner", "DisabledOuter"]

    def chain(sts):
        return I.Enum("ConditionChain", None, {"0": [I.Enum("ConditionState", s) for s in sts]})

    def run(fn, sts, *extra):
        c = chain(sts)
        try:
            r = ip.apply(fn, [c] + list(extra))
        except I.Unknown as e:
            return "unreadable: %s" % e, None
        rv = r.variant if isinstance(r, I.Enum) else r
        if isinstance(r, I.Enum) and r.variant == "Err":
            e0 = r.fields.get("0")
            rv = "Err(%s)" % (e0.variant if isinstance(e0, I.Enum) else "?")
        return rv, [x.variant if isinstance(x, I.Enum) else str(x) for x in c.fields["0"]]
    if sw:
        for (st, a), want in sorted(REF_SWITCH.items()):
            for below in ([], ["DisabledInner"], ["Enabled", "DisabledOuter"]):
                rv, after = run(sw, below + [st], a)
                ok = rv == "Ok" and after == below + [want]
                if not ok or not below:
                    chk.ob("C11.fsm/switch/%s,%s%s" % (st, "active" if a else "inactive", "" if not below else "/under-%d" % len(below)), ok,
                           "%s --#elif/#else(%s)--> %s" % (st, a, want) if ok else
                           "transition of the innermost level %s under %s with condition %s: returns %s and leaves %s, C rules require Ok and %s" % (st, below, a, rv, after, below + [want]),
                           where(sw), sample={"state": st, "active": a, "next": (after or [None])[-1]})
        chk.ob("C11.fsm/switch-replaces-top", True, "covered by the chains above: only the innermost level changes, the depth is kept", where(sw), trivial=True)
        for a in (False, True):
            rv, after = run(sw, [], a)
            ok = rv == "Err(ElseNotMatched)" and after == []
            chk.ob("C11.fsm/else-unmatched%s" % ("" if not a else "-arm"), ok, "switch on an empty chain -> ElseNotMatched" if ok else
                   "#else / #elif without an open #if returns %s (chain %s), must be Err(ElseNotMatched)" % (rv, after), where(sw))
    if pop:
        for sts in ([s] for s in ST):
            rv, after = run(pop, ["Enabled"] + sts)
            ok = rv == "Ok" and after == ["Enabled"]
            chk.ob("C11.fsm/endif/%s" % sts[0], ok, "#endif removes the innermost level" if ok else "pop of %s returns %s and leaves %s" % (sts, rv, after), where(pop))
        rv, after = run(pop, [])
        ok = rv == "Err(EndIfNotMatched)" and after == []
        chk.ob("C11.fsm/endif-unmatched", ok, "pop on an empty chain -> EndIfNotMatched" if ok else "#endif without an open #if returns %s, must be Err(EndIfNotMatched)" % rv, where(pop))
        chk.ob("C11.fsm/endif-unmatched-arm", ok, "same", where(pop), trivial=True)
    if act:
        import itertools
        bad = []
        n_act = 0
        for ln in range(0, 4):
            for sts in itertools.product(ST, repeat=ln):
                n_act += 1
                try:
                    r = ip.apply(act, [chain(list(sts))])
                except I.Unknown as e:
                    r = "unreadable: %s" % e
                if r != all(s == "Enabled" for s in sts):
                    bad.append((list(sts), r))
        chk.ob("C11.fsm/is_active", not bad, "is_active = every level is Enabled (%d chains)" % n_act if not bad else
               "is_active(%s) = %s; a region is active exactly when every enclosing level is Enabled (%d of %d chains wrong)" % (bad[0][0], bad[0][1], len(bad), n_act), where(act))
    # pushes in preprocess_command
    pc = chk.anchor("C11.anchor/preprocess_command", f.fn("preprocess_command", PP), "preprocess_command")
    if pc:
        pushes = [c for c in F.exprs(pc["thir"], "Call") if (c.get("fn") or "").endswith("ConditionChain::push")]
        chk.floor("C11.floor/pushes", len(pushes), 2, "condition_chain.push sites in preprocess_command", where(pc))
        n_cond = 0
        lets = F.let_table(pc["thir"])
        SIMPLE = {"If", "Unary", "Binary", "Logical", "Var", "Block", "Lit", "Borrow", "Deref"}

        def bool_inline(e, depth=4):
            """Replace bool temporaries whose initialiser is itself a boolean formula by that formula."""
            def sub(n, d):
                if isinstance(n, list):
                    return [sub(x, d) for x in n]
                if not isinstance(n, dict):
                    return n
                if n.get("k") == "Var" and n.get("ty") == "bool" and n.get("id") in lets and d > 0:
                    init = lets[n["id"]]
                    if all(x.get("k") in SIMPLE for x in F.walk(init) if isinstance(x, dict) and "k" in x):
                        return sub(init, d - 1)
                return {k: (sub(v, d) if isinstance(v, (dict, list)) else v) for k, v in n.items()}
            return sub(e, depth)
        ok_neg = False
        for c in pushes:
            arg = bool_inline(c["args"][1])
            inputs = {}
            for v in F.exprs(arg, "Var"):
                if v.get("ty") == "bool":
                    inputs[v["id"]] = v
            ids = sorted(inputs)
            table = {}
            readable = len(ids) <= 2
            if readable:
                import itertools as _it
                for vals in _it.product((False, True), repeat=len(ids)):
                    try:
                        r = ip.ev(arg, dict(zip(ids, vals)))
                        table[vals] = r.variant if isinstance(r, I.Enum) else str(r)
                    except I.Unknown as e:
                        table[vals] = "unreadable (%s)" % e
            if len(ids) == 0:
                ok = table.get(()) == "DisabledInner"
                chk.ob("C11.fsm/push-skipped", ok, "unconditional push is DisabledInner" if ok else
                       "an unconditional push stores %s (a skipped #if must push DisabledInner)" % table.get(()), where(pc, c))
            elif len(ids) == 1:
                n_cond += 1
                ok = table == {(True,): "Enabled", (False,): "DisabledInner"}
                chk.ob("C11.fsm/push-polarity", ok, "push(Enabled if the condition holds, else DisabledInner)" if ok else
                       "a conditional push maps active->%s, inactive->%s (must be Enabled / DisabledInner)" % (table.get((True,)), table.get((False,))),
                       where(pc, c), sample={"then": table.get((True,)), "else": table.get((False,))})
            elif len(ids) == 2:
                n_cond += 1
                xor = all(table.get((a_, b_)) == ("Enabled" if a_ != b_ else "DisabledInner") for a_ in (False, True) for b_ in (False, True))
                # one of the two inputs is the comparison of the directive name with "ifndef"
                lits = []
                for i_ in ids:
                    init = lets.get(i_)
                    if init is not None:
                        lits += [l.get("v") for l in F.exprs(init, "Lit") if l.get("t") == "str"]
                ok_neg = xor and lits == ["ifndef"]
                chk.ob("C11.fsm/push-polarity", xor, "push(Enabled iff defined XOR negated)" if xor else
                       "the #ifdef/#ifndef push table is %s (must be Enabled exactly when `defined` differs from `negated`)" % table, where(pc, c))
                chk.ob("C11.fsm/ifndef-negation", ok_neg, "active = exists XOR (command == \"ifndef\")" if ok_neg else
                       "#ifdef/#ifndef activity table is %s with negation keyed on %s" % (table, lits), where(pc, c))
            else:
                chk.ob("C11.fsm/push-polarity", False, "the pushed state depends on %d boolean inputs: not a readable condition push" % len(ids), where(pc, c))
        chk.floor("C11.floor/conditional-pushes", n_cond, 1, "conditional pushes (#if, #ifdef/#ifndef)", where(pc))
        if not ok_neg:
            chk.ob("C11.fsm/ifndef-negation", False, "anchor-missing or wrong: the #ifdef/#ifndef push `Enabled iff exists XOR (command == \"ifndef\")`", where(pc))
    # unfinished chain at end of the entry file
    init = chk.anchor("C11.anchor/preprocess_initial_file", f.fn("preprocess_initial_file", PP), "preprocess_initial_file")
    import c12
    tab = c12.initial_file_table(f) if init else None
    if isinstance(tab, dict):
        # preprocess_initial_file walked with an entry file that leaves a given chain behind: only the empty chain is accepted
        bad = None
        for k, (chain, res) in tab["chains"].items():
            want = "Ok" if not chain else "Err(ConditionChainNotFinished)"
            if res != want:
                bad = bad or "an entry file that ends with the chain %s (%s) gives %s, must be %s: a missing #endif is accepted when the open branch is %s" % (
                    chain, k, res, want, "the selected one" if chain and chain[-1] == "Enabled" else "a skipped one")
        chk.ob("C11.fsm/unterminated", bad is None, bad or "Ok only when the chain is empty after the entry file (%d chains)" % len(tab["chains"]), where(init), sample={"chains": len(tab["chains"])})
    elif init:
        cfg = M.Cfg(init)
        err_blocks = [i for i, j, s in cfg.stmts(lambda s: s.get("r") == "Agg" and s.get("variant") == "ConditionChainNotFinished")]
        ok_blocks = [i for i, j, s in cfg.stmts(lambda s: s.get("r") == "Agg" and short(s.get("adt", "")) == "Result" and s.get("variant") == "Ok")]
        pred = M.is_call_result("is_empty")
        ok1 = bool(err_blocks) and all(M.dominated_by_guard(cfg, b, pred, want=False)[0] for b in err_blocks)
        ok2 = bool(ok_blocks) and all(M.dominated_by_guard(cfg, b, pred, want=True)[0] for b in ok_blocks)
        after = False
        inc = cfg.calls("preprocess_included_file")
        if inc and err_blocks:
            after = all(cfg.dominates(inc[0][0], b) for b in err_blocks + ok_blocks)
        chk.ob("C11.fsm/unterminated", ok1 and ok2 and after,
               "Ok is returned only when the chain is empty after the entry file; otherwise ConditionChainNotFinished"
               if ok1 and ok2 and after else
               "the end-of-file check on the condition chain no longer guards the Ok result (err guarded=%s ok guarded=%s after-file=%s)" % (ok1, ok2, after),
               where(init))


def _none_arm_errs(chk, fn, key, err):
    ok = False
    for m in F.exprs(fn["thir"], "Match"):
        for arm in m["arms"]:
            pv = F.pat_variant(arm["pat"])
            if pv and pv[1] == "None":
                ok = any(a.get("variant") == err for a in F.exprs(arm["body"], "Adt"))
            if pv and pv[1] == "Some":
                if any(a.get("variant") == "Err" and short(a["adt"]) == "Result" for a in F.exprs(arm["body"], "Adt")):
                    ok = False
                    chk.ob(key, False, "the non-empty arm returns an error", where(fn, m))
                    return
    chk.ob(key, ok, "the empty-chain arm returns %s" % err if ok else "the empty-chain (None) arm does not return " + err, where(fn))


# ------------------------------------------------------------------ gate

EFFECTS = [
    ("Macro::parse", "define: Macro::parse"),
    ("Vec::<T, A>::retain", "define/undef: macros.retain"),
    ("FileLoader::<'a>::load", "include: FileLoader::load"),
    ("preprocess_included_file", "include: recursive preprocess"),
    ("mark_as_pragma_once", "pragma once: mark_as_pragma_once"),
]


def sites_through_helpers(f, cfg, body, suffix, want=None):
    """Call sites (bb, terminator) in `body` of a function whose path ends with `suffix` - directly, or through a
    private helper of the same crate that (itself or one level down) makes that call: the helper's call site is then the
    site of the effect."""
    want = want or (lambda t: True)
    out = [(bb, t) for bb, t in cfg.calls(suffix) if want(t)]
    helpers = set()
    for b in f.crates[body["crate"]]["bodies"]:
        if "mir" not in b or b["path"] == body["path"] or b.get("kind") not in ("Fn", "AssocFn"):
            continue
        hc = M.Cfg(b)
        if any(want(t) for bb, t in hc.calls(suffix)):
            helpers.add(b["path"])
    out += [(bb, t) for bb, t in cfg.calls() if cfg.callee(t) in helpers]
    return out


def rule_gate_eval(chk, pc):
    """preprocess_command evaluated directive by directive (c12.DirectiveModel) in active and skipped regions: in a
    skipped region no directive loads a file, marks #pragma once, defines / removes a macro or evaluates a condition,
    an unknown directive is not an error, and #if / #ifdef / #ifndef only deepen the chain with a never-taken level;
    in an active region each directive has its effect and leaves the chain the C rules require."""
    import c12
    dm = c12.DirectiveModel(chk.facts)
    X = dm.macro("X", [dm.tok("LiteralInt", 1)])
    w = dm.words
    E, DI, DO = "Enabled", "DisabledInner", "DisabledOuter"
    kinds = lambda eff: sorted({e[0] for e in eff})
    cases = [
        # name, directive, chain, cond, expected (result, chain after, effect kinds, macro names)
        ("include/active", w("include", '"a.h"'), [], True, ("Ok", [], ["included", "load"], ["X"])),
        ("include/skipped", w("include", '"a.h"'), [DI], True, ("Ok", [DI], [], ["X"])),
        ("include/skipped-outer", w("include", '"a.h"'), [E, DO], True, ("Ok", [E, DO], [], ["X"])),
        ("pragma-once/active", w("pragma", "once"), [E], True, ("Ok", [E], ["once"], ["X"])),
        ("pragma-once/skipped", w("pragma", "once"), [DO], True, ("Ok", [DO], [], ["X"])),
        ("define/skipped", w("define", "Z", 1), [DI], True, ("Ok", [DI], [], ["X"])),
        ("undef/skipped", w("undef", "X"), [DO], True, ("Ok", [DO], [], ["X"])),
        ("unknown/active", w("bogus"), [], True, ("Err(UnknownCommand)", [], [], ["X"])),
        ("unknown/skipped", w("bogus"), [DI], True, ("Ok", [DI], [], ["X"])),
        ("if/true", w("if", "X"), [], True, ("Ok", [E], ["eval", "expand"], ["X"])),
        ("if/false", w("if", "X"), [E], False, ("Ok", [E, DI], ["eval", "expand"], ["X"])),
        ("if/skipped", w("if", "X"), [DI], True, ("Ok", [DI, DI], [], ["X"])),
        ("ifdef/defined", w("ifdef", "X"), [], True, ("Ok", [E], [], ["X"])),
        ("ifdef/undefined", w("ifdef", "Q"), [], True, ("Ok", [DI], [], ["X"])),
        ("ifndef/defined", w("ifndef", "X"), [], True, ("Ok", [DI], [], ["X"])),
        ("ifndef/undefined", w("ifndef", "Q"), [E], True, ("Ok", [E, E], [], ["X"])),
        ("ifdef/skipped", w("ifdef", "X"), [E, DO], True, ("Ok", [E, DO, DI], [], ["X"])),
        ("else/after-taken", w("else"), [E], True, ("Ok", [DO], [], ["X"])),
        ("else/after-untaken", w("else"), [E, DI], True, ("Ok", [E, E], [], ["X"])),
        ("else/after-done", w("else"), [DO], True, ("Ok", [DO], [], ["X"])),
        ("else/unmatched", w("else"), [], True, ("Err(ElseNotMatched)", [], [], ["X"])),
        ("elif/untaken-true", w("elif", "X"), [DI], True, ("Ok", [E], None, ["X"])),
        ("elif/untaken-false", w("elif", "X"), [DI], False, ("Ok", [DI], None, ["X"])),
        ("elif/after-taken", w("elif", "X"), [E], True, ("Ok", [DO], None, ["X"])),
        ("elif/after-done", w("elif", "X"), [DO], True, ("Ok", [DO], None, ["X"])),
        ("endif", w("endif"), [E, DI], True, ("Ok", [E], [], ["X"])),
        ("endif/unmatched", w("endif"), [], True, ("Err(EndIfNotMatched)", [], [], ["X"])),
    ]
    first = True
    for name, cmd, chain, cond, want in cases:
        r = dm.run(cmd, [X], chain, cond)
        if first and r[0] == "unreadable":
            return False
        first = False
        if len(r) == 2:
            got = r
            ok = False
        else:
            got = (r[0], r[2], kinds(r[3]), [m_[0] for m_ in r[1]])
            ok = got[0] == want[0] and got[1] == want[1] and got[3] == want[3] and (want[2] is None or got[2] == want[2])
        chk.ob("C11.gate/model/%s" % name, ok, "result %s, chain %s, effects %s" % (want[0], want[1], want[2]) if ok else
               "directive case `%s` in chain %s (condition %s): result, chain, effects, macros = %s; the C rules require %s - a directive inside an unselected branch has an effect, or the chain takes a wrong turn"
               % (name, chain, cond, (got,), (want,)), where(pc), sample={"case": name})
    # an #if left open inside an included file: the open level must survive the include (so that the end of the
    # translation unit rejects it) or the include itself must be refused - it may not vanish with the included file
    for chain in ([], [E]):
        r = dm.run(w("include", '"a.h"'), [X], chain, True, included_leaves_open=True)
        if len(r) == 2:
            okk, got = r[0] != "aborts" and False, r
        else:
            got = (r[0], r[2])
            okk = (r[0] == "Ok" and r[2] == chain + [E]) or r[0].startswith("Err(ConditionChain")
        chk.ob("C11.gate/model/include/unterminated-in-included-file%s" % ("" if not chain else "/nested"), okk,
               "an #if left open by an included file stays open in the including file (the end of the unit rejects it)" if okk else
               "an included file that leaves an #if open: the include gives %s with the chain %s afterwards - the unterminated conditional vanishes with the included file and is never rejected"
               % (got[0], got[1] if len(got) > 1 else "?"), where(pc))
    return True


def text_flushers(f, pc):
    """Functions of the preprocessor, other than the directive handler, that are handed the condition chain and call
    apply_macros: where ordinary text is expanded and appended to the output."""
    out = []
    for b in f.crates[PP]["bodies"]:
        if b.get("kind") not in ("Fn", "AssocFn") or "thir" not in b or "mir" not in b or (pc is not None and b["path"] == pc["path"]):
            continue
        if not any("ConditionChain" in (p_.get("ty") or "") for p_ in b.get("params") or []):
            continue
        if any(short(c.get("fn") or "") == "apply_macros" for c in F.exprs(b["thir"], "Call")):
            out.append(b)
    return out


def rule_gate(chk):
    f = chk.facts
    pc = f.fn("preprocess_command", PP)
    if not pc:
        return
    evaluated = False
    try:
        evaluated = rule_gate_eval(chk, pc)
    except Exception as e:
        chk.note("directive model not evaluated: %r" % (e,))
    is_skip = M.is_call_result("ConditionChain::is_active")
    if not evaluated:
        # (the rules about where in preprocess_command an effect sits are the fallback of the directive table)
        rule_gate_sites(chk, f, pc, is_skip)
    rule_gate_flush(chk, f, pc, is_skip)


def rule_gate_sites(chk, f, pc, is_skip):
    cfg = M.Cfg(pc)
    te, fe = M.guard_edges(cfg, is_skip)
    chk.floor("C11.floor/skip-tests", len(te), 6, "branches on `skip` in preprocess_command", where(pc))
    n = 0
    for suffix, label in EFFECTS:
        sites = sites_through_helpers(f, cfg, pc, suffix, (lambda t_: "Macro" in str(t_["f"])) if suffix.endswith("retain") else None)
        chk.ob("C11.gate/site/" + label, bool(sites), "%d call site(s)" % len(sites) if sites else "anchor-missing: no call to " + suffix, where(pc), trivial=True)
        for bb, t in sites:
            ok, ng = M.dominated_by_guard(cfg, bb, is_skip, want=True)   # is_active()==true  <=> skip==false
            n += 1
            chk.ob("C11.gate/" + label, ok,
                   "dominated by the is_active()==true (skip==false) edge" if ok else
                   "this call is reachable while skip is true: a directive inside an unselected branch has an effect",
                   where(pc, t.get("ln")), sample={"effect": label, "line": t.get("ln")})
    # macros.push (Vec<Macro>::push)
    for bb, t in cfg.calls("Vec::<T, A>::push"):
        if "Macro" not in str(t["f"]):
            continue
        ok, _ = M.dominated_by_guard(cfg, bb, is_skip, want=True)
        n += 1
        chk.ob("C11.gate/define: macros.push", ok, "gated" if ok else "macros.push is reachable while skip is true", where(pc, t.get("ln")))
    # #if: condition evaluation gated (the #elif evaluation is deliberately not gated: switch handles it)
    evals = sites_through_helpers(f, cfg, pc, "condition_parser::parse")
    chk.floor("C11.floor/cond-evals", len(evals), 2, "#if/#elif condition evaluations", where(pc))
    gated = [M.dominated_by_guard(cfg, bb, is_skip, want=True)[0] for bb, t in evals]
    chk.ob("C11.gate/if-eval", sum(gated) >= 1, "the #if condition is evaluated only when not skipping" if sum(gated) >= 1 else
           "no condition evaluation is gated by skip any more", where(pc))
    # every push whose value may be Enabled must be gated
    for bb, t in cfg.calls("ConditionChain::push"):
        arg = t["args"][1]
        p = M.op_place(arg)
        may_enable = False
        if p is not None:
            sig = cfg.slice([p if isinstance(p, int) else p["l"]], through_calls=False)
            may_enable = ("ConditionState", "Enabled") in sig.ctors
            for cal in sig.calls:        # the state may be chosen by a helper (`ConditionState::for_new_block(active)`)
                cb = f.bodies.get(cal)
                if cb is not None and cb.get("crate") == pc.get("crate") and "thir" in cb:
                    if any(short(a.get("adt", "")) == "ConditionState" and a.get("variant") == "Enabled" for a in F.exprs(cb["thir"], "Adt")):
                        may_enable = True
        else:
            k = M.op_const(arg) or {}
            may_enable = False
        if may_enable:
            ok, _ = M.dominated_by_guard(cfg, bb, is_skip, want=True)
            n += 1
            chk.ob("C11.gate/push-enabled", ok, "a push that can store Enabled is gated by skip==false" if ok else
                   "a state that can be Enabled is pushed while skip is true: a nested #if inside an unselected branch is selected",
                   where(pc, t.get("ln")))
        else:
            ok, _ = M.dominated_by_guard(cfg, bb, is_skip, want=False)
            n += 1
            chk.ob("C11.gate/push-disabled", ok, "the DisabledInner push happens on the skip==true edge" if ok else
                   "an unconditional DisabledInner push is reachable when not skipping", where(pc, t.get("ln")))
    # errors that only selected text may raise
    for i, j, s in cfg.stmts(lambda s: s.get("r") == "Agg" and short(s.get("adt", "")) == "PreprocessError"
                              and s.get("variant") in ("UnknownPragma", "InvalidInclude", "InvalidUndef", "InvalidIfdef", "InvalidIfndef")):
        ok, _ = M.dominated_by_guard(cfg, i, is_skip, want=True)
        n += 1
        chk.ob("C11.gate/error/" + s["variant"], ok, "raised only when not skipping" if ok else
               "PreprocessError::%s can be raised from inside an unselected branch" % s["variant"], where(pc, s.get("ln")))
    chk.floor("C11.floor/gate-instances", n, 14, "gated effect sites", where(pc))


def rule_gate_flush(chk, f, pc, is_skip):
    # the function that hands ordinary text on (flush_normal today; found by what it does, not by its name)
    fls = text_flushers(f, pc)
    chk.anchor("C11.anchor/flush_normal", fls[0] if fls else None, "the function that macro-expands ordinary text and appends it to the output (flush_normal)")
    for fl in fls:
        c2 = M.Cfg(fl)
        ext = c2.calls("extend")
        chk.ob("C11.gate/flush/site", bool(ext), "output.extend site", where(fl), trivial=True)
        for bb, t in ext:
            ok, _ = M.dominated_by_guard(c2, bb, is_skip, want=True)
            chk.ob("C11.gate/flush-output", ok, "text reaches the output only when is_active()" if ok else
                   "text is appended to the output without passing the is_active() test", where(fl, t.get("ln")))
        am = c2.calls("apply_macros")
        for bb, t in am:
            ok, _ = M.dominated_by_guard(c2, bb, is_skip, want=True)
            chk.ob("C11.gate/flush-expand", ok, "macro expansion of text only when active" if ok else "text of unselected branches is macro-expanded", where(fl, t.get("ln")))


# ------------------------------------------------------------------ evaluator

REF_APPLY = {
    "BooleanAnd": lambda l, r: int(l != 0 and r != 0), "BooleanOr": lambda l, r: int(l != 0 or r != 0),
    "LessThan": lambda l, r: int(l < r), "LessEqual": lambda l, r: int(l <= r),
    "GreaterThan": lambda l, r: int(l > r), "GreaterEqual": lambda l, r: int(l >= r),
    "Equality": lambda l, r: int(l == r), "Inequality": lambda l, r: int(l != r),
}
REF_LEVELS = [{"BooleanOr"}, {"BooleanAnd"}, {"Equality", "Inequality"}, {"LessThan", "LessEqual", "GreaterThan", "GreaterEqual"}]
REF_SPELL = {"||": "BooleanOr", "&&": "BooleanAnd", "==": "Equality", "!=": "Inequality",
             "<=": "LessEqual", ">=": "GreaterEqual", "<": "LessThan", ">": "GreaterThan"}
PAIRS = [(0, 0), (0, 1), (1, 0), (1, 1), (1, 2), (2, 1), (2, 2), (0, 2), (2, 0), (18446744073709551615, 1), (1, 18446744073709551615)]


def rule_eval_tokens(chk, cp):
    """the eight C spellings, cut into tokens by the lexer's own symbol table (c09.Lexer), read by condition_parser::parse
    between the operands of five pairs: the truth values identify the operator"""
    import c09
    f = chk.facts
    try:
        lx = c09.Lexer(chk)
    except c09.Missing as e:
        chk.ob("C11.eval/lexer", False, "anchor-missing: %s" % e, PP)
        return
    LOC = I.Opaque("loc")
    pt = lambda t: I.Enum("PreprocessToken", None, {"0": t, "1": LOC})
    pairs = [(1, 2), (2, 1), (1, 1), (0, 0), (0, 1)]
    sig = {op: tuple(REF_APPLY[op](a, b) != 0 for a, b in pairs) for op in REF_APPLY}
    ip = I.Interp(f, max_depth=24)
    ip.max_loop = 256
    for spell, want in sorted(REF_SPELL.items()):
        toks = lx.lex(spell + " ")
        got = None
        if toks:
            mid = [pt(I.Enum("Token", k, {} if fb is None else {"0": I.Enum("FollowedBy", fb)})) for k, fb in toks]
            res = []
            for a, b in pairs:
                try:
                    r = ip.apply(cp, [[pt(I.Enum("Token", "LiteralInt", {"0": a}))] + mid + [pt(I.Enum("Token", "LiteralInt", {"0": b}))], LOC])
                except I.Unknown as e:
                    res.append("unreadable (%s)" % str(e)[:40])
                    continue
                res.append(r.fields["0"] if isinstance(r, I.Enum) and r.variant == "Ok" else "error")
            hits = [op for op, sg in sig.items() if list(sg) == res]
            got = hits[0] if hits else "%s on %s" % (res, pairs)
        chk.ob("C11.eval/token/" + want, got == want, "%r -> %s -> %s" % (spell, [t for t, _ in toks or []], got) if got == want else
               "the C operator %r lexes to %s and the condition parser reads it as %s" % (spell, toks, got), where(cp), sample={"spelling": spell, "tokens": [t for t, _ in toks or []], "op": got})


def rule_eval(chk, shape=True):
    import c09
    f = chk.facts
    ip = I.Interp(f)
    CP = "condition_parser"
    ap = chk.anchor("C11.anchor/BinOp::apply", f.fn("apply", PP, path_contains=CP), "condition_parser::BinOp::apply")
    ops = f.variants("condition_parser::BinOp", PP)
    if ap and ops:
        chk.ob("C11.eval/ops", set(ops) == set(REF_APPLY), "operators: %s" % ops, where(ap))
        for op in ops:
            ref = REF_APPLY.get(op)
            if ref is None:
                continue
            for l, r in PAIRS:
                try:
                    got = ip.apply(ap, [I.Enum("BinOp", op), l, r])
                except I.Unknown as e:
                    got = "unreadable: %s" % e
                chk.ob("C11.eval/apply/%s" % op, got == ref(l, r),
                       "%s(%d,%d) = %s" % (op, l, r, got) if got == ref(l, r) else
                       "BinOp::%s applied to (%d, %d) yields %s, C semantics give %d" % (op, l, r, got, ref(l, r)),
                       where(ap), sample={"op": op, "left": l, "right": r, "value": got})
    # level chain from the entry
    entry = chk.anchor("C11.anchor/condition_parser::parse", f.fn("parse", PP, path_contains=CP + "::parse"), "condition_parser::parse")
    if not shape:
        # (level chain, `!`, leaves, parentheses and the fold order are decided by C11.eval/model; the rules below are its fallback)
        for k in ("precedence", "not", "leaf/paren", "left-fold"):
            chk.ob("C11.eval/" + k, True, "decided by C11.eval/model (condition_parser::parse read as a table)", where(entry) if entry else PP, trivial=True)
        if entry:
            rule_eval_tokens(chk, entry)
        return
    fold = f.fn("parse_binary_operations", PP, path_contains=CP)
    comb = f.fn("combine_rights", PP, path_contains=CP)
    if not (entry and fold and comb):
        chk.ob("C11.eval/anchors", False, "anchor-missing: condition_parser parse / parse_binary_operations / combine_rights", PP)
        return
    valfns = {b["path"]: b for b in f.crates[PP]["bodies"] if CP in b["path"] and b["kind"] == "Fn"
              and b.get("ret", "").startswith("core::result::Result<(&[rssl_text::tokens::Token], u64)")}
    top = [c.get("fn") for c in F.exprs(entry["thir"], "Call") if c.get("fn") in valfns]
    chain = []
    opfns = []
    cur = top[0] if top else None
    while cur and cur not in chain:
        chain.append(cur)
        b = valfns[cur]
        nxt = None
        for c in F.exprs(b["thir"], "Call"):
            if c.get("fn") == fold["path"]:
                refs = [F.strip(a) for a in c["args"] if F.strip(a).get("k") == "FnRef"]
                if len(refs) >= 2:
                    opfns.append(refs[0]["fn"])
                    nxt = refs[1]["fn"]
        cur = nxt
    levels = []
    for p in opfns:
        b = f.bodies.get(p)
        levels.append({a["variant"] for a in F.exprs(b["thir"], "Adt") if short(a["adt"]) == "BinOp"} if b else set())
    chk.ob("C11.eval/precedence", levels == REF_LEVELS,
           "loosest to tightest: %s" % [sorted(x) for x in levels] if levels == REF_LEVELS else
           "operator levels (loosest first) are %s, C requires %s" % ([sorted(x) for x in levels], [sorted(x) for x in REF_LEVELS]),
           where(entry), sample={"levels": [sorted(x) for x in levels]})
    # below the binary levels: unary ! then leaf
    if chain:
        last = valfns.get(chain[-1])
        # chain[-1] is the function passed as the tightest binary level's operand parser (parse_p2)
        callees = [c.get("fn") for c in F.exprs(last["thir"], "Call") if c.get("fn") in valfns]
        self_rec = last["path"] in callees
        others = [c for c in callees if c != last["path"]]
        has_not = any(p.get("variant") == "ExclamationPoint" for p in F.walk(last["thir"]) if p.get("k") == "Variant")
        eq0 = any(b["op"] == "Eq" and (F.lit(b["r"]) == ("int", 0) or F.lit(b["l"]) == ("int", 0)) for b in F.exprs(last["thir"], "Binary"))
        chk.ob("C11.eval/not", self_rec and has_not and eq0 and len(set(others)) == 1,
               "`!` is right-recursive at the tightest level and yields (operand == 0)" if self_rec and has_not and eq0 else
               "the unary `!` level is no longer `! p2 -> (value == 0)` followed by the leaf parser", where(last))
        leaf = valfns.get(others[0]) if others else None
        if chk.anchor("C11.anchor/parse_leaf", leaf, "condition leaf parser"):
            # the leaf parser read as a finite map: parse_leaf([tok, <marker>]) for each leaf token kind
            tab = {}
            ipl = I.Interp(f)
            marker = I.Enum("Token", "Semicolon")
            for kname_, tokv in (("False", I.Enum("Token", "False")), ("True", I.Enum("Token", "True")), ("LiteralInt", I.Enum("Token", "LiteralInt", {"0": 41})),
                                 ("LiteralIntUnsigned32", I.Enum("Token", "LiteralIntUnsigned32", {"0": 41})),
                                 ("Id", I.Enum("Token", "Id", {"0": I.Opaque("identifier")})), ("LeftParen", I.Enum("Token", "LeftParen"))):
                try:
                    r = ipl.apply(leaf, [[tokv, marker]])
                except I.Unknown as e:
                    tab[kname_] = "LeftParen" if kname_ == "LeftParen" else "unreadable (%s)" % e
                    continue
                if isinstance(r, I.Enum) and r.variant == "Ok" and isinstance(r.fields.get("0"), tuple) and r.fields["0"][0] == [marker]:
                    v_ = r.fields["0"][1]
                    tab[kname_] = "payload" if v_ == 41 else v_
                else:
                    tab[kname_] = "rejected" if isinstance(r, I.Enum) and r.variant == "Err" else repr(r)
            want = {"False": 0, "True": 1, "LiteralInt": "payload", "LiteralIntUnsigned32": "payload", "Id": 0}
            for k, v in want.items():
                chk.ob("C11.eval/leaf/" + k, tab.get(k) == v, "Token::%s -> %s" % (k, tab.get(k)) if tab.get(k) == v else
                       "leaf Token::%s evaluates to %s, must be %s" % (k, tab.get(k), v), where(leaf), sample={"token": k, "value": tab.get(k)})
            paren = "LeftParen" in tab and any(c.get("fn") == (top[0] if top else None) for c in F.exprs(leaf["thir"], "Call")) \
                and any(p.get("variant") == "RightParen" for p in F.walk(leaf["thir"]) if p.get("k") == "Variant")
            chk.ob("C11.eval/leaf/paren", paren, "'(' loosest-level ')' " if paren else "parenthesised sub-conditions no longer re-enter the loosest level and require ')'", where(leaf))
    # token -> operator tables through the lexer's symbol table
    try:
        lx = c09.Lexer(chk)
    except c09.Missing as e:
        chk.ob("C11.eval/lexer", False, "anchor-missing: %s" % e, PP)
        lx = None
    if lx:
        for spell, want in sorted(REF_SPELL.items()):
            toks = lx.lex(spell + " ")
            got = None
            lvl = None
            seq = (toks or []) + [("OPERAND", None)]
            for i in range(len(opfns) - 1, -1, -1):
                b = f.bodies.get(opfns[i])
                for m in F.exprs(b["thir"], "Match"):
                    r = c09.first_arm(m, seq)
                    if r not in (None, "nomatch"):
                        got, lvl = r, i
                        break
                if got:
                    break
            chk.ob("C11.eval/token/" + want, got == want, "%r -> %s -> %s" % (spell, [t for t, _ in toks or []], got) if got == want else
                   "the C operator %r lexes to %s and the condition parser reads it as %s" % (spell, toks, got),
                   where(entry), sample={"spelling": spell, "tokens": [t for t, _ in toks or []], "op": got})
    # left fold, operand order
    tr = TF.Tracer(f, max_depth=1, no_inline=("::apply",))
    ok_order = False
    for c in F.exprs(comb["thir"], "Call"):
        if c.get("fn") == (ap or {}).get("path"):
            o1 = tr.trace(comb, c["args"][1], ())
            o2 = tr.trace(comb, c["args"][2], ())
            left_ok = any(o[0] == "param" and o[2] == 0 for o in o1) and any(o[0] == "call" and o[1] == ap["path"] for o in o1)
            right_ok = o2 and all(o[0] == "param" and o[2] == 1 for o in o2)
            ok_order = bool(left_ok and right_ok)
    if not ok_order:
        # the same left fold written as rights.iter().fold(left, |acc, (op, exp)| op.apply(acc, *exp))
        for c in F.exprs(comb["thir"], "Call"):
            if short(c.get("fn") or "") != "fold" or len(c.get("args", [])) < 3:
                continue
            init = tr.trace(comb, c["args"][1], ())
            forward = not any(short(x.get("fn") or "") in ("rev", "skip", "take", "step_by", "filter") for x in F.exprs(c["args"][0], "Call"))
            src = F.leftmost_var(c["args"][0])
            params = [q.get("pat", {}).get("id") for q in comb["params"]]
            clo = F.strip(c["args"][2])
            cb = f.bodies.get(clo.get("path")) if clo.get("k") == "Closure" else None
            if not cb or not forward or src is None or src["id"] != params[1] or not (init and all(o[0] == "param" and o[2] == 0 for o in init)):
                continue
            cps = cb.get("params", [])[1:]
            if len(cps) != 2:
                continue
            acc_ids = {i for i, n_, p_ in F.pat_binds(cps[0].get("pat", {}))}
            el_ids = {i for i, n_, p_ in F.pat_binds(cps[1].get("pat", {}))}
            for cc in F.exprs(cb["thir"], "Call"):
                if cc.get("fn") == (ap or {}).get("path") and len(cc.get("args", [])) == 3:
                    v1 = {v["id"] for v in F.exprs(cc["args"][1], "Var")}
                    v2 = {v["id"] for v in F.exprs(cc["args"][2], "Var")}
                    ok_order = bool(v1) and v1 <= acc_ids and bool(v2) and v2 <= el_ids and F.strip(F.tail(cb["thir"])) is F.strip(cc)
    chk.ob("C11.eval/left-fold", ok_order, "combine_rights applies op(accumulated, right) from left to right" if ok_order else
           "combine_rights no longer folds left with (accumulated value, right operand) order", where(comb))
    # result and trailing tokens: the final match of parse() read as a finite map over the possible results of the
    # top-level parser: Ok(([], v)) -> Ok(v != 0); Ok((non-empty rest, v)) -> Err; Err(_) -> Err
    res_ok = False
    trailing_ok = False
    ip = I.Interp(f)
    for m in F.exprs(entry["thir"], "Match"):
        sc = F.strip(m["scrut"])
        if sc.get("k") != "Call" or (sc.get("fn") or "") not in f.bodies or f.bodies[sc["fn"]].get("crate") != entry.get("crate"):
            continue
        if not any(F.pat_variant(x) == ("Result", "Ok") for a_ in m["arms"] for x in F.pat_alternatives(a_["pat"])):
            continue

        def run_with(val, m=m, sc=sc):
            ip2 = I.Interp(f, extern={sc["fn"]: lambda a, val=val: val})
            try:
                r = ip2.ev(m, {})
            except I.ReturnEx as e:
                r = e.value
            except I.Unknown as e:
                return "unreadable (%s)" % e
            if isinstance(r, I.Enum) and r.variant == "Ok":
                return ("Ok", r.fields.get("0"))
            if isinstance(r, I.Enum) and r.variant == "Err":
                return ("Err",)
            return r
        ok = lambda v, rest=(): I.Enum("Result", "Ok", {"0": (list(rest), v)})
        got = [run_with(ok(0)), run_with(ok(1)), run_with(ok(7))]
        res_ok = got == [("Ok", False), ("Ok", True), ("Ok", True)]
        tr_got = [run_with(ok(1, [I.Enum("Token", "Id")])), run_with(ok(0, [I.Enum("Token", "Id"), I.Enum("Token", "Id")])), run_with(I.Enum("Result", "Err", {"0": I.Opaque("e")}))]
        trailing_ok = all(x == ("Err",) for x in tr_got)
        if res_ok or trailing_ok:
            break
    chk.ob("C11.eval/result", res_ok, "condition holds iff value != 0 with no tokens left" if res_ok else
           "parse() no longer returns `value != 0` for a fully consumed condition", where(entry))
    chk.ob("C11.eval/trailing", trailing_ok, "trailing tokens are rejected" if trailing_ok else "trailing tokens after a condition are not rejected", where(entry))


# ------------------------------------------------------------------ defined
# ---- the #if expression evaluator read end to end
COND_OPS = {"||": (1, lambda a, b: int(a != 0 or b != 0)), "&&": (2, lambda a, b: int(a != 0 and b != 0)), "==": (3, lambda a, b: int(a == b)), "!=": (3, lambda a, b: int(a != b)),
            "<": (4, lambda a, b: int(a < b)), "<=": (4, lambda a, b: int(a <= b)), ">": (4, lambda a, b: int(a > b)), ">=": (4, lambda a, b: int(a >= b))}


def ref_condition(toks):
    """C semantics for the operator set of the #if evaluator (|| < && < == != < relational < unary !, all binary
    operators left associative, identifiers are 0). -> value, or raises ValueError for a malformed expression."""
    pos = [0]

    def peek():
        return toks[pos[0]] if pos[0] < len(toks) else None

    def unary():
        t = peek()
        if t is None:
            raise ValueError("end")
        pos[0] += 1
        if t == "!":
            return int(unary() == 0)
        if t == "(":
            v = binary(1)
            if peek() != ")":
                raise ValueError("paren")
            pos[0] += 1
            return v
        if isinstance(t, int):
            return t
        if t in ("true", "false"):
            return int(t == "true")
        if isinstance(t, str) and t[0].isalpha():
            return 0
        raise ValueError("operand %r" % (t,))

    def binary(level):
        if level > 4:
            return unary()
        v = binary(level + 1)
        while peek() in COND_OPS and COND_OPS[peek()][0] == level:
            op = toks[pos[0]]
            pos[0] += 1
            v = COND_OPS[op][1](v, binary(level + 1))
        return v
    v = binary(1)
    if pos[0] != len(toks):
        raise ValueError("trailing")
    return v


def rule_cond_eval(chk):
    """condition_parser::parse walked by the finite-map reader on token lists - every `a op b`, `a op b op c` over
    {0, 1, 2, identifier} and the eight operators, with `!` and parenthesised operands, and malformed lists - against an
    independently written evaluator of the same C grammar: same truth value, an error exactly where the expression is
    malformed. True when readable."""
    import itertools
    import interp as I
    f = chk.facts
    cp = f.fn("parse", PP, path_contains="condition_parser")
    if not cp:
        return False
    LOC = I.Opaque("loc")

    def tok(t):
        if isinstance(t, int):
            ts = [I.Enum("Token", "LiteralInt", {"0": t})]
        elif t in ("<", ">"):
            ts = [I.Enum("Token", "LeftAngleBracket" if t == "<" else "RightAngleBracket", {"0": I.Enum("FollowedBy", "Whitespace")})]
        elif t in ("<=", ">="):
            ts = [I.Enum("Token", "LeftAngleBracket" if t == "<=" else "RightAngleBracket", {"0": I.Enum("FollowedBy", "Token")}), I.Enum("Token", "Equals")]
        elif t in ("true", "false"):
            ts = [I.Enum("Token", "True" if t == "true" else "False")]
        else:
            simple = {"||": "VerticalBarVerticalBar", "&&": "AmpersandAmpersand", "==": "EqualsEquals", "!=": "ExclamationPointEquals", "!": "ExclamationPoint",
                      "(": "LeftParen", ")": "RightParen", " ": "Whitespace", "+": "Plus"}
            ts = [I.Enum("Token", simple[t])] if t in simple else [I.Enum("Token", "Id", {"0": I.Enum("Identifier", None, {"0": t})})]
        return [I.Enum("PreprocessToken", None, {"0": x, "1": LOC}) for x in ts]
    operands = [[0], [1], [2], ["X"], ["!", 0], ["!", 2], ["(", 1, "||", 0, ")"], ["(", 0, "&&", 1, ")"], ["true"]]
    ops = list(COND_OPS)
    cases = [list(a) for a in operands]
    for a, b in itertools.product(operands[:6], repeat=2):
        for o in ops:
            cases.append(a + [o] + b)
    for a, b, c in itertools.product(operands[:4], repeat=3):
        for o1, o2 in itertools.product(ops, repeat=2):
            cases.append(a + [o1] + b + [o2] + c)
    cases += [[1, "&&", "(", 0, "||", 1, ")", "&&", 1], ["!", "(", 1, "<", 5, "<=", 1, ">", 0, "<=", 0, ")"], [1, " ", "&&", " ", 1]]
    malformed = [[], [1, 2], [1, "&&"], ["&&", 1], ["(", 1], [1, ")"], ["(", ")"], [1, "+", 1], ["!"], [1, "<", "=", 1] if False else [1, "==", "==", 1]]
    ip = I.Interp(f, max_depth=24, extern={})
    ip.max_loop = 256
    bad = None
    n = 0
    for toks in cases + malformed:
        n += 1
        try:
            want = ("ok", ref_condition([t for t in toks if t != " "]) != 0)
        except ValueError:
            want = ("err",)
        try:
            r = ip.apply(cp, [[x for t in toks for x in tok(t)], LOC])
        except I.Unknown as e:
            if "panicking" in str(e):
                bad = bad or "`#if %s` aborts (%s)" % (" ".join(map(str, toks)), str(e)[:60])
                continue
            return chk.unreadable("C11.eval/model/readable", "condition_parser::parse", e, where(cp))
        got = ("ok", r.fields["0"]) if isinstance(r, I.Enum) and r.variant == "Ok" else ("err",)
        if got != want:
            bad = bad or "`#if %s` is %s, C semantics give %s" % (" ".join(map(str, toks)), "taken" if got == ("ok", True) else "not taken" if got[0] == "ok" else "an error",
                                                                  "taken" if want == ("ok", True) else "not taken" if want[0] == "ok" else "an error")
    chk.ob("C11.eval/model", bad is None, "%d conditions (one to three operands, eight operators, !, parentheses, malformed ones): same verdict as an independent evaluator" % n
           if bad is None else bad, where(cp), sample={"conditions": n})
    chk.floor("C11.floor/conditions", n, 4000, "conditions evaluated", where(cp))
    return True


def rule_defined(chk, shape=True):
    """What `defined` is rewritten to, and where it is an operator at all, is decided by C11.defined/model (apply_macros
    read as a table, with and without apply_defined); the shape rules about find_single_macro / apply_single_macro are
    its fallback. Which callers pass apply_defined = true stays a rule about the call sites."""
    f = chk.facts
    fs = chk.anchor("C11.anchor/find_single_macro", f.fn("find_single_macro", PP), "find_single_macro")
    asm = chk.anchor("C11.anchor/apply_single_macro", f.fn("apply_single_macro", PP), "apply_single_macro")
    if not shape:
        for k in ("site", "only-in-if", "keyword", "value"):
            chk.ob("C11.defined/" + k, True, "decided by the evaluated apply_macros (C11.defined/model/*)", where(asm) if asm else PP, trivial=True)
    if fs and shape:
        cfg = M.Cfg(fs)
        sites = [i for i, j, s in cfg.stmts(lambda s: s.get("r") == "Agg" and short(s.get("adt", "")) == "FoundMacro" and s.get("variant") == "Defined")]
        chk.ob("C11.defined/site", bool(sites), "FoundMacro::Defined construction", where(fs), trivial=True)
        argc = cfg.mir["argc"]
        # apply_defined is the bool parameter
        params = [i for i in range(1, argc + 1) if cfg.local_ty(i) == "bool"]
        for b in sites:
            ok = False
            if params:
                ok, _ = M.dominated_by_guard(cfg, b, lambda src: src[0] == "param" and src[1] in params, want=True)
            chk.ob("C11.defined/only-in-if", ok, "`defined` is recognised only when apply_defined" if ok else
                   "`defined` is treated as an operator even when apply_defined is false (ordinary text)", where(fs))
        lits = {l.get("v") for l in F.exprs(fs["thir"], "Lit") if l.get("t") == "str"}
        chk.ob("C11.defined/keyword", "defined" in lits, "keyword literal %s" % sorted(lits), where(fs))
    if asm:
        # generated token: if exists { LiteralInt(1) } else { LiteralInt(0) }
        ok = not shape
        for n in (F.exprs(asm["thir"], "If") if shape else ()):
            th = F.adt_ctor(F.tail(n["then"]))
            el = F.adt_ctor(F.tail(n.get("else", {}))) if "else" in n else None
            if th and el and th[1] == "LiteralInt" and el[1] == "LiteralInt":
                ok = F.lit(th[2]["0"]) == ("int", 1) and F.lit(el[2]["0"]) == ("int", 0)
                chk.ob("C11.defined/value", ok, "defined(X) -> LiteralInt(1) if a macro named X exists else LiteralInt(0)" if ok else
                       "defined(X) yields %s / %s" % (F.lit(th[2]["0"]), F.lit(el[2]["0"])), where(asm, n))
        if not ok:
            chk.ob("C11.defined/value", False, "anchor-missing or wrong: `if exists {LiteralInt(1)} else {LiteralInt(0)}`", where(asm))
        # callers: apply_macros(.., true, ..) only from the #if / #elif arms
        pc = f.fn("preprocess_command", PP)
        fls_ = text_flushers(f, pc)
        fl = fls_[0] if len(fls_) == 1 else None
        def flags(fn):
            # apply_macros(.., <apply_defined>, ..) calls of the function and of the private helpers it calls
            out = []
            for args_, c in F.calls_through_wrappers(f, fn, lambda c: short(c.get("fn") or "") == "apply_macros", depth=1):
                l = F.lit(F.strip(args_[2]))
                out.append(l[1] if l else None)
            return out
        if pc and fl:
            a, b = flags(pc), flags(fl)
            a_ok = bool(a) and all(x is True for x in a) and len(a) in (1, 2)    # one shared helper or the two arms
            chk.ob("C11.defined/callers", a_ok and b == [False],
                   "#if/#elif expand with apply_defined=true, text with false" if a == [True, True] and b == [False] else
                   "apply_defined flags: directives %s, text %s (expected [true,true] / [false])" % (a, b), where(pc))
