"""C11 — conditional compilation selects exactly the branches C semantics select."""
import facts as F
import interp as I
import mirs as M
import thirflow as TF
from facts import short, where

EXPLANATION = (
    "The conditional-compilation mechanism is a three-state automaton (ConditionChain), a gate in front of every "
    "directive with an effect, and a small #if evaluator; all three are finite and are decided completely from the "
    "type-checked program. C11.fsm: ConditionChain::switch's transition match is read as a finite map over "
    "ConditionState x bool and compared with the reference automaton of the C rules; pop/switch on an empty chain "
    "return the unmatched-#endif/#else errors; is_active is `all(== Enabled)`; the states pushed by #if/#ifdef/#ifndef "
    "are Enabled iff the (possibly negated) condition holds and DisabledInner under a skipped region; an unfinished chain "
    "is rejected at the end of the entry file. C11.gate (MIR dominance): every call with an effect in preprocess_command "
    "(Macro::parse, macros.push/retain, FileLoader::load, preprocess_included_file, mark_as_pragma_once, the #if "
    "condition evaluation, every push of a state that can be Enabled, the unknown-directive and unknown-pragma errors) is "
    "dominated by the `skip == false` edge, and flush_normal's output.extend by is_active() == true. C11.eval: "
    "BinOp::apply per operator over a complete set of orderings/zero-ness; operator token tables per level via the "
    "lexer's symbol table; level chain || < && < ==,!= < relational < ! < leaf from the call graph; left fold with "
    "(accumulated, right) operand order; leaf table; result `value != 0` and rejection of trailing tokens. "
    "C11.defined: `defined` is recognised only when apply_defined is set (#if/#elif) and yields LiteralInt(1|0) from a "
    "name comparison over the live macro list. Not decided: that each line's token stream reaches preprocess_command intact."
)
ASSUMPTIONS = [
    "rustc THIR/MIR is a faithful view of the source",
    "reference automaton and operator semantics are the ones of ISO C (typed into the rule, DESIGN.md App. A)",
]

PP = "rssl_preprocess"


def run(chk):
    f = chk.facts
    rule_fsm(chk)
    rule_gate(chk)
    rule_eval(chk)
    rule_defined(chk)


# ------------------------------------------------------------------ fsm

REF_SWITCH = {
    ("Enabled", True): "DisabledOuter", ("Enabled", False): "DisabledOuter",
    ("DisabledInner", True): "Enabled", ("DisabledInner", False): "DisabledInner",
    ("DisabledOuter", True): "DisabledOuter", ("DisabledOuter", False): "DisabledOuter",
}


def rule_fsm(chk):
    f = chk.facts
    ip = I.Interp(f)
    sw = chk.anchor("C11.anchor/switch", f.fn("switch", PP, self_ty="ConditionChain"), "ConditionChain::switch")
    pop = chk.anchor("C11.anchor/pop", f.fn("pop", PP, self_ty="ConditionChain"), "ConditionChain::pop")
    act = chk.anchor("C11.anchor/is_active", f.fn("is_active", PP, self_ty="ConditionChain"), "ConditionChain::is_active")
    states = f.variants("preprocess::ConditionState", PP)
    chk.ob("C11.fsm/states", states is not None and set(states) == {"Enabled", "DisabledInner", "DisabledOuter"},
           "ConditionState = %s" % states, "preprocess/src/preprocess.rs")
    if sw:
        ms = F.find_matches(sw, "ConditionState")
        if len(ms) != 1:
            chk.ob("C11.fsm/switch-table", False, "anchor-missing: the transition match over ConditionState", where(sw))
        else:
            m = ms[0]
            # variable ids of the scrutinee and of `active`
            scr = F.strip(m["scrut"])
            active_ids = [p["pat"]["id"] for p in sw["params"] if p.get("pat", {}).get("k") == "Bind" and p["ty"] == "bool"]
            for (st, a), want in sorted(REF_SWITCH.items()):
                env = {}
                if scr.get("k") == "Var":
                    env[scr["id"]] = I.Enum("ConditionState", st)
                for i in active_ids:
                    env[i] = a
                try:
                    got = ip.ev(m, env)
                    gv = got.variant if isinstance(got, I.Enum) else str(got)
                except I.Unknown as e:
                    gv = "unreadable: %s" % e
                chk.ob("C11.fsm/switch/%s,%s" % (st, "active" if a else "inactive"), gv == want,
                       "%s --#elif/#else(%s)--> %s" % (st, a, gv) if gv == want else
                       "transition %s --(condition %s)--> %s, C rules require %s" % (st, a, gv, want),
                       where(sw, m), sample={"state": st, "active": a, "next": gv})
            # the new state replaces the popped one: the match value is pushed back
            pushed = [c for c in F.exprs(sw["thir"], "Call") if (c.get("fn") or "").endswith("Vec::<T, A>::push")
                      and any(x is m for x in F.walk(c))]
            chk.ob("C11.fsm/switch-replaces-top", len(pushed) == 1, "switch pushes the new state in place of the popped one"
                   if pushed else "switch no longer pushes the transition result back onto the chain", where(sw))
        errs = {a.get("variant") for a in F.exprs(sw["thir"], "Adt") if short(a["adt"]) == "PreprocessError"}
        chk.ob("C11.fsm/else-unmatched", errs == {"ElseNotMatched"}, "switch on an empty chain -> %s" % sorted(errs), where(sw))
        _none_arm_errs(chk, sw, "C11.fsm/else-unmatched-arm", "ElseNotMatched")
    if pop:
        errs = {a.get("variant") for a in F.exprs(pop["thir"], "Adt") if short(a["adt"]) == "PreprocessError"}
        chk.ob("C11.fsm/endif-unmatched", errs == {"EndIfNotMatched"}, "pop on an empty chain -> %s" % sorted(errs), where(pop))
        _none_arm_errs(chk, pop, "C11.fsm/endif-unmatched-arm", "EndIfNotMatched")
    if act:
        calls = [c.get("fn") for c in F.exprs(act["thir"], "Call")]
        uses_all = any((c or "").endswith("Iterator::all") for c in calls)
        clos = f.closures_of(act["path"])
        cmp_ok = False
        for cb in clos:
            for c in F.exprs(cb["thir"], "Call"):
                if (c.get("fn") or "").endswith("PartialEq::eq"):
                    ad = [F.adt_ctor(a) for a in c["args"]]
                    cmp_ok = any(x and x[1] == "Enabled" for x in ad)
            for b in F.exprs(cb["thir"], "Binary"):
                if b["op"] == "Eq":
                    cmp_ok = cmp_ok or any((F.adt_ctor(x) or (0, 0))[1] == "Enabled" for x in (b["l"], b["r"]))
        chk.ob("C11.fsm/is_active", uses_all and cmp_ok,
               "is_active = all levels == Enabled" if uses_all and cmp_ok else
               "is_active is no longer `all(|g| g == Enabled)` (calls: %s)" % [short(c or "") for c in calls], where(act))
    # pushes in preprocess_command
    pc = chk.anchor("C11.anchor/preprocess_command", f.fn("preprocess_command", PP), "preprocess_command")
    if pc:
        pushes = [c for c in F.exprs(pc["thir"], "Call") if (c.get("fn") or "").endswith("ConditionChain::push")]
        chk.floor("C11.floor/pushes", len(pushes), 4, "condition_chain.push sites in preprocess_command", where(pc))
        n_cond = 0
        for c in pushes:
            a = F.strip(c["args"][1])
            if a.get("k") == "If":
                n_cond += 1
                th = F.adt_ctor(F.tail(a["then"]))
                el = F.adt_ctor(F.tail(a.get("else", {})))
                ok = th and el and th[1] == "Enabled" and el[1] == "DisabledInner"
                chk.ob("C11.fsm/push-polarity", bool(ok),
                       "push(if active {Enabled} else {DisabledInner})" if ok else
                       "a conditional push maps active->%s, inactive->%s (must be Enabled / DisabledInner)" % (th and th[1], el and el[1]),
                       where(pc, c), sample={"then": th and th[1], "else": el and el[1]})
            else:
                ad = F.adt_ctor(a)
                chk.ob("C11.fsm/push-skipped", bool(ad) and ad[1] == "DisabledInner",
                       "unconditional push is DisabledInner" if ad and ad[1] == "DisabledInner" else
                       "an unconditional push stores %s (a skipped #if must push DisabledInner)" % (ad and ad[1]), where(pc, c))
        chk.floor("C11.floor/conditional-pushes", n_cond, 2, "conditional pushes (#if, #ifdef/#ifndef)", where(pc))
        # ifndef negation: active = if not { !exists } else { exists }
        tr = TF.BodyIndex(pc)
        ok_neg = False
        for s in F.walk(pc["thir"]):
            if s.get("k") == "LetStmt" and s["pat"].get("k") == "Bind" and s["pat"].get("ty") == "bool" and s.get("init", {}).get("k") == "If":
                init = s["init"]
                vars_ = {v["id"]: v["name"] for v in F.exprs(init, "Var")}
                if len(vars_) == 2:
                    ids = sorted(vars_)
                    cond_id = F.strip(init["cond"]).get("id")
                    other = [i for i in ids if i != cond_id]
                    if cond_id in vars_ and len(other) == 1:
                        tab = {}
                        for nv in (False, True):
                            for ex in (False, True):
                                try:
                                    tab[(nv, ex)] = ip.ev(init, {cond_id: nv, other[0]: ex})
                                except I.Unknown:
                                    tab[(nv, ex)] = None
                        ok_neg = all(tab[(nv, ex)] == (nv != ex) for nv in (False, True) for ex in (False, True))
                        # `not` must be the comparison with "ifndef"
                        site = [x for x in tr.sites.get(cond_id, []) if x[0] == "expr"]
                        lits = [l.get("v") for x in site for l in F.exprs(x[1], "Lit") if l.get("t") == "str"]
                        ok_neg = ok_neg and lits == ["ifndef"]
                        chk.ob("C11.fsm/ifndef-negation", ok_neg,
                               "active = exists XOR (command == \"ifndef\")" if ok_neg else
                               "#ifdef/#ifndef activity table is %s with negation keyed on %s" % (tab, lits), where(pc, s))
        if not ok_neg:
            chk.ob("C11.fsm/ifndef-negation", False, "anchor-missing or wrong: `active = if not {!exists} else {exists}`", where(pc))
    # unfinished chain at end of the entry file
    init = chk.anchor("C11.anchor/preprocess_initial_file", f.fn("preprocess_initial_file", PP), "preprocess_initial_file")
    if init:
        cfg = M.Cfg(init)
        err_blocks = [i for i, j, s in cfg.stmts(lambda s: s.get("r") == "Agg" and s.get("variant") == "ConditionChainNotFinished")]
        ok_blocks = [i for i, j, s in cfg.stmts(lambda s: s.get("r") == "Agg" and short(s.get("adt", "")) == "Result" and s.get("variant") == "Ok")]
        pred = M.is_call_result("is_empty")
        ok1 = bool(err_blocks) and all(M.dominated_by_guard(cfg, b, pred, want=False)[0] for b in err_blocks)
        ok2 = bool(ok_blocks) and all(M.dominated_by_guard(cfg, b, pred, want=True)[0] for b in ok_blocks)
        after = False
        inc = cfg.calls("preprocess_included_file")
        if inc and err_blocks:
            after = all(cfg.dominates(inc[0][0], b) for b in err_blocks + ok_blocks)
        chk.ob("C11.fsm/unterminated", ok1 and ok2 and after,
               "Ok is returned only when the chain is empty after the entry file; otherwise ConditionChainNotFinished"
               if ok1 and ok2 and after else
               "the end-of-file check on the condition chain no longer guards the Ok result (err guarded=%s ok guarded=%s after-file=%s)" % (ok1, ok2, after),
               where(init))


def _none_arm_errs(chk, fn, key, err):
    ok = False
    for m in F.exprs(fn["thir"], "Match"):
        for arm in m["arms"]:
            pv = F.pat_variant(arm["pat"])
            if pv and pv[1] == "None":
                ok = any(a.get("variant") == err for a in F.exprs(arm["body"], "Adt"))
            if pv and pv[1] == "Some":
                if any(a.get("variant") == "Err" and short(a["adt"]) == "Result" for a in F.exprs(arm["body"], "Adt")):
                    ok = False
                    chk.ob(key, False, "the non-empty arm returns an error", where(fn, m))
                    return
    chk.ob(key, ok, "the empty-chain arm returns %s" % err if ok else "the empty-chain (None) arm does not return " + err, where(fn))


# ------------------------------------------------------------------ gate

EFFECTS = [
    ("Macro::parse", "define: Macro::parse"),
    ("Vec::<T, A>::retain", "define/undef: macros.retain"),
    ("FileLoader::<'a>::load", "include: FileLoader::load"),
    ("preprocess_included_file", "include: recursive preprocess"),
    ("mark_as_pragma_once", "pragma once: mark_as_pragma_once"),
]


def rule_gate(chk):
    f = chk.facts
    pc = f.fn("preprocess_command", PP)
    if not pc:
        return
    cfg = M.Cfg(pc)
    is_skip = M.is_call_result("ConditionChain::is_active")
    te, fe = M.guard_edges(cfg, is_skip)
    chk.floor("C11.floor/skip-tests", len(te), 6, "branches on `skip` in preprocess_command", where(pc))
    n = 0
    for suffix, label in EFFECTS:
        sites = cfg.calls(suffix)
        if suffix.endswith("retain"):
            sites = [s for s in sites if "Macro" in str(s[1]["f"])]
        chk.ob("C11.gate/site/" + label, bool(sites), "%d call site(s)" % len(sites) if sites else "anchor-missing: no call to " + suffix, where(pc), trivial=True)
        for bb, t in sites:
            ok, ng = M.dominated_by_guard(cfg, bb, is_skip, want=True)   # is_active()==true  <=> skip==false
            n += 1
            chk.ob("C11.gate/" + label, ok,
                   "dominated by the is_active()==true (skip==false) edge" if ok else
                   "this call is reachable while skip is true: a directive inside an unselected branch has an effect",
                   where(pc, t.get("ln")), sample={"effect": label, "line": t.get("ln")})
    # macros.push (Vec<Macro>::push)
    for bb, t in cfg.calls("Vec::<T, A>::push"):
        if "Macro" not in str(t["f"]):
            continue
        ok, _ = M.dominated_by_guard(cfg, bb, is_skip, want=True)
        n += 1
        chk.ob("C11.gate/define: macros.push", ok, "gated" if ok else "macros.push is reachable while skip is true", where(pc, t.get("ln")))
    # #if: condition evaluation gated (the #elif evaluation is deliberately not gated: switch handles it)
    evals = cfg.calls("condition_parser::parse")
    chk.floor("C11.floor/cond-evals", len(evals), 2, "#if/#elif condition evaluations", where(pc))
    gated = [M.dominated_by_guard(cfg, bb, is_skip, want=True)[0] for bb, t in evals]
    chk.ob("C11.gate/if-eval", sum(gated) >= 1, "the #if condition is evaluated only when not skipping" if sum(gated) >= 1 else
           "no condition evaluation is gated by skip any more", where(pc))
    # every push whose value may be Enabled must be gated
    for bb, t in cfg.calls("ConditionChain::push"):
        arg = t["args"][1]
        p = M.op_place(arg)
        may_enable = False
        if p is not None:
            sig = cfg.slice([p if isinstance(p, int) else p["l"]], through_calls=False)
            may_enable = ("ConditionState", "Enabled") in sig.ctors
        else:
            k = M.op_const(arg) or {}
            may_enable = False
        if may_enable:
            ok, _ = M.dominated_by_guard(cfg, bb, is_skip, want=True)
            n += 1
            chk.ob("C11.gate/push-enabled", ok, "a push that can store Enabled is gated by skip==false" if ok else
                   "a state that can be Enabled is pushed while skip is true: a nested #if inside an unselected branch is selected",
                   where(pc, t.get("ln")))
        else:
            ok, _ = M.dominated_by_guard(cfg, bb, is_skip, want=False)
            n += 1
            chk.ob("C11.gate/push-disabled", ok, "the DisabledInner push happens on the skip==true edge" if ok else
                   "an unconditional DisabledInner push is reachable when not skipping", where(pc, t.get("ln")))
    # errors that only selected text may raise
    for i, j, s in cfg.stmts(lambda s: s.get("r") == "Agg" and short(s.get("adt", "")) == "PreprocessError"
                              and s.get("variant") in ("UnknownPragma", "InvalidInclude", "InvalidUndef", "InvalidIfdef", "InvalidIfndef")):
        ok, _ = M.dominated_by_guard(cfg, i, is_skip, want=True)
        n += 1
        chk.ob("C11.gate/error/" + s["variant"], ok, "raised only when not skipping" if ok else
               "PreprocessError::%s can be raised from inside an unselected branch" % s["variant"], where(pc, s.get("ln")))
    chk.floor("C11.floor/gate-instances", n, 14, "gated effect sites", where(pc))
    # flush_normal
    fl = f.fn("flush_normal", PP)
    if chk.anchor("C11.anchor/flush_normal", fl, "flush_normal"):
        c2 = M.Cfg(fl)
        ext = c2.calls("extend")
        chk.ob("C11.gate/flush/site", bool(ext), "output.extend site", where(fl), trivial=True)
        for bb, t in ext:
            ok, _ = M.dominated_by_guard(c2, bb, is_skip, want=True)
            chk.ob("C11.gate/flush-output", ok, "text reaches the output only when is_active()" if ok else
                   "text is appended to the output without passing the is_active() test", where(fl, t.get("ln")))
        am = c2.calls("apply_macros")
        for bb, t in am:
            ok, _ = M.dominated_by_guard(c2, bb, is_skip, want=True)
            chk.ob("C11.gate/flush-expand", ok, "macro expansion of text only when active" if ok else "text of unselected branches is macro-expanded", where(fl, t.get("ln")))


# ------------------------------------------------------------------ evaluator

REF_APPLY = {
    "BooleanAnd": lambda l, r: int(l != 0 and r != 0), "BooleanOr": lambda l, r: int(l != 0 or r != 0),
    "LessThan": lambda l, r: int(l < r), "LessEqual": lambda l, r: int(l <= r),
    "GreaterThan": lambda l, r: int(l > r), "GreaterEqual": lambda l, r: int(l >= r),
    "Equality": lambda l, r: int(l == r), "Inequality": lambda l, r: int(l != r),
}
REF_LEVELS = [{"BooleanOr"}, {"BooleanAnd"}, {"Equality", "Inequality"}, {"LessThan", "LessEqual", "GreaterThan", "GreaterEqual"}]
REF_SPELL = {"||": "BooleanOr", "&&": "BooleanAnd", "==": "Equality", "!=": "Inequality",
             "<=": "LessEqual", ">=": "GreaterEqual", "<": "LessThan", ">": "GreaterThan"}
PAIRS = [(0, 0), (0, 1), (1, 0), (1, 1), (1, 2), (2, 1), (2, 2), (0, 2), (2, 0), (18446744073709551615, 1), (1, 18446744073709551615)]


def rule_eval(chk):
    import c09
    f = chk.facts
    ip = I.Interp(f)
    CP = "condition_parser"
    ap = chk.anchor("C11.anchor/BinOp::apply", f.fn("apply", PP, path_contains=CP), "condition_parser::BinOp::apply")
    ops = f.variants("condition_parser::BinOp", PP)
    if ap and ops:
        chk.ob("C11.eval/ops", set(ops) == set(REF_APPLY), "operators: %s" % ops, where(ap))
        for op in ops:
            ref = REF_APPLY.get(op)
            if ref is None:
                continue
            for l, r in PAIRS:
                try:
                    got = ip.apply(ap, [I.Enum("BinOp", op), l, r])
                except I.Unknown as e:
                    got = "unreadable: %s" % e
                chk.ob("C11.eval/apply/%s" % op, got == ref(l, r),
                       "%s(%d,%d) = %s" % (op, l, r, got) if got == ref(l, r) else
                       "BinOp::%s applied to (%d, %d) yields %s, C semantics give %d" % (op, l, r, got, ref(l, r)),
                       where(ap), sample={"op": op, "left": l, "right": r, "value": got})
    # level chain from the entry
    entry = chk.anchor("C11.anchor/condition_parser::parse", f.fn("parse", PP, path_contains=CP + "::parse"), "condition_parser::parse")
    fold = f.fn("parse_binary_operations", PP, path_contains=CP)
    comb = f.fn("combine_rights", PP, path_contains=CP)
    if not (entry and fold and comb):
        chk.ob("C11.eval/anchors", False, "anchor-missing: condition_parser parse / parse_binary_operations / combine_rights", PP)
        return
    valfns = {b["path"]: b for b in f.crates[PP]["bodies"] if CP in b["path"] and b["kind"] == "Fn"
              and b.get("ret", "").startswith("core::result::Result<(&[rssl_text::tokens::Token], u64)")}
    top = [c.get("fn") for c in F.exprs(entry["thir"], "Call") if c.get("fn") in valfns]
    chain = []
    opfns = []
    cur = top[0] if top else None
    while cur and cur not in chain:
        chain.append(cur)
        b = valfns[cur]
        nxt = None
        for c in F.exprs(b["thir"], "Call"):
            if c.get("fn") == fold["path"]:
                refs = [F.strip(a) for a in c["args"] if F.strip(a).get("k") == "FnRef"]
                if len(refs) >= 2:
                    opfns.append(refs[0]["fn"])
                    nxt = refs[1]["fn"]
        cur = nxt
    levels = []
    for p in opfns:
        b = f.bodies.get(p)
        levels.append({a["variant"] for a in F.exprs(b["thir"], "Adt") if short(a["adt"]) == "BinOp"} if b else set())
    chk.ob("C11.eval/precedence", levels == REF_LEVELS,
           "loosest to tightest: %s" % [sorted(x) for x in levels] if levels == REF_LEVELS else
           "operator levels (loosest first) are %s, C requires %s" % ([sorted(x) for x in levels], [sorted(x) for x in REF_LEVELS]),
           where(entry), sample={"levels": [sorted(x) for x in levels]})
    # below the binary levels: unary ! then leaf
    if chain:
        last = valfns.get(chain[-1])
        # chain[-1] is the function passed as the tightest binary level's operand parser (parse_p2)
        callees = [c.get("fn") for c in F.exprs(last["thir"], "Call") if c.get("fn") in valfns]
        self_rec = last["path"] in callees
        others = [c for c in callees if c != last["path"]]
        has_not = any(p.get("variant") == "ExclamationPoint" for p in F.walk(last["thir"]) if p.get("k") == "Variant")
        eq0 = any(b["op"] == "Eq" and (F.lit(b["r"]) == ("int", 0) or F.lit(b["l"]) == ("int", 0)) for b in F.exprs(last["thir"], "Binary"))
        chk.ob("C11.eval/not", self_rec and has_not and eq0 and len(set(others)) == 1,
               "`!` is right-recursive at the tightest level and yields (operand == 0)" if self_rec and has_not and eq0 else
               "the unary `!` level is no longer `! p2 -> (value == 0)` followed by the leaf parser", where(last))
        leaf = valfns.get(others[0]) if others else None
        if chk.anchor("C11.anchor/parse_leaf", leaf, "condition leaf parser"):
            tab = {}
            for m in F.exprs(leaf["thir"], "Match"):
                for arm in m["arms"]:
                    for alt in F.pat_alternatives(arm["pat"]):
                        pv = F.pat_variant(alt)
                        if not pv or pv[0] != "Token":
                            continue
                        rets = [r for r in F.exprs(arm["body"], "Return")]
                        val = None
                        for r in rets:
                            for t in F.exprs(r, "Tuple"):
                                if len(t["elems"]) == 2:
                                    l = F.lit(t["elems"][1])
                                    if l:
                                        val = l[1]
                                    else:
                                        v = F.strip(t["elems"][1])
                                        if v.get("k") == "Var":
                                            binds = [sp["p"].get("id") for sp in alt.get("subs", []) if sp["p"].get("k") == "Bind"]
                                            val = "payload" if v.get("id") in binds else "var:" + v.get("name", "?")
                        tab[pv[1]] = val
            want = {"False": 0, "True": 1, "LiteralInt": "payload", "LiteralIntUnsigned32": "payload", "Id": 0}
            for k, v in want.items():
                chk.ob("C11.eval/leaf/" + k, tab.get(k) == v, "Token::%s -> %s" % (k, tab.get(k)) if tab.get(k) == v else
                       "leaf Token::%s evaluates to %s, must be %s" % (k, tab.get(k), v), where(leaf), sample={"token": k, "value": tab.get(k)})
            paren = "LeftParen" in tab and any(c.get("fn") == (top[0] if top else None) for c in F.exprs(leaf["thir"], "Call")) \
                and any(p.get("variant") == "RightParen" for p in F.walk(leaf["thir"]) if p.get("k") == "Variant")
            chk.ob("C11.eval/leaf/paren", paren, "'(' loosest-level ')' " if paren else "parenthesised sub-conditions no longer re-enter the loosest level and require ')'", where(leaf))
    # token -> operator tables through the lexer's symbol table
    try:
        lx = c09.Lexer(chk)
    except c09.Missing as e:
        chk.ob("C11.eval/lexer", False, "anchor-missing: %s" % e, PP)
        lx = None
    if lx:
        for spell, want in sorted(REF_SPELL.items()):
            toks = lx.lex(spell + " ")
            got = None
            lvl = None
            seq = (toks or []) + [("OPERAND", None)]
            for i in range(len(opfns) - 1, -1, -1):
                b = f.bodies.get(opfns[i])
                for m in F.exprs(b["thir"], "Match"):
                    r = c09.first_arm(m, seq)
                    if r not in (None, "nomatch"):
                        got, lvl = r, i
                        break
                if got:
                    break
            chk.ob("C11.eval/token/" + want, got == want, "%r -> %s -> %s" % (spell, [t for t, _ in toks or []], got) if got == want else
                   "the C operator %r lexes to %s and the condition parser reads it as %s" % (spell, toks, got),
                   where(entry), sample={"spelling": spell, "tokens": [t for t, _ in toks or []], "op": got})
    # left fold, operand order
    tr = TF.Tracer(f, max_depth=1, no_inline=("::apply",))
    ok_order = False
    for c in F.exprs(comb["thir"], "Call"):
        if c.get("fn") == (ap or {}).get("path"):
            o1 = tr.trace(comb, c["args"][1], ())
            o2 = tr.trace(comb, c["args"][2], ())
            left_ok = any(o[0] == "param" and o[2] == 0 for o in o1) and any(o[0] == "call" and o[1] == ap["path"] for o in o1)
            right_ok = o2 and all(o[0] == "param" and o[2] == 1 for o in o2)
            ok_order = bool(left_ok and right_ok)
    chk.ob("C11.eval/left-fold", ok_order, "combine_rights applies op(accumulated, right) from left to right" if ok_order else
           "combine_rights no longer folds left with (accumulated value, right operand) order", where(comb))
    # result and trailing tokens
    res_ok = False
    trailing_ok = False
    for m in F.exprs(entry["thir"], "Match"):
        for arm in m["arms"]:
            p = arm["pat"]
            if F.pat_variant(p) == ("Result", "Ok"):
                inner = F.pat_sub(p, "0")
                if inner and inner.get("k") == "Leaf":
                    rest = F.pat_sub(inner, "0")
                    body_ok = [a for a in F.exprs(arm["body"], "Adt") if short(a["adt"]) == "Result"]
                    is_empty_slice = rest is not None and rest.get("k") == "Slice" and not rest.get("prefix") and "slice" not in rest
                    if is_empty_slice:
                        ne0 = any(b["op"] == "Ne" and F.lit(b["r"]) == ("int", 0) for b in F.exprs(arm["body"], "Binary"))
                        res_ok = ne0 and bool(body_ok) and body_ok[0].get("variant") == "Ok"
                    else:
                        trailing_ok = bool(body_ok) and body_ok[0].get("variant") == "Err"
    chk.ob("C11.eval/result", res_ok, "condition holds iff value != 0 with no tokens left" if res_ok else
           "parse() no longer returns `value != 0` for a fully consumed condition", where(entry))
    chk.ob("C11.eval/trailing", trailing_ok, "trailing tokens are rejected" if trailing_ok else "trailing tokens after a condition are not rejected", where(entry))


# ------------------------------------------------------------------ defined

def rule_defined(chk):
    f = chk.facts
    fs = chk.anchor("C11.anchor/find_single_macro", f.fn("find_single_macro", PP), "find_single_macro")
    asm = chk.anchor("C11.anchor/apply_single_macro", f.fn("apply_single_macro", PP), "apply_single_macro")
    if fs:
        cfg = M.Cfg(fs)
        sites = [i for i, j, s in cfg.stmts(lambda s: s.get("r") == "Agg" and short(s.get("adt", "")) == "FoundMacro" and s.get("variant") == "Defined")]
        chk.ob("C11.defined/site", bool(sites), "FoundMacro::Defined construction", where(fs), trivial=True)
        argc = cfg.mir["argc"]
        # apply_defined is the bool parameter
        params = [i for i in range(1, argc + 1) if cfg.local_ty(i) == "bool"]
        for b in sites:
            ok = False
            if params:
                ok, _ = M.dominated_by_guard(cfg, b, lambda src: src[0] == "param" and src[1] in params, want=True)
            chk.ob("C11.defined/only-in-if", ok, "`defined` is recognised only when apply_defined" if ok else
                   "`defined` is treated as an operator even when apply_defined is false (ordinary text)", where(fs))
        lits = {l.get("v") for l in F.exprs(fs["thir"], "Lit") if l.get("t") == "str"}
        chk.ob("C11.defined/keyword", "defined" in lits, "keyword literal %s" % sorted(lits), where(fs))
    if asm:
        # generated token: if exists { LiteralInt(1) } else { LiteralInt(0) }
        ok = False
        for n in F.exprs(asm["thir"], "If"):
            th = F.adt_ctor(F.tail(n["then"]))
            el = F.adt_ctor(F.tail(n.get("else", {}))) if "else" in n else None
            if th and el and th[1] == "LiteralInt" and el[1] == "LiteralInt":
                ok = F.lit(th[2]["0"]) == ("int", 1) and F.lit(el[2]["0"]) == ("int", 0)
                chk.ob("C11.defined/value", ok, "defined(X) -> LiteralInt(1) if a macro named X exists else LiteralInt(0)" if ok else
                       "defined(X) yields %s / %s" % (F.lit(th[2]["0"]), F.lit(el[2]["0"])), where(asm, n))
        if not ok:
            chk.ob("C11.defined/value", False, "anchor-missing or wrong: `if exists {LiteralInt(1)} else {LiteralInt(0)}`", where(asm))
        # callers: apply_macros(.., true, ..) only from the #if / #elif arms
        pc = f.fn("preprocess_command", PP)
        fl = f.fn("flush_normal", PP)
        def flags(fn):
            out = []
            for c in F.exprs(fn["thir"], "Call"):
                if short(c.get("fn") or "") == "apply_macros":
                    l = F.lit(c["args"][2])
                    out.append(l[1] if l else None)
            return out
        if pc and fl:
            a, b = flags(pc), flags(fl)
            chk.ob("C11.defined/callers", a == [True, True] and b == [False],
                   "#if/#elif expand with apply_defined=true, text with false" if a == [True, True] and b == [False] else
                   "apply_defined flags: directives %s, text %s (expected [true,true] / [false])" % (a, b), where(pc))
