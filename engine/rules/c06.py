"""C06 — binding slots are allocated completely, contiguously and without overlap."""
import facts as F
import mirs as M
from facts import short, where

EXPLANATION = (
    "Module::assign_api_bindings is a bump allocator of about ten statements whose correctness is the shape of those "
    "statements; quantification over declaration sequences is discharged by the allocator being a single in-order "
    "pass over root_definitions. Decided from THIR/MIR on this run: C06.bump — each of the three allocation sites "
    "(cbuffer slot, resource slot, buffer-address inline offset) returns the map entry's value read BEFORE the update "
    "(0 for a vacant entry), adds (+=) exactly its increment, and inserts the same increment for a vacant entry; the "
    "increments are 1 (cbuffer), slot_count (resources), 8*slot_count (buffer addresses); slot_count = array_count * "
    "slice_cost, array_count = array length or 1, slice_cost = 2 exactly for the six raw/structured/address buffer "
    "kinds under metal_slot_layout and 1 otherwise; the allocated value is what is stored in ApiLocation::Index / "
    "InlineConstant. C06.group — the bind group is lang set or the selected pipeline's default_bind_group_index (0 "
    "without a pipeline) and keys the same map entry. C06.skip (MIR dominance) — static samplers return before "
    "allocation iff !static_samplers_have_slots; only object-typed globals are allocated. C06.inline — after the "
    "declaration loop one inline block per group with api_location = used_slots[set] (after all slots) and size = "
    "inline_size[set], sorted. C06.params — the Target -> AssignBindingsParams table of compile() equals the reference. "
    "C06.pass — the allocator iterates root_definitions once, in order. Not decided: that every bindable kind is an "
    "Object type layer (a fact of the typer)."
)
ASSUMPTIONS = ["rustc THIR/MIR is a faithful view of the source",
               "reference AssignBindingsParams per target and the six two-slot Metal kinds (DESIGN.md App. A)"]

IR = "rssl_ir"
TWO_SLOT = {"ByteAddressBuffer", "RWByteAddressBuffer", "BufferAddress", "RWBufferAddress", "StructuredBuffer", "RWStructuredBuffer"}
REF_PARAMS = {
    "HlslForDirectX": {"require_slot_type": True, "support_buffer_address": False, "metal_slot_layout": False, "static_samplers_have_slots": True},
    "HlslForVulkan": {"require_slot_type": False, "support_buffer_address": "args.support_buffer_address", "metal_slot_layout": False, "static_samplers_have_slots": True},
    "Msl": {"require_slot_type": False, "support_buffer_address": False, "metal_slot_layout": True, "static_samplers_have_slots": False},
    "MetalBytecode": {"require_slot_type": False, "support_buffer_address": False, "metal_slot_layout": True, "static_samplers_have_slots": False},
}


def shape(e):
    """Canonical shape of a small arithmetic expression over variables / literals."""
    e = F.strip(e)
    k = e.get("k")
    if k == "Lit":
        return ("lit", e.get("v"))
    if k == "Var":
        return ("var", e["id"], e.get("name"))
    if k == "Binary":
        return ("bin", e["op"], shape(e["l"]), shape(e["r"]))
    if k == "Cast":
        return shape(e["e"])
    if k == "Call":
        return ("call", short(e.get("fn") or ""), tuple(shape(a) for a in e.get("args", [])))
    if k == "Field":
        return ("field", e["name"], shape(e["e"]))
    return ("other", k)


def run(chk):
    f = chk.facts
    pd = chk.anchor("C06.anchor/process_definition", f.fn("process_definition", IR), "process_definition (assign_api_bindings)")
    aab = chk.anchor("C06.anchor/assign_api_bindings", f.fn("assign_api_bindings", IR), "Module::assign_api_bindings")
    evaluated = False
    if aab:
        try:
            evaluated = rule_alloc_eval(chk, aab)
        except Exception as e:
            chk.note("allocator model not evaluated: %r" % (e,))
    if not evaluated:
        if pd:
            rule_bump(chk, pd)
            rule_skip(chk, pd)
        if aab:
            rule_outer(chk, aab, pd)
    rule_params(chk)
    lang_readable = rule_lang_slot_eval(chk)
    rule_attributes_eval(chk)
    rule_group_index_eval(chk)
    if not lang_readable:
        rule_source(chk)        # (the value-origin rule is the fallback of the declaration tables)


REG = {"Texture2D": "T", "StructuredBuffer": "T", "RWStructuredBuffer": "U", "ByteAddressBuffer": "T", "RWByteAddressBuffer": "U", "SamplerState": "S",
       "BufferAddress": "T", "RWBufferAddress": "U", "RWTexture2D": "U", "Buffer": "T", "RWBuffer": "U"}


def rule_alloc_eval(chk, aab):
    """Module::assign_api_bindings evaluated (bindmodel.py) on model modules - textures, raw / structured buffers,
    buffer addresses, samplers (static and not), constant buffers, arrays of resources, explicit and default binding
    groups, non-resource globals - under all 16 parameter combinations and three default-group settings, with hash
    containers iterated forwards and backwards: every resource gets exactly the placement of the allocation rule
    (per group: slots handed out in declaration order, complete, contiguous, non-overlapping). False when unreadable."""
    import itertools
    import bindmodel as BM
    f = chk.facts
    m = BM.BindModel(f)
    o = {k: m.obj(k) for k in REG}
    fl = m.scalar()
    scen = {
        "plain": [("global", o["Texture2D"], None, False), ("cbuffer", None), ("global", o["RWStructuredBuffer"], None, False), ("global", o["SamplerState"], None, False)],
        "arrays": [("global", m.array(o["Texture2D"], 4), None, False), ("global", m.mod(m.array(m.mod(o["StructuredBuffer"]), 3)), None, False), ("global", o["Buffer"], None, False),
                   ("global", m.array(o["ByteAddressBuffer"], 2), None, False), ("cbuffer", None)],
        "groups": [("global", o["Texture2D"], 2, False), ("global", o["Texture2D"], None, False), ("cbuffer", 2), ("global", o["RWTexture2D"], 0, False), ("cbuffer", None),
                   ("global", o["StructuredBuffer"], 2, False), ("global", o["RWByteAddressBuffer"], 0, False)],
        "addresses": [("global", o["BufferAddress"], None, False), ("global", o["Texture2D"], None, False), ("global", o["RWBufferAddress"], None, False),
                      ("global", o["BufferAddress"], 3, False), ("global", o["RWBuffer"], 3, False), ("cbuffer", 3)],
        # a table of addresses is an array of resources (slots), a qualified address is still an address (one 8-byte inline constant: the exporter writes one uint64_t per binding)
        "address-tables": [("global", m.array(o["BufferAddress"], 4), None, False), ("global", m.mod(o["BufferAddress"]), None, False), ("global", m.array(m.mod(o["RWBufferAddress"]), 2), 1, False),
                           ("global", o["RWBufferAddress"], 1, False), ("global", o["Texture2D"], None, False)],
        "samplers-and-plain-globals": [("global", o["SamplerState"], None, True), ("global", o["Texture2D"], None, False), ("global", fl, None, False), ("fn",),
                                       ("global", o["SamplerState"], None, False), ("global", o["SamplerState"], 1, True), ("global", o["Texture2D"], 1, False)],
    }
    flags = ("require_slot_type", "support_buffer_address", "metal_slot_layout", "static_samplers_have_slots")
    n = 0
    for name, decls in scen.items():
        bad = None
        for vals in itertools.product((False, True), repeat=4):
            params = dict(zip(flags, vals))
            for dg in (None, 0, 3):
                for rev in (False, True):
                    n += 1
                    r = m.run(decls, dg, params, reverse=rev)
                    if len(r) == 2:
                        if r[0] == "unreadable" and n == 1:
                            return False
                        bad = bad or "evaluation %s: %s" % r
                        continue
                    want = m.ref(decls, dg, params, REG)
                    if (r[0], r[1]) != want and bad is None:
                        k = [i for i in range(len(decls)) if r[0][i] != want[0][i]]
                        if k:
                            bad = "declaration #%d (%s) with %s, default group %s is placed at %s, the allocation rule gives %s" % (
                                k[0], decls[k[0]][0] + ("" if decls[k[0]][0] != "global" else " of " + str(m.kind[m.strip(decls[k[0]][1])])),
                                ", ".join(x for x in flags if params[x]) or "no flags", dg, r[0][k[0]], want[0][k[0]])
                        else:
                            bad = "inline constant buffers are %s, must be %s (%s hash order)" % (r[1], want[1], "reverse" if rev else "forward")
        chk.ob("C06.alloc/%s" % name, bad is None, "placements equal the allocation rule for 16 parameter combinations x 3 default groups x 2 hash orders" if bad is None else
               "assign_api_bindings: %s: slots overlap, leave gaps or land in another group than the source states" % bad, where(aab), sample={"scenario": name})
    chk.floor("C06.floor/alloc-evaluations", n, 400, "allocator evaluations", where(aab))
    for k_ in ("C06.bump/slice-cost", "C06.bump/used_slots/slot/increment", "C06.skip/only-objects", "C06.skip/static-samplers", "C06.group/default"):
        chk.ob(k_, True, "decided by the evaluated allocator (C06.alloc/*)", where(aab), trivial=True)
    return True


def rule_attributes_eval(chk):
    """parse_attributes_for_global read on attribute lists built from [[rssl::bind_group(g)]], [[vk::binding(i)]],
    [[vk::binding(i, g)]] and [[rssl::bindless]] in every order of up to three: each attribute sets exactly what it names
    (group; slot; slot and group; the bindless flag) and leaves the rest as the earlier attributes left it - an explicit
    group written on a declaration is not lost because a slot is written after it."""
    import interp as I
    import itertools
    f = chk.facts
    fn = f.fn("parse_attributes_for_global", "rssl_typer")
    if not fn:
        chk.note("C06.attrs: parse_attributes_for_global not found; not decided")
        return
    loc = lambda v: I.Enum("Located", None, {"node": v, "location": I.Opaque("location")})
    arg = lambda n_: loc(I.Enum("Expression", "Tagged", {"n": n_}))
    attr = lambda ns, leaf, *a: I.Enum("Attribute", None, {"name": [loc(ns), loc(leaf)], "arguments": [arg(x) for x in a], "two_square_brackets": True})
    kinds = {"bind_group(3)": (lambda: attr("rssl", "bind_group", 3), {"group": 3}), "binding(5)": (lambda: attr("vk", "binding", 5), {"index": 5}),
             "binding(6, 2)": (lambda: attr("vk", "binding", 6, 2), {"index": 6, "group": 2}), "bindless": (lambda: attr("rssl", "bindless"), {"bindless": True})}

    def deref(v):
        return v.get() if isinstance(v, I.Ref) else v
    ext = {"parse_expr_as_u32": lambda a: I.Enum("Result", "Ok", {"0": deref(a[0]).fields["node"].fields["n"]})}
    flat = lambda o: o.fields["0"] if isinstance(o, I.Enum) and o.variant == "Some" else None
    bad = None
    n = 0
    for k in (0, 1, 2, 3):
        for combo in itertools.permutations(kinds, k):
            want = {"group": None, "index": None, "bindless": False}
            for nm in combo:
                want.update(kinds[nm][1])
            try:
                r = I.Interp(f, max_depth=6, extern=ext).apply(fn, [[kinds[nm][0]() for nm in combo], I.Opaque("context")])
            except I.Unknown as e:
                if "panicking" in str(e):
                    bad = bad or "parse_attributes_for_global aborts on %s (%s)" % (list(combo), str(e)[:60])
                    n += 1
                    continue
                chk.unreadable("C06.attrs/each-sets-its-own", "parse_attributes_for_global on model attribute lists", str(e)[:100], where(fn))
                return
            n += 1
            if not (isinstance(r, I.Enum) and r.variant == "Ok" and isinstance(r.fields.get("0"), I.Enum)):
                bad = bad or "the attribute list %s is refused" % (list(combo),)
                continue
            g = r.fields["0"].fields
            got = {"group": flat(g.get("binding_group_override")), "index": flat(g.get("binding_index_override")), "bindless": g.get("is_bindless")}
            if got != want and bad is None:
                bad = "a declaration written with %s gets (group, slot, bindless) = (%s, %s, %s), the attributes say (%s, %s, %s): an explicit placement written in the source is dropped or changed" % (
                    " ".join("[[%s]]" % c for c in combo), got["group"], got["index"], got["bindless"], want["group"], want["index"], want["bindless"])
    chk.ob("C06.attrs/each-sets-its-own", bad is None, bad or "%d attribute lists: every attribute sets exactly what it names" % n, where(fn), sample={"lists": n})


def rule_lang_slot_eval(chk, prefix="C06.lang"):
    """parse_rootdefinition_globalvariable read as a table: statements with one to three declarators, each with or without
    register(..) annotations (slot, space, both), with and without the binding-index / bind-group attributes. Every global
    must get the binding written on ITS declarator (none -> no explicit group and slot, so the default group applies),
    overridden by the attributes; the declarators of one statement do not influence each other."""
    import interp as I
    import itertools
    f = chk.facts
    fn = f.fn("parse_rootdefinition_globalvariable", "rssl_typer")
    if not fn:
        return False
    opt = lambda v: I.Enum("Option", "None") if v is None else I.Enum("Option", "Some", {"0": v})
    ok = lambda v: I.Enum("Result", "Ok", {"0": v})
    loc = lambda v: I.Enum("Located", None, {"node": v, "location": I.Opaque("location")})
    tid = I.Enum("TypeId", None, {"0": 5})

    def deref(v):
        return v.get() if isinstance(v, I.Ref) else v

    def run(decls, idx_over, grp_over):
        reg = []

        def insert_global(a):
            reg.append(I.Enum("GlobalVariable", None, {"name": deref(a[1]), "type_id": deref(a[2]), "storage_class": deref(a[3]), "namespace": opt(None),
                                                       "lang_slot": I.Enum("LanguageBinding", None, {"set": opt(None), "index": opt(None)}), "api_slot": opt(None), "init": opt(None),
                                                       "static_sampler": opt(None), "constexpr_value": opt(None), "is_intrinsic": False, "is_bindless": False}))
            return ok(I.Enum("GlobalId", None, {"0": len(reg) - 1}))
        ext = {"parse_globaltype": lambda a: ok((tid, I.Enum("GlobalStorage", "Extern"))),
               "parse_attributes_for_global": lambda a: ok(I.Enum("GlobalAttributeResult", None, {"binding_index_override": opt(idx_over), "binding_group_override": opt(grp_over), "is_bindless": False})),
               "parse_declarator": lambda a: ok((tid, I.Enum("ScopedIdentifier", None, {"base": I.Enum("ScopedIdentifierBase", "Relative"), "identifiers": [loc(deref(a[0]).fields["tag"])]}))),
               "is_illegal_variable_name": lambda a: False, "parse_initializer_opt": lambda a: ok(opt(None)), "insert_global": insert_global,
               "TypeRegistry::remove_modifier": lambda a: a[1], "TypeRegistry::extract_modifier": lambda a: (a[1], I.Opaque("modifier")),
               "TypeRegistry::get_type_layer": lambda a: I.Enum("TypeLayer", "Object", {"0": I.Enum("ObjectType", "Texture2D", {"0": I.Enum("TypeId", None, {"0": 1})})})}
        defs = []
        for name, ann in decls:
            las = [] if ann is None else [I.Enum("LocationAnnotation", "Register", {"0": I.Enum("Register", None, {
                "slot": opt(I.Enum("RegisterSlot", None, {"slot_type": I.Enum("RegisterType", "T"), "index": ann[0]}) if ann[0] is not None else None), "space": opt(ann[1])})})]
            defs.append(I.Enum("InitDeclarator", None, {"declarator": I.Enum("Declarator", "Tagged", {"tag": name}), "location_annotations": las, "init": opt(None)}))
        gv = I.Enum("GlobalVariable", None, {"global_type": I.Opaque("type"), "defs": defs, "attributes": []})
        ctx = I.Enum("Context", None, {"module": I.Enum("Module", None, {"global_registry": reg, "type_registry": I.Opaque("type registry")})})
        r = I.Interp(f, max_depth=6, extern=ext).apply(fn, [gv, ctx])
        flat = lambda o: o.fields["0"] if isinstance(o, I.Enum) and o.variant == "Some" else None
        return (isinstance(r, I.Enum) and r.variant == "Ok", [(flat(g.fields["lang_slot"].fields["set"]), flat(g.fields["lang_slot"].fields["index"])) for g in reg])
    anns = [None, (3, None), (None, 2), (4, 1), (5, 0), (None, 0)]       # (an explicit space0 is an explicit group: it is not the pipeline's default group)
    show = lambda a: "" if a is None else " : register(%s)" % ", ".join(x for x in ("t%d" % a[0] if a[0] is not None else None, "space%d" % a[1] if a[1] is not None else None) if x)
    bad = {}
    n = 0
    for count in (1, 2, 3):
        for combo in itertools.product(anns, repeat=count):
            if count == 3 and combo[1] is not None and combo[0] is not None:
                continue
            for idx_over, grp_over in ((None, None), (7, None), (None, 6)):
                decls = [("g%d" % i, a) for i, a in enumerate(combo)]
                try:
                    accepted, got = run(decls, idx_over, grp_over)
                except I.Unknown as e:
                    if "panicking" in str(e):
                        bad.setdefault("aborts", "parse_rootdefinition_globalvariable aborts on `Texture2D %s;` (%s)" % (", ".join(nm + show(a) for nm, a in decls), str(e)[:60]))
                        continue
                    chk.note("%s: parse_rootdefinition_globalvariable is not readable (%s); the value-origin rule decides" % (prefix, str(e)[:80]))
                    return False
                n += 1
                want = [((grp_over if grp_over is not None else (a[1] if a else None)), (idx_over if idx_over is not None else (a[0] if a else None))) for a in combo]
                text = "`Texture2D %s;`%s" % (", ".join(nm + show(a) for nm, a in decls), "" if (idx_over, grp_over) == (None, None) else " with attribute override (index %s, group %s)" % (idx_over, grp_over))
                key = "%d-declarator%s" % (count, "" if (idx_over, grp_over) == (None, None) else "/override")
                if not accepted:
                    bad.setdefault(key, "%s is refused" % text)
                elif got != want:
                    k = [i for i in range(min(len(got), len(want))) if got[i] != want[i]]
                    bad.setdefault(key, "%s: g%d gets explicit (group, slot) %s, its own declarator says %s - a resource without an explicit group no longer goes to the pipeline's default group" % (
                        text, k[0], got[k[0]], want[k[0]]) if k else "%s registers %d globals" % (text, len(got)))
    # constant buffers: the register annotation and the attribute overrides of the cbuffer itself
    cbf = f.fn("parse_rootdefinition_constantbuffer", "rssl_typer")
    if cbf:
        for ann in anns:
            for idx_over, grp_over in ((None, None), (7, None), (None, 6)):
                regs = []
                ext = {"parse_attributes_for_global": lambda a, io=idx_over, go=grp_over: ok(I.Enum("GlobalAttributeResult", None, {"binding_index_override": opt(io), "binding_group_override": opt(go), "is_bindless": False})),
                       "get_current_namespace": lambda a: opt(None), "insert_cbuffer": lambda a: ok(())}
                las = [] if ann is None else [I.Enum("LocationAnnotation", "Register", {"0": I.Enum("Register", None, {
                    "slot": opt(I.Enum("RegisterSlot", None, {"slot_type": I.Enum("RegisterType", "B"), "index": ann[0]}) if ann[0] is not None else None), "space": opt(ann[1])})})]
                cb = I.Enum("ConstantBuffer", None, {"name": loc("CB"), "members": [], "location_annotations": las, "attributes": []})
                ctx = I.Enum("Context", None, {"module": I.Enum("Module", None, {"cbuffer_registry": regs, "type_registry": I.Opaque("type registry")})})
                try:
                    r = I.Interp(f, max_depth=6, extern=ext).apply(cbf, [cb, ctx])
                except I.Unknown as e:
                    if "panicking" in str(e):
                        bad.setdefault("cbuffer", "parse_rootdefinition_constantbuffer aborts on `cbuffer CB%s` (%s)" % (show(ann).replace("(t", "(b", 1), str(e)[:60]))
                        continue
                    chk.note("%s: parse_rootdefinition_constantbuffer is not readable (%s); the value-origin rule decides" % (prefix, str(e)[:80]))
                    return False
                n += 1
                flat = lambda o: o.fields["0"] if isinstance(o, I.Enum) and o.variant == "Some" else None
                got = (flat(regs[0].fields["lang_binding"].fields["set"]), flat(regs[0].fields["lang_binding"].fields["index"])) if len(regs) == 1 else None
                want = ((grp_over if grp_over is not None else (ann[1] if ann else None)), (idx_over if idx_over is not None else (ann[0] if ann else None)))
                if not (isinstance(r, I.Enum) and r.variant == "Ok") or got != want:
                    bad.setdefault("cbuffer", "`cbuffer CB%s`%s gets explicit (group, slot) %s, must be %s" % (
                        show(ann).replace("(t", "(b", 1), "" if (idx_over, grp_over) == (None, None) else " with attribute override (index %s, group %s)" % (idx_over, grp_over), got, want))
        chk.ob(prefix + "/cbuffer", "cbuffer" not in bad, bad.get("cbuffer") or "a constant buffer gets the binding of its own register annotation, overridden only by the attributes", where(cbf))
    for key in ("1-declarator", "2-declarator", "3-declarator", "1-declarator/override", "2-declarator/override", "3-declarator/override", "aborts"):
        if key == "aborts" and key not in bad:
            continue
        chk.ob(prefix + "/" + key, key not in bad, bad.get(key) or "every global gets the binding of its own declarator", where(fn), sample={"case": key})
    chk.floor(prefix.split(".")[0] + ".floor/lang-slot-cases", n, 100, "global variable statements evaluated", where(fn))
    return True


def rule_group_index_eval(chk, prefix="C06.groups"):
    """Where a binding is reported: both exporters' register_binding (and the Metal layout's finish) walked on sequences
    of registrations into groups {0}, {2}, {0, 2}, {1, 3, 1}: afterwards bind_groups[g] holds exactly the bindings that
    were registered for group g, in registration order, and groups in between exist and are empty - the index into
    bind_groups IS the group number the emitted source binds (register space / argument buffer index)."""
    import interp as I
    f = chk.facts
    hreg = f.fn("register_binding", "rssl_hlsl")
    mreg = f.fn("register_binding", "rssl_msl")
    mfin = f.fn("finish", "rssl_msl", self_ty="PipelineBindingLayout")
    if not (hreg and mreg and mfin):
        return False
    B = lambda n: I.Enum("DescriptorBinding", None, {"name": n})
    seqs = {"group 0": [(0, "a"), (0, "b")], "group 2 only": [(2, "a"), (2, "b")], "groups 0 and 2": [(0, "a"), (2, "b"), (0, "c")], "groups 1, 3, 1": [(1, "a"), (3, "b"), (1, "c")]}
    for tgt in ("hlsl", "msl"):
        bad = None
        for sname, seq in seqs.items():
            ip = I.Interp(f, max_depth=8)
            try:
                if tgt == "hlsl":
                    ctx = I.Enum("GenerateContext", None, {"pipeline_description": I.Enum("PipelineDescription", None, {"bind_groups": []})})
                    for g, n in seq:
                        ip.apply(hreg, [ctx, g, B(n)])
                    groups = ctx.fields["pipeline_description"].fields["bind_groups"]
                else:
                    lay = I.Enum("PipelineBindingLayout", None, {"0": []})
                    for k, (g, n) in enumerate(seq):
                        ip.apply(mreg, [lay, g, B(n), I.Enum("GlobalId", None, {"0": k})])
                    groups = ip.apply(mfin, [lay]).fields["bind_groups"]
            except I.Unknown as e:
                if "panicking" in str(e):
                    bad = bad or "registering bindings for %s aborts (%s)" % (sname, str(e)[:60])
                    continue
                chk.note("%s: %s register_binding / finish is not readable (%s)" % (prefix, tgt, str(e)[:80]))
                return False
            got = [[b.fields["name"] for b in (g_.fields["bindings"] if isinstance(g_, I.Enum) else [])] for g_ in groups]
            want = [[] for _ in range(max(g for g, _n in seq) + 1)]
            for g, n in seq:
                want[g].append(n)
            if got != want and not bad:
                bad = "after registering %s, the %s metadata has bind_groups = %s, must be %s: a resource is reported in another group than the one the emitted source binds it in" % (
                    ["%s in group %d" % (n, g) for g, n in seq], tgt.upper(), got, want)
        chk.ob(prefix + "/" + tgt, bad is None, bad or "bind_groups[g] holds the bindings of group g for every sequence", where(hreg if tgt == "hlsl" else mfin), sample={"target": tgt, "sequences": len(seqs)})
    return True


def rule_source(chk):
    """Explicit placement written in the source reaches the allocator unchanged: the typer builds the LanguageBinding of
    a global / cbuffer with `set` = the register annotation's `space` itself and `index` = Some(<the annotation's slot
    index>) or None when no slot is written (value-origin trace, no transformer on the way)."""
    import thirflow as TF
    f = chk.facts
    n = 0
    for name in ("parse_rootdefinition_globalvariable", "parse_rootdefinition_constantbuffer"):
        fn = chk.anchor("C06.anchor/" + name, f.fn(name, "rssl_typer"), name)
        if not fn:
            continue
        tr = TF.Tracer(f, max_depth=1)
        ctors = [a for a in F.exprs(fn["thir"], "Adt") if short(a["adt"]) == "LanguageBinding" and a["fields"]]
        chk.ob("C06.source/%s/site" % name, len(ctors) == 1, "%d construction(s) of LanguageBinding from a register annotation" % len(ctors), where(fn), trivial=len(ctors) == 1)
        for a in ctors:
            fl = {str(x["f"]): x["e"] for x in a["fields"]}
            for field, suffix, inner in (("set", (("f", "space"),), ()), ("index", (("f", "slot"), ("v", "Option", "Some", "0"), ("f", "index")), (("v", "Option", "Some", "0"),))):
                if field not in fl:
                    chk.ob("C06.source/%s/%s" % (name, field), False, "LanguageBinding.%s is not set from the annotation" % field, where(fn, a))
                    continue
                org = tr.trace(fn, fl[field], inner)
                ok = bool(org) and all(o[0] == "param" and any(s[:3] == ("v", "LocationAnnotation", "Register") for s in o[3]) and
                                       tuple(s for s in o[3] if s[:3] != ("v", "LocationAnnotation", "Register"))[-len(suffix):] == suffix and
                                       o[3][[i for i, s in enumerate(o[3]) if s[:3] == ("v", "LocationAnnotation", "Register")][0] + 1:] == suffix
                                       for o in org)
                n += 1
                chk.ob("C06.source/%s/%s" % (name, field), ok,
                       "LanguageBinding.%s is the register annotation's %s, unchanged" % (field, "space" if field == "set" else "slot index") if ok else
                       "LanguageBinding.%s is not the register annotation's own %s (%s): an explicit register space / slot written in the source is altered before slot assignment, so the resource is placed in another group or slot"
                       % (field, "space" if field == "set" else "slot index", sorted(TF.describe(o) for o in org)), where(fn, a),
                       sample={"fn": name, "field": field, "origins": sorted(TF.describe(o) for o in org)})
    chk.floor("C06.floor/source-fields", n, 4, "LanguageBinding fields traced to the annotation", "rssl_typer")


def let_of(body, var_id):
    for s in F.walk(body):
        if s.get("k") == "LetStmt" and "init" in s:
            for i, n, p in F.pat_binds(s["pat"]):
                if i == var_id:
                    return s, p
    return None, None


def rule_bump(chk, pd):
    params = [p.get("pat", {}) for p in pd["params"]]
    pid = {p.get("name"): p.get("id") for p in params}
    map_params = {p.get("id"): p.get("name") for p, q in zip(params, pd["params"]) if "HashMap" in q["ty"]}
    sites = []
    for m in F.exprs(pd["thir"], "Match"):
        s = F.strip(m["scrut"])
        if s.get("k") == "Call" and (s.get("fn") or "").endswith("HashMap::<K, V, S, A>::entry"):
            sites.append((m, s))
    chk.floor("C06.floor/allocation-sites", len(sites), 3, "HashMap::entry allocation sites", where(pd))
    seen_kinds = set()
    for m, call in sites:
        mv = F.leftmost_var(call["args"][0])
        mapname = map_params.get(mv["id"]) if mv else None
        occ = vac = None
        for arm in m["arms"]:
            pv = F.pat_variant(arm["pat"])
            if pv and pv[1] == "Occupied":
                occ = arm
            elif pv and pv[1] == "Vacant":
                vac = arm
        if not (occ and vac and mapname):
            chk.ob("C06.bump/site-shape", False, "allocation site is not `match map.entry(set) { Occupied / Vacant }` on a map parameter", where(pd, m))
            continue
        # what is the value used for: find the let that binds the match result and the ApiLocation variant built from it
        result_var = None
        for s in F.walk(pd["thir"]):
            if s.get("k") == "LetStmt" and s.get("init") is m and s["pat"].get("k") == "Bind":
                result_var = s["pat"]
        target = None
        if result_var:
            for a in F.exprs(pd["thir"], "Adt"):
                if short(a["adt"]) == "ApiLocation":
                    vs = [v["id"] for v in F.exprs(a, "Var")]
                    if result_var["id"] in vs:
                        target = a["variant"]
        # occupied arm analysis
        body = occ["body"]
        stmts = body.get("stmts", []) if body.get("k") == "Block" else []
        tailv = F.strip(body.get("expr", {})) if body.get("k") == "Block" else {}
        pre = None
        pre_idx = upd_idx = None
        inc = None
        op = None
        for i, s in enumerate(stmts):
            if s.get("k") == "LetStmt" and s["pat"].get("k") == "Bind" and "init" in s:
                init = F.strip(s["init"])
                if init.get("k") == "Call" and short(init.get("fn") or "") == "get":
                    pre, pre_idx = s["pat"]["id"], i
            if s.get("k") == "AssignOp":
                lhs = F.strip(s["l"])
                if lhs.get("k") == "Call" and short(lhs.get("fn") or "") == "get_mut":
                    upd_idx, inc, op = i, shape(s["r"]), s["op"]
        kind = {"Index": "slot", "InlineConstant": "inline"}.get(target, "?")
        if inc == ("lit", 1):
            kind = "cbuffer" if target == "Index" else kind
        label = "%s/%s" % (mapname, kind)
        seen_kinds.add(label)
        W = where(pd, m)
        ok_pre = pre is not None and upd_idx is not None and pre_idx < upd_idx and tailv.get("k") == "Var" and tailv.get("id") == pre
        chk.ob("C06.bump/%s/returns-pre-update" % label, ok_pre,
               "returns the entry's value read before the update" if ok_pre else
               "the slot handed out is not the map value read before `+=` (ranges would overlap or skip)", W,
               sample={"site": label, "pre_update": ok_pre})
        chk.ob("C06.bump/%s/adds" % label, op in ("Add", "AddAssign"), "entry += increment" if op in ("Add", "AddAssign") else "the entry is updated with `%s`, must be `+=`" % op, W)
        # vacant arm
        vb = vac["body"]
        ins = [c for c in F.exprs(vb, "Call") if short(c.get("fn") or "") == "insert"]
        vtail = F.lit(F.tail(vb)) if vb.get("k") == "Block" else F.lit(vb)
        ok_v = len(ins) == 1 and vtail == ("int", 0)
        chk.ob("C06.bump/%s/vacant-starts-at-zero" % label, ok_v, "first allocation in a group returns 0" if ok_v else
               "a vacant group entry does not start at 0 (returns %s)" % (vtail,), W)
        vinc = shape(ins[0]["args"][1]) if ins else None
        chk.ob("C06.bump/%s/vacant-inserts-increment" % label, vinc == inc and inc is not None,
               "vacant entry is initialised with the same increment" if vinc == inc else
               "vacant entry is initialised with %s but occupied entries advance by %s" % (vinc, inc), W)
        # increment form
        want = {"used_slots/cbuffer": "1", "used_slots/slot": "slot_count", "inline_size/inline": "8*slot_count"}.get(label)
        sc = None
        def is_slot_count(sh):
            return sh[0] == "var" and is_slot_count_var(pd, sh[1])
        if label == "used_slots/cbuffer":
            ok_inc = inc == ("lit", 1)
        elif label == "used_slots/slot":
            ok_inc = inc is not None and is_slot_count(inc)
        elif label == "inline_size/inline":
            ok_inc = inc is not None and inc[0] == "bin" and inc[1] == "Mul" and (
                (inc[2] == ("lit", 8) and is_slot_count(inc[3])) or (inc[3] == ("lit", 8) and is_slot_count(inc[2])))
        else:
            ok_inc = False
        chk.ob("C06.bump/%s/increment" % label, ok_inc, "increment = %s" % want if ok_inc else
               "allocation site %s advances by %s, must advance by %s" % (label, inc, want), W, sample={"site": label, "increment": str(inc)})
        # key: the entry is keyed by the declaration's group
        key = F.leftmost_var(call["args"][1]) if len(call["args"]) > 1 else None
        ok_key = False
        if key:
            ls, _ = let_of(pd["thir"], key["id"])
            if ls:
                init = F.strip(ls["init"])
                if init.get("k") == "Call" and short(init.get("fn") or "") == "unwrap_or":
                    a0, a1 = F.strip(init["args"][0]), F.leftmost_var(init["args"][1])
                    ok_key = a0.get("k") == "Field" and a0["name"] == "set" and a1 is not None and a1["id"] == pid.get("default_set")
        chk.ob("C06.group/%s" % label, ok_key, "keyed by lang set, else the default group" if ok_key else
               "the allocation is not keyed by `<lang binding>.set.unwrap_or(default_set)`", W)
        # the same `set` is stored in the ApiBinding
    for want in ("used_slots/cbuffer", "used_slots/slot", "inline_size/inline"):
        chk.ob("C06.bump/%s/present" % want, want in seen_kinds, "allocation site present" if want in seen_kinds else
               "anchor-missing: allocation site %s not found (found %s)" % (want, sorted(seen_kinds)), where(pd), trivial=True)
    rule_slot_count(chk, pd)


def is_slot_count_var(pd, vid):
    ls, _ = let_of(pd["thir"], vid)
    if not ls:
        return False
    sh = shape(ls["init"])
    return sh[0] == "bin" and sh[1] == "Mul" and sh[2][0] == "var" and sh[3][0] == "var"


def rule_slot_count(chk, pd):
    # slot_count = array_count * slice_cost
    sc = None
    for s in F.walk(pd["thir"]):
        if s.get("k") == "LetStmt" and s["pat"].get("k") == "Bind" and "init" in s:
            sh = shape(s["init"])
            if sh[0] == "bin" and sh[1] == "Mul" and sh[2][0] == "var" and sh[3][0] == "var":
                sc = (s, sh)
    if not chk.anchor("C06.anchor/slot_count", sc, "`slot_count = array_count * slice_cost`", where(pd)):
        return
    s, sh = sc
    a_let, _ = let_of(pd["thir"], sh[2][1])
    b_let, _ = let_of(pd["thir"], sh[3][1])
    lets = [a_let, b_let]
    # array_count: unwrap_or(1) of the array length
    ac = next((l for l in lets if l and F.strip(l["init"]).get("k") in ("Cast", "Call")
               and any(short(c.get("fn") or "") == "unwrap_or" for c in F.exprs(l["init"], "Call"))), None)
    ok_ac = False
    if ac:
        uo = [c for c in F.exprs(ac["init"], "Call") if short(c.get("fn") or "") == "unwrap_or"][0]
        src = F.leftmost_var(uo["args"][0])
        ok_ac = F.lit(uo["args"][1]) == ("int", 1) and src is not None
        if ok_ac:
            # the Option comes from the Array(_, Some(len)) arm
            ls, path = let_of(pd["thir"], src["id"])
            ok_ac = False
            if ls:
                for m in F.exprs(ls["init"], "Match"):
                    for arm in m["arms"]:
                        pv = F.pat_variant(arm["pat"])
                        if pv == ("TypeLayer", "Array"):
                            ln = F.pat_sub(arm["pat"], "1")
                            inner = F.pat_sub(ln, "0") if ln and F.pat_variant(ln) == ("Option", "Some") else None
                            t = F.strip(F.tail(arm["body"]))
                            if inner is not None and inner.get("k") == "Bind" and t.get("k") == "Tuple":
                                last = F.adt_ctor(t["elems"][-1])
                                ok_ac = bool(last and last[1] == "Some" and F.strip(last[2]["0"]).get("id") == inner["id"])
    chk.ob("C06.bump/array-count", ok_ac, "array_count = declared array length, 1 for non-arrays" if ok_ac else
           "array_count is no longer `Array(_, Some(len)) -> len, otherwise 1`", where(pd, s))
    # slice_cost
    sl = next((l for l in lets if l and F.strip(l["init"]).get("k") == "Match"), None)
    ok_sl = False
    got = None
    if sl:
        m = F.strip(sl["init"])
        two = set()
        guard_ok = False
        other = None
        for arm in m["arms"]:
            val = F.lit(F.tail(arm["body"]))
            alts = F.pat_alternatives(arm["pat"])
            if val == ("int", 2):
                for alt in alts:
                    if F.pat_variant(alt) == ("TypeLayer", "Object"):
                        for q in F.pat_alternatives(F.pat_sub(alt, "0")):
                            pv = F.pat_variant(q)
                            if pv:
                                two.add(pv[1])
                g = arm.get("guard")
                guard_ok = bool(g) and F.strip(g).get("k") == "Field" and F.strip(g)["name"] == "metal_slot_layout"
            elif F.pat_is_catchall(alts[0]):
                other = val
        got = (sorted(two), guard_ok, other)
        ok_sl = two == TWO_SLOT and guard_ok and other == ("int", 1)
    chk.ob("C06.bump/slice-cost", ok_sl, "2 slots for %s under metal_slot_layout, else 1" % sorted(TWO_SLOT) if ok_sl else
           "slice_cost table is %s; must be 2 exactly for %s guarded by params.metal_slot_layout, else 1" % (got, sorted(TWO_SLOT)),
           where(pd, s), sample={"two_slot_kinds": got[0] if got else None})


def rule_skip(chk, pd):
    cfg = M.Cfg(pd)
    entries = cfg.calls("HashMap::<K, V, S, A>::entry")
    # entries in the GlobalVariable arm are those dominated by the is_object test
    is_obj = M.is_call_result("TypeLayer::is_object")
    n = 0
    for bb, t in entries:
        ok, _ = M.dominated_by_guard(cfg, bb, is_obj, want=True)
        if ok:
            n += 1
    chk.ob("C06.skip/only-objects", n >= 2, "%d global allocation sites are dominated by is_object()" % n if n >= 2 else
           "a global variable allocation is no longer guarded by `unmodified_tyl.is_object()` (non-resource globals would take slots)", where(pd))
    # static sampler early return: the Return under `static_sampler.is_some() && !static_samplers_have_slots`
    ok_ss = False
    for n_ in F.exprs(pd["thir"], "If"):
        c = F.strip(n_["cond"])
        if c.get("k") == "Logical" and c["op"] == "And":
            l, r = F.strip(c["l"]), F.strip(c["r"])
            has_some = l.get("k") == "Call" and short(l.get("fn") or "") == "is_some" and any(x.get("name") == "static_sampler" for x in F.exprs(l, "Field"))
            neg = r.get("k") == "Unary" and r["op"] == "Not" and F.strip(r["e"]).get("k") == "Field" and F.strip(r["e"])["name"] == "static_samplers_have_slots"
            rets = any(x.get("k") == "Return" for x in F.walk(n_["then"]))
            ok_ss = ok_ss or (has_some and neg and rets)
    chk.ob("C06.skip/static-samplers", ok_ss, "static samplers take no slot iff !static_samplers_have_slots" if ok_ss else
           "the static-sampler early return `static_sampler.is_some() && !params.static_samplers_have_slots` is gone or changed", where(pd))
    # buffer address path guarded by support_buffer_address && is_buffer_address
    inline_sites = [bb for bb, t in entries if "inline" in str(t["args"][0]) or True]
    ok_ba = False
    for n_ in F.exprs(pd["thir"], "If"):
        c = F.strip(n_["cond"])
        if c.get("k") == "Logical" and c["op"] == "And":
            l, r = F.strip(c["l"]), F.strip(c["r"])
            if l.get("k") == "Field" and l["name"] == "support_buffer_address" and r.get("k") == "Call" and short(r.get("fn") or "") == "is_buffer_address":
                then_inline = any((a.get("variant") == "InlineConstant") for a in F.exprs(n_["then"], "Adt"))
                else_index = any((a.get("variant") == "Index") for a in F.exprs(n_.get("else", {}), "Adt"))
                ok_ba = then_inline and else_index
    chk.ob("C06.inline/selection", ok_ba, "buffer addresses use inline constants iff support_buffer_address && is_buffer_address" if ok_ba else
           "the inline-constant path is no longer selected by `params.support_buffer_address && is_buffer_address(..)`", where(pd))


def rule_outer(chk, aab, pd):
    body = aab["thir"]
    loops = F.for_loops(body)
    decl_loop = inline_loop = None
    for (p, it, lbody, node) in loops:
        if lbody is None:
            continue
        calls = [c.get("fn") for c in F.exprs(lbody, "Call")]
        if pd and pd["path"] in calls:
            decl_loop = (p, it, lbody, node)
        if any(short(a["adt"]) == "InlineConstantBuffer" for a in F.exprs(lbody, "Adt")):
            inline_loop = (p, it, lbody, node)
    if chk.anchor("C06.anchor/declaration-loop", decl_loop, "for decl in root_definitions { process_definition(..) }", where(aab)):
        it = F.strip(decl_loop[1])
        # &self.root_definitions.clone()
        inner = it
        while inner.get("k") == "Call" and short(inner.get("fn") or "") in ("clone", "iter", "into_iter"):
            inner = F.strip(inner["args"][0])
        ok = inner.get("k") == "Field" and inner["name"] == "root_definitions"
        chk.ob("C06.pass/in-order", ok, "single pass over root_definitions in declaration order" if ok else
               "the allocator no longer iterates `self.root_definitions` directly (order of declarations decides the slots)", where(aab, decl_loop[3]))
        n_calls = sum(1 for c in F.exprs(body, "Call") if pd and c.get("fn") == pd["path"])
        chk.ob("C06.pass/once", n_calls == 1, "process_definition is called from one loop" if n_calls == 1 else "process_definition is called %d times" % n_calls, where(aab))
    if chk.anchor("C06.anchor/inline-loop", inline_loop, "for (set, size) in inline_size { push InlineConstantBuffer }", where(aab)):
        p, it, lbody, node = inline_loop
        binds = {i: path for i, n, path in F.pat_binds(p)}
        a = [x for x in F.exprs(lbody, "Adt") if short(x["adt"]) == "InlineConstantBuffer"][0]
        flds = {x["f"]: x["e"] for x in a["fields"]}
        def origin(e):
            v = F.leftmost_var(e)
            if v is None:
                return None
            if v["id"] in binds:
                return ("pat",) + binds[v["id"]]
            ls, _ = let_of(lbody, v["id"])
            if ls:
                for c in F.exprs(ls["init"], "Call"):
                    if short(c.get("fn") or "") == "get" and "HashMap" in (c.get("fn") or ""):
                        mv = F.leftmost_var(c["args"][0])
                        kv = F.leftmost_var(c["args"][1])
                        pure = not any(True for _ in F.exprs(ls["init"], "Binary")) and not any(True for _ in F.exprs(e, "Binary"))
                        return ("map", mv.get("name") if mv else None, binds.get(kv["id"]) if kv else None, pure)
            return ("var", v.get("name"))
        o_set, o_loc, o_size = origin(flds.get("set", {})), origin(flds.get("api_location", {})), origin(flds.get("size_in_bytes", {}))
        itv = F.leftmost_var(it)
        ok = o_set == ("pat", "0") and o_size == ("pat", "1") and o_loc is not None and o_loc[0] == "map" and o_loc[2] == ("0",) and o_loc[3] \
            and not any(True for fe in flds.values() for _ in F.exprs(fe, "Binary")) \
            and itv is not None and o_loc[1] != itv.get("name")
        chk.ob("C06.inline/block", ok, "inline block: set, api_location = used_slots[set], size = inline_size[set]" if ok else
               "InlineConstantBuffer fields come from set=%s api_location=%s size=%s" % (o_set, o_loc, o_size), where(aab, a),
               sample={"set": str(o_set), "api_location": str(o_loc), "size": str(o_size)})
        if decl_loop:
            after = (node.get("ln") or 0) > (decl_loop[3].get("ln") or 0)
            cfg = M.Cfg(aab)
            chk.ob("C06.inline/after-all-slots", after, "the inline block's slot is read after every declaration was allocated" if after else
                   "the inline constant block is built before the declaration loop has finished", where(aab, node))
        sorts = [c for c in F.exprs(body, "Call") if short(c.get("fn") or "").startswith("sort") and any(x.get("name") == "inline_constant_buffers" for x in F.exprs(c, "Field"))]
        chk.ob("C06.order/inline-sorted", bool(sorts) and (sorts[0].get("ln") or 0) > (node.get("ln") or 0),
               "inline_constant_buffers sorted after the hash-map loop" if sorts else "inline_constant_buffers is no longer sorted after iterating a HashMap", where(aab))
    # default_set
    ok_ds = False
    for s in F.walk(body):
        if s.get("k") == "LetStmt" and "init" in s and F.strip(s["init"]).get("k") == "Match":
            m = F.strip(s["init"])
            sc = F.strip(m["scrut"])
            if sc.get("k") == "Field" and sc["name"] == "selected_pipeline":
                some = none = False
                for arm in m["arms"]:
                    pv = F.pat_variant(arm["pat"])
                    if pv and pv[1] == "Some":
                        t = F.strip(F.tail(arm["body"]))
                        some = t.get("k") == "Field" and t["name"] == "default_bind_group_index"
                    if pv and pv[1] == "None":
                        none = F.lit(F.tail(arm["body"])) == ("int", 0)
                ok_ds = some and none
    chk.ob("C06.group/default", ok_ds, "default group = selected pipeline's default_bind_group_index, 0 without a pipeline" if ok_ds else
           "default_set is no longer `selected pipeline's default_bind_group_index or 0`", where(aab))


def rule_params(chk):
    f = chk.facts
    comp = chk.anchor("C06.anchor/compile", f.fn("compile", "rssl", path_contains="compile::compile"), "rssl::compile")
    dflt = [b for b in f.by_name.get("default", []) if short(b.get("self_ty", "")) == "AssignBindingsParams"]
    if not comp or not chk.anchor("C06.anchor/AssignBindingsParams::default", dflt[0] if len(dflt) == 1 else None, "impl Default for AssignBindingsParams"):
        return

    def fields_of(adt_node):
        out = {}
        for x in adt_node["fields"]:
            l = F.lit(x["e"])
            if l:
                out[x["f"]] = l[1]
            else:
                e = F.strip(x["e"])
                if e.get("k") == "Field":
                    v = F.leftmost_var(e)
                    out[x["f"]] = "%s.%s" % (v.get("name") if v else "?", e["name"])
                else:
                    out[x["f"]] = "?"
        return out
    dnode = [a for a in F.exprs(dflt[0]["thir"], "Adt") if short(a["adt"]) == "AssignBindingsParams"]
    dvals = fields_of(dnode[0]) if dnode else {}
    table = {}
    for m in F.find_matches(comp, "Target"):
        for arm in m["arms"]:
            t = F.strip(F.tail(arm["body"]))
            vals = None
            if t.get("k") == "Adt" and short(t["adt"]) == "AssignBindingsParams":
                vals = fields_of(t)
            elif t.get("k") == "Call" and short(t.get("fn") or "") == "default" and "AssignBindingsParams" in t.get("ty", ""):
                vals = dict(dvals)
            if vals is None:
                continue
            for alt in F.pat_alternatives(arm["pat"]):
                pv = F.pat_variant(alt)
                if pv and pv[0] == "Target":
                    table[pv[1]] = vals
    for tgt, ref in REF_PARAMS.items():
        got = table.get(tgt)
        for k, v in ref.items():
            gv = None if got is None else got.get(k)
            chk.ob("C06.params/%s/%s" % (tgt, k), gv == v, "%s.%s = %s" % (tgt, k, gv) if gv == v else
                   "binding parameters for %s: %s is %s, must be %s" % (tgt, k, gv, v), where(comp), sample={"target": tgt, "field": k, "value": gv})
    for k, v in REF_PARAMS["HlslForDirectX"].items():
        chk.ob("C06.params/default/%s" % k, dvals.get(k) == v, "Default.%s = %s" % (k, dvals.get(k)) if dvals.get(k) == v else
               "AssignBindingsParams::default().%s is %s, must be %s" % (k, dvals.get(k), v), where(dflt[0]))
