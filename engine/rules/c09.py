"""C09 — printing a syntax tree and parsing it back are inverse.

Decided structurally (tables of the printer vs. the grammar of the parser and the symbol
table of the lexer); tree equality itself is a run-time comparison and is not decided.
"""
import re

import facts as F
import interp as I
import thirflow as TF
from facts import short, where

EXPLANATION = (
    "Static writer/reader agreement between rssl_formatter and rssl_parser/rssl_preprocess::lexer. "
    "Extracted on this run from the type-checked program: the formatter's precedence table "
    "(get_expression_precedence), associativity table, the parenthesis decision in format_subexpression "
    "(read as a finite map over Ordering x OperatorSide x Associativity), the (outer precedence, side) each "
    "child position is printed with, the operator spellings; the parser's level chain (which level function "
    "falls through to which), the level each child position of each node kind is parsed at, the token "
    "patterns of every operator parser; the lexer's symbol table (symbol_single / symbol_op_or_op_equals "
    "call arguments, '<' '>' handlers). Rules: C09.paren — for every (parent kind, child position, child "
    "kind): if the printer leaves the child unparenthesised, the parser's level for that position admits the "
    "child's level; C09.optext — every operator spelling lexes (maximal munch, extracted table) to exactly the "
    "token sequence the parser maps back to the same operator, at the same level; C09.adj — two operator "
    "spellings the printer can emit with no separator must lex to the same two tokens; C09.lit — literal "
    "suffix writer/reader tables are inverse; C09.total — every ast::Expression / Statement variant has a "
    "printer arm. Not decided: equality of trees after a round trip for declarators/types/statements, literal values."
)
ASSUMPTIONS = [
    "rustc's THIR/MIR for the workspace is a faithful view of the source (trusted: rustc nightly front end)",
    "an operand expression never begins with '=' (used when simulating the shift / compare token patterns)",
    "guards on parser operator arms that test the terminator mode or the following token are taken as satisfiable",
]

FMT = "rssl_formatter"
PAR = "rssl_parser"


class Missing(Exception):
    pass


# ------------------------------------------------------------------ formatter side

def expr_kinds(facts):
    """All node kinds: (ExpressionVariant, op or None)."""
    ev = facts.variants("ast_expressions::Expression", "rssl_ast")
    un = facts.variants("ast_expressions::UnaryOp", "rssl_ast")
    bi = facts.variants("ast_expressions::BinOp", "rssl_ast")
    if not ev or not un or not bi:
        raise Missing("ast::Expression / UnaryOp / BinOp enums")
    kinds = []
    for v in ev:
        if v == "UnaryOperation":
            kinds += [(v, o) for o in un]
        elif v == "BinaryOperation":
            kinds += [(v, o) for o in bi]
        else:
            kinds.append((v, None))
    return kinds, ev, un, bi


def kind_value(kind, facts):
    v, op = kind
    adt = facts.adt("ast_expressions::Expression", "rssl_ast")
    var = [x for x in adt["variants"] if x["name"] == v][0]
    fields = {}
    for i, f in enumerate(var["fields"]):
        fields[str(i)] = I.Opaque("child%d" % i)
    if v == "UnaryOperation":
        fields["0"] = I.Enum("UnaryOp", op)
    elif v == "BinaryOperation":
        fields["0"] = I.Enum("BinOp", op)
    return I.Enum("Expression", v, fields)


def kname(kind):
    return kind[0] if kind[1] is None else "%s::%s" % ({"UnaryOperation": "Unary", "BinaryOperation": "Binary"}[kind[0]], kind[1])


class Formatter:
    def __init__(self, chk):
        f = chk.facts
        self.facts = f
        self.ip = I.Interp(f)
        self.prec_fn = chk.anchor("C09.anchor/get_expression_precedence", f.fn("get_expression_precedence", FMT), "formatter precedence table")
        self.assoc_fn = chk.anchor("C09.anchor/get_precedence_associativity", f.fn("get_precedence_associativity", FMT), "formatter associativity table")
        self.sub_fn = chk.anchor("C09.anchor/format_subexpression", f.fn("format_subexpression", FMT), "formatter sub-expression printer")
        self.unop_fn = chk.anchor("C09.anchor/format_unary_op", f.fn("format_unary_op", FMT), "unary operator spelling")
        self.binop_fn = chk.anchor("C09.anchor/format_bin_op", f.fn("format_bin_op", FMT), "binary operator spelling")
        if not all([self.prec_fn, self.assoc_fn, self.sub_fn, self.unop_fn, self.binop_fn]):
            raise Missing("formatter anchors")
        self.kinds, self.ev, self.un, self.bi = expr_kinds(f)
        self.prec = {}
        for kd in self.kinds:
            try:
                r = self.ip.apply(self.prec_fn, [kind_value(kd, f)])
            except I.Unknown as e:
                raise Missing("cannot read precedence of %s: %s" % (kname(kd), e))
            if isinstance(r, I.Enum) and r.variant == "Ok":
                self.prec[kd] = r.fields["0"]
            else:
                self.prec[kd] = None   # unprintable (documented: AmbiguousParseBranch)
        self._paren_setup()
        self._positions()
        self._optext()

    # the condition guarding the emission of '(' , as a finite map
    def _paren_setup(self):
        body = self.sub_fn["thir"]
        if body.get("k") != "Block":
            raise Missing("format_subexpression body")
        self.lets = []
        self.paren_cond = None
        for s in body["stmts"]:
            if s.get("k") == "LetStmt":
                self.lets.append(s)
                continue
            if s.get("k") == "If":
                pushes = [c for c in F.exprs(s["then"], "Call") if (c.get("fn") or "").endswith("String::push")]
                if any(F.lit(c["args"][1]) == ("char", "(") for c in pushes):
                    self.paren_cond = s["cond"]
                    break
            break
        if self.paren_cond is None:
            raise Missing("the `if <cond> { output.push('(') }` guard in format_subexpression")
        params = self.sub_fn["params"]
        self.param_ids = [p["pat"]["id"] for p in params if p.get("pat", {}).get("k") == "Bind"]
        if len(self.param_ids) < 3:
            raise Missing("format_subexpression parameters")

    def needs_paren(self, child_kind, outer, side):
        env = {self.param_ids[0]: kind_value(child_kind, self.facts), self.param_ids[1]: outer,
               self.param_ids[2]: I.Enum("OperatorSide", side)}
        for s in self.lets:
            v = self.ip.ev(s["init"], env, 0)
            if not self.ip.match_pat(s["pat"], v, env):
                raise I.Unknown("let")
        return self.ip.truth(self.ip.ev(self.paren_cond, env, 0))

    # child positions: for each node kind, field index -> (outer precedence or 'self', side)
    def _positions(self):
        ms = F.find_matches(self.sub_fn, "Expression")
        ms = [m for m in ms if len(m["arms"]) >= 8]
        if len(ms) != 1:
            raise Missing("the match over ast::Expression in format_subexpression")
        self.arms = {}
        idx = TF.BodyIndex(self.sub_fn)
        self.idx = idx
        self.positions = {}   # kind -> {field: (outer, side)}
        self.arm_of = {}
        self.events = {}      # kind -> [event]
        for arm in ms[0]["arms"]:
            for alt in F.pat_alternatives(arm["pat"]):
                pv = F.pat_variant(alt)
                if not pv:
                    continue
                variant = pv[1]
                binds = {bid: path for (bid, path) in idx._binds(alt, ())}
                for kd in self.kinds:
                    if kd[0] != variant:
                        continue
                    evs = self._arm_events(arm["body"], kd, binds, alt)
                    self.events[kd] = evs
                    self.arm_of[kd] = (arm["body"], binds, alt)
                    pos = {}
                    for ev in evs:
                        if ev[0] == "rec":
                            pos[ev[1]] = (ev[2], ev[3])
                    self.positions[kd] = pos

    def _wrapper(self, path):
        """(outer precedence, side) when `path` is a function of the formatter that only forwards its first parameter to
        the sub-expression printer with a constant outer precedence and side (format_expression)."""
        cache = self.__dict__.setdefault("_wrappers", {})
        if path in cache:
            return cache[path]
        cache[path] = None
        b = self.facts.bodies.get(path)
        if b is None or b.get("crate") != FMT or b is self.sub_fn or "thir" not in b:
            return None
        calls = [c for c in F.exprs(b["thir"], "Call") if (c.get("fn") or "") == self.sub_fn["path"]]
        others = [c for c in F.exprs(b["thir"], "Call") if (c.get("fn") or "") != self.sub_fn["path"] and not (c.get("fn") or "").startswith("core::")]
        if len(calls) != 1 or others:
            return None
        a = calls[0]["args"]
        v0 = F.leftmost_var(a[0])
        p0 = b["params"][0]["pat"] if b.get("params") and b["params"][0].get("pat", {}).get("k") == "Bind" else None
        if v0 is None or p0 is None or v0.get("id") != p0.get("id"):
            return None
        try:
            outer = self.ip.ev(a[1], {}, 0)
        except I.Unknown:
            return None
        sd = F.adt_ctor(a[2])
        if not isinstance(outer, int) or not sd:
            return None
        cache[path] = (outer, sd[1])
        return cache[path]

    def _reaches_sub(self, path, depth=0):
        b = self.facts.bodies.get(path)
        if b is None or "thir" not in b or depth > 3:
            return False
        for c in F.exprs(b["thir"], "Call"):
            fn = c.get("rfn") or c.get("fn") or ""
            if fn == self.sub_fn["path"] or (fn != path and fn in self.facts.bodies and self.facts.bodies[fn].get("crate") == FMT and self._reaches_sub(fn, depth + 1)):
                return True
        return False

    def _dyn_wrapper(self, path):
        """True when `path` is a formatter function that takes an expression first and hands it to the sub-expression
        printer, but is not a constant wrapper (the level or side depends on what it is given)."""
        cache = self.__dict__.setdefault("_dyn_wrappers", {})
        if path in cache:
            return cache[path]
        cache[path] = False
        b = self.facts.bodies.get(path)
        if b is None or b.get("crate") != FMT or b is self.sub_fn or "thir" not in b or not b.get("params"):
            return False
        if not b["params"][0].get("ty", "").endswith("ast_expressions::Expression") or self._wrapper(path) is not None:
            return False
        calls = [c for c in F.exprs(b["thir"], "Call") if (c.get("fn") or "") == self.sub_fn["path"]]
        if len(calls) != 1:
            return False
        v0 = F.leftmost_var(calls[0]["args"][0])
        p0 = b["params"][0].get("pat", {})
        if v0 is None or p0.get("k") != "Bind" or v0.get("id") != p0.get("id"):
            return False
        cache[path] = True
        return True

    def resolve(self, parent_prec, child_kind, outer, side):
        """(outer precedence, side) at which a child of this kind is printed: constants, or read from a helper."""
        if not isinstance(side, tuple):
            return (parent_prec if outer == "self" else outer), side
        _, path, consts = side
        got = []

        def capture(a):
            got.append((a[1], a[2]))
            return I.Enum("Result", "Ok", {"0": ()})
        ip = I.Interp(self.facts, max_depth=4, extern={self.sub_fn["path"]: capture})
        args = [kind_value(child_kind, self.facts)] + [parent_prec if c == "self" else c for c in consts]
        ip.apply(self.facts.bodies[path], args)
        if len(got) != 1 or not isinstance(got[0][0], int) or not isinstance(got[0][1], I.Enum):
            raise I.Unknown("helper %s does not print its argument exactly once" % short(path))
        return got[0][0], got[0][1].variant

    def _field_of(self, e, binds):
        """Which field of the matched Expression variant a child expression is ('2[]' = element of a list field)."""
        tr = TF.Tracer(self.facts, max_depth=1)
        fields = set()
        for o in tr.trace(self.sub_fn, e, ()):
            if o[0] == "param" and o[2] == 0 and o[3] and o[3][0][0] == "v" and o[3][0][1] == "Expression":
                fields.add(o[3][0][3] + ("[]" if any(s[0] == "elem" for s in o[3][1:]) else ""))
            else:
                return None
        return fields.pop() if len(fields) == 1 else None

    def events_with_child(self, kd, field, child_kd):
        """Emission events of node kind `kd` when the child in `field` is a node of kind `child_kd` (conditions that
        inspect the child are then decidable). Text emitted inside a branch that is still undecided is dropped, so a
        separator only counts when it is certainly emitted."""
        body, binds, alt = self.arm_of[kd]
        v = kind_value(kd, self.facts)
        v.fields[str(field)] = I.Enum("Located", None, {"node": kind_value(child_kd, self.facts), "location": I.Opaque("loc")})
        evs = self._arm_events(body, kd, binds, alt, value=v)
        out, depth = [], 0
        for e in evs:
            if e[0] == "branch-begin":
                depth += 1
            elif e[0] == "branch-end":
                depth -= 1
            elif e[0] == "branch-else":
                pass
            elif depth > 0 and e[0] == "text":
                continue
            else:
                out.append(e)
        return out

    def _arm_events(self, body, kd, binds, alt, value=None):
        """Ordered emission events of one arm for one node kind. If-conditions over the
        operator are resolved with the finite-map reader; loops contribute their body once."""
        ip = self.ip
        env = {}
        # bind pattern variables to the kind's value so that conditions on `op` can be read
        ip.match_pat(alt, value if value is not None else kind_value(kd, self.facts), env)
        out = []
        loop_vars = {}

        def visit(n):
            k = n.get("k")
            if k == "Block":
                for s in n["stmts"]:
                    visit(s)
                if "expr" in n:
                    visit(n["expr"])
                return
            if k == "LetStmt":
                if "init" in n:
                    try:
                        v = ip.ev(n["init"], env, 0)
                        ip.match_pat(n["pat"], v, env)
                    except I.Unknown:
                        visit(n["init"])
                return
            if k == "If":
                try:
                    c = ip.truth(ip.ev(n["cond"], env, 0))
                except I.Unknown:
                    c = None
                if c is True:
                    visit(n["then"])
                elif c is False:
                    if "else" in n:
                        visit(n["else"])
                else:
                    out.append(("branch-begin",))
                    visit(n["then"])
                    out.append(("branch-else",))
                    if "else" in n:
                        visit(n["else"])
                    out.append(("branch-end",))
                return
            if k == "Call":
                fn = n.get("fn") or ""
                nm = short(fn)
                args = n.get("args", [])
                if fn == self.sub_fn["path"]:
                    field = self._field_of(args[0], binds)
                    outer = F.strip(args[1])
                    if outer.get("k") == "Lit":
                        o = outer["v"]
                    elif outer.get("k") == "Var":
                        o = "self"
                    else:
                        o = "?"
                    sd = F.adt_ctor(args[2])
                    out.append(("rec", field, o, sd[1] if sd else "?"))
                    return
                w = self._wrapper(n.get("rfn") or fn)
                if w is not None:
                    # a helper that prints its argument through the sub-expression printer with a fixed outer precedence / side
                    out.append(("rec", self._field_of(args[0], binds), w[0], w[1]))
                    return
                dw = self._dyn_wrapper(n.get("rfn") or fn)
                if dw:
                    # a helper that chooses the outer precedence / side from the child it is given: read per child kind
                    consts = []
                    for a_ in args[1:]:
                        a_ = F.strip(a_)
                        sd_ = F.adt_ctor(a_)
                        if a_.get("k") == "Lit":
                            consts.append(a_["v"])
                        elif a_.get("k") == "Var" and a_.get("ty") == "u32":
                            consts.append("self")
                        elif sd_ and sd_[0] == "OperatorSide":
                            consts.append(I.Enum("OperatorSide", sd_[1]))
                        else:
                            consts.append(I.Opaque("argument"))
                    out.append(("rec", self._field_of(args[0], binds), "self" if "self" in consts else "dyn", ("dyn", n.get("rfn") or fn, tuple(consts))))
                    return
                if fn.endswith("String::push") or fn.endswith("String::push_str"):
                    l = F.lit(args[1])
                    out.append(("text", l[1] if l else None))
                    return
                if fn == self.unop_fn["path"]:
                    out.append(("unop",))
                    return
                if fn == self.binop_fn["path"]:
                    out.append(("binop",))
                    return
                if nm.startswith("format_") or nm.startswith("write"):
                    cb = self.facts.bodies.get(n.get("rfn") or fn)
                    if cb is not None and cb.get("params") and cb["params"][0].get("ty", "").endswith("ast_expressions::Expression") and self._reaches_sub(cb["path"]):
                        # a helper that prints an expression child in a way this model cannot read: say so (C09.sides)
                        out.append(("rec", self._field_of(args[0], binds), "?", "?"))
                        return
                    out.append(("other", nm))
                    return
                for a in args:
                    visit(a)
                if "fexpr" in n:
                    visit(n["fexpr"])
                return
            if k == "Match":
                visit(n["scrut"])
                src = n.get("src", "")
                if src.startswith("TryDesugar"):
                    return
                for a in n["arms"]:
                    visit(a["body"])
                return
            for c in F.children(n):
                if "k" in c:
                    visit(c)

        visit(body)
        return out

    def _optext(self):
        self.un_text = {}
        self.bin_text = {}
        for table, fn, ops, adt in ((self.un_text, self.unop_fn, self.un, "UnaryOp"), (self.bin_text, self.binop_fn, self.bi, "BinOp")):
            # the spelling function read as a table (one evaluation per operator); its match arms are the fallback
            got = {}
            try:
                ip = I.Interp(self.facts, max_depth=4)
                for op in ops:
                    buf = {"s": ""}
                    params = fn.get("params") or []
                    r = ip.apply(fn, [I.Enum(adt, op)] + [I.Ref(buf, "s") if "String" in (p_.get("ty") or "") else I.Opaque("arg") for p_ in params[1:]])
                    r = r.get() if isinstance(r, I.Ref) else r
                    if isinstance(r, I.Enum) and r.variant == "Ok" and buf["s"]:
                        r = buf["s"]            # (the function writes the spelling into the output it is handed)
                    if not isinstance(r, str):
                        raise I.Unknown("spelling of %s is %r" % (op, r))
                    got[op] = r
            except I.Unknown:
                got = None
            if got:
                table.update(got)
                continue
            ms = F.find_matches(fn, adt)
            if len(ms) != 1:
                raise Missing("the match over %s in %s" % (adt, fn["name"]))
            for arm in ms[0]["arms"]:
                l = F.lit(arm["body"])
                for alt in F.pat_alternatives(arm["pat"]):
                    pv = F.pat_variant(alt)
                    if pv and l and l[0] == "str":
                        table[pv[1]] = l[1]


# ------------------------------------------------------------------ lexer model

class Lexer:
    """Symbol table recovered from the arguments of the lexer's combinator calls."""

    def __init__(self, chk):
        f = chk.facts
        self.table = {}   # text -> token variant
        single = chk.anchor("C09.anchor/symbol_single", f.fn("symbol_single", "rssl_preprocess"), "lexer single-char combinator")
        opeq = chk.anchor("C09.anchor/symbol_op_or_op_equals", f.fn("symbol_op_or_op_equals", "rssl_preprocess"), "lexer op/op=/opop combinator")
        if not single or not opeq:
            raise Missing("lexer combinators")
        n_single = n_op = 0
        for b in f.crates["rssl_preprocess"]["bodies"]:
            if "thir" not in b:
                continue
            for c in F.exprs(b["thir"], "Call"):
                fn = c.get("fn")
                if fn == single["path"]:
                    ch = F.lit(c["args"][0])
                    tk = F.adt_ctor(c["args"][1])
                    if ch and tk:
                        self.table[chr(ch[1])] = tk[1]
                        n_single += 1
                elif fn == opeq["path"]:
                    ch = F.lit(c["args"][0])
                    toks = [F.adt_ctor(a) for a in c["args"][1:4]]
                    if ch and all(toks):
                        c0 = chr(ch[1])
                        self.table[c0] = toks[0][1]
                        if toks[1][1] != "Eof":
                            self.table[c0 + "="] = toks[1][1]
                        if toks[2][1] != "Eof":
                            self.table[c0 + c0] = toks[2][1]
                        n_op += 1
        chk.floor("C09.floor/lexer-symbols", n_single + n_op, 20, "lexer symbol combinator calls")
        # maximal munch encoded by the arm order of symbol_op_or_op_equals: 2-char arms before the 1-char arm
        clos = f.closures_of(opeq["path"])
        ok = False
        for cb in clos:
            for m in F.exprs(cb["thir"], "Match"):
                lens = [len(a["pat"].get("prefix", [])) for a in m["arms"] if a["pat"].get("k") == "Slice"]
                if lens[:3] == [2, 2, 1]:
                    ok = True
        # the same decision read by evaluation: the closure returned by symbol_op_or_op_equals applied to short inputs
        try:
            ipx = I.Interp(f, max_depth=8, extern={"other_token_chars": lambda a: I.Enum("Result", "Err", {"0": I.Opaque("other")})})
            A, B, C, EOF = (I.Enum("Token", "Plus"), I.Enum("Token", "PlusEquals"), I.Enum("Token", "PlusPlus"), I.Enum("Token", "Eof"))

            def lexed(clo, text):
                r = ipx.call_callable(clo, [list(text.encode())], 0)
                if isinstance(r, I.Enum) and r.variant == "Ok":
                    rest, tok = r.fields["0"]
                    return (tok.variant, bytes(rest).decode())
                return "Err"
            clo = ipx.apply(opeq, [43, A, B, C])
            got = [lexed(clo, s) for s in ("+=x", "++x", "+x", "+", "-+", "")]
            want = [("PlusEquals", "x"), ("PlusPlus", "x"), ("Plus", "x"), ("Plus", ""), "Err", "Err"]
            clo2 = ipx.apply(opeq, [43, A, EOF, EOF])
            got2 = [lexed(clo2, s) for s in ("+=", "++")]
            want2 = [("Plus", "="), ("Plus", "+")]
            ok = got == want and got2 == want2
        except (I.Unknown, KeyError, TypeError, AttributeError, IndexError):
            pass
        chk.ob("C09.lexer/maximal-munch", ok, "symbol_op_or_op_equals tries `c=` and `cc` before `c`" if ok else
               "symbol_op_or_op_equals no longer tries the two-character forms before the one-character form",
               where(opeq))
        # angle brackets are single-character tokens carrying FollowedBy
        for name, chx, tok in (("leftanglebracket", "<", "LeftAngleBracket"), ("rightanglebracket", ">", "RightAngleBracket")):
            fn = chk.anchor("C09.anchor/" + name, f.fn(name, "rssl_preprocess"), "lexer %s handler" % chx)
            if fn:
                ctors = {a.get("variant") for a in F.exprs(fn["thir"], "Adt") if short(a["adt"]) == "Token"}
                bytes_ = {p.get("v") for p in F.walk(fn["thir"]) if p.get("k") == "Const" and p.get("ty") == "u8"}
                if ctors == {tok} and ord(chx) in bytes_:
                    self.table[chx] = tok
                else:
                    chk.ob("C09.lexer/" + name, False, "%s no longer maps %r to Token::%s only" % (name, chx, tok), where(fn))

    def lex(self, text):
        """Maximal munch over the symbol table. Returns [(token, FollowedBy or None)] or None."""
        toks = []
        i = 0
        maxlen = max(len(k) for k in self.table)
        while i < len(text):
            if text[i] == " ":
                i += 1
                if toks and toks[-1][1] == "?":
                    toks[-1] = (toks[-1][0], "Whitespace")
                continue
            for ln in range(maxlen, 0, -1):
                t = self.table.get(text[i:i + ln])
                if t:
                    break
            else:
                return None
            if toks and toks[-1][1] == "?":
                toks[-1] = (toks[-1][0], "Token")
            toks.append((t, "?" if t in ("LeftAngleBracket", "RightAngleBracket") else None))
            i += ln
        return toks


# ------------------------------------------------------------------ parser side

def returns_expr(b):
    return "Located<rssl_ast::ast_expressions::Expression>)" in b.get("ret", "") and b.get("ret", "").startswith("core::result::Result<(")


class Parser:
    def __init__(self, chk):
        f = chk.facts
        self.facts = f
        self.chk = chk
        top_entry = chk.anchor("C09.anchor/parse_expression_internal", f.fn("parse_expression_internal", PAR), "parser expression entry")
        fold = f.fn("parse_binary_operations_st", PAR)
        fold2 = f.fn("parse_binary_operations", PAR)
        comb = f.fn("combine_rights", PAR)
        chk.anchor("C09.anchor/parse_binary_operations", fold and fold2 and comb, "left-fold combinators")
        if not (top_entry and fold and fold2 and comb):
            raise Missing("parser anchors")
        self.fold_paths = {fold["path"], fold2["path"]}
        self.exprfns = {b["path"]: b for b in f.crates[PAR]["bodies"] if b["kind"] in ("Fn", "AssocFn") and returns_expr(b)}
        # top level = the expression function the entry calls
        tops = [c.get("fn") for c in F.exprs(top_entry["thir"], "Call") if c.get("fn") in self.exprfns]
        if len(set(tops)) != 1:
            raise Missing("top level function")
        self._check_fold(fold, fold2, comb)
        self.chain = []          # from loosest to tightest
        self.info = {}           # path -> dict(kind='fold'|'custom', next, ops)
        cur = tops[0]
        seen = set()
        while cur and cur not in seen:
            seen.add(cur)
            self.chain.append(cur)
            cur = self._analyse_level(cur)
        self.level = {p: len(self.chain) - 1 - i for i, p in enumerate(self.chain)}  # leaf = 0
        self._node_levels()

    def family(self, path):
        """A level function plus the fns / closures nested in it."""
        return [b for b in self.facts.bodies.values() if b["path"] == path or b["path"].startswith(path + "::")
                or b.get("parent") == path]

    def _check_fold(self, fold, fold2, comb):
        tr = TF.Tracer(self.facts, max_depth=2)
        ok_l = ok_r = False
        for a in F.exprs(comb["thir"], "Adt"):
            if short(a["adt"]) == "Expression" and a.get("variant") == "BinaryOperation":
                fl = {x["f"]: x["e"] for x in a["fields"]}
                o1 = tr.trace(comb, fl["1"], ())
                o2 = tr.trace(comb, fl["2"], ())
                ok_l = any(o[0] == "param" and o[2] == 0 for o in o1) and any(o[0] == "ctor" for o in o1)
                ok_r = all(o[0] in ("param", "call") for o in o2) and not any(o[0] == "param" and o[2] == 0 for o in o2)
        if not (ok_l and ok_r):
            # the same fold written with Iterator::fold: init = the left operand, closure builds (accumulator, element)
            for c in F.exprs(comb["thir"], "Call"):
                if short(c.get("fn") or "") != "fold" or len(c.get("args", [])) < 3:
                    continue
                init = tr.trace(comb, c["args"][1], ())
                recv = F.strip(c["args"][0])
                forward = not any(short(x.get("fn") or "") in ("rev", "skip", "take", "step_by", "filter") for x in F.exprs(c["args"][0], "Call"))
                clo = F.strip(c["args"][2])
                cb = self.facts.bodies.get(clo.get("path")) if clo.get("k") == "Closure" else None
                if not cb or not forward or not (init and all(o[0] == "param" and o[2] == 0 for o in init)):
                    continue
                cps = cb.get("params", [])[1:]
                if len(cps) != 2:
                    continue
                acc_ids = {i for i, n_, p_ in F.pat_binds(cps[0].get("pat", {}))}
                el_ids = {i for i, n_, p_ in F.pat_binds(cps[1].get("pat", {}))}
                for a in F.exprs(cb["thir"], "Adt"):
                    if short(a["adt"]) == "Expression" and a.get("variant") == "BinaryOperation":
                        fl = {x["f"]: x["e"] for x in a["fields"]}
                        v1 = {v["id"] for v in F.exprs(fl["1"], "Var")}
                        v2 = {v["id"] for v in F.exprs(fl["2"], "Var")}
                        ok_l = bool(v1) and v1 <= acc_ids
                        ok_r = bool(v2) and v2 <= el_ids
        self.chk.ob("C09.assoc/left-fold", ok_l and ok_r,
                    "combine_rights folds to the left: the accumulated expression is the left child, each parsed right operand the right child"
                    if ok_l and ok_r else "combine_rights no longer builds a left-leaning tree", where(comb))
        # parse_binary_operations_st must parse the first operand and every right operand with expression_fn (param 1)
        n = 0
        for c in F.exprs(fold["thir"], "Call"):
            if (c.get("fn") or "").startswith("core::ops::function::Fn") and c.get("args"):
                org = tr.trace(fold, c["args"][0], ())
                if org and all(o[0] == "param" and o[2] == 1 for o in org):
                    n += 1
        self.chk.ob("C09.assoc/fold-operands", n >= 2, "parse_binary_operations_st parses the left and each right operand with the next level"
                    if n >= 2 else "parse_binary_operations_st no longer parses both operands with expression_fn", where(fold))

    def _analyse_level(self, path):
        fam = self.family(path)
        main = self.facts.bodies[path]
        info = {"kind": None, "next": None, "ops": {}, "opfn": None}
        self.info[path] = info
        for c in F.exprs(main["thir"], "Call"):
            if c.get("fn") in self.fold_paths:
                refs = [F.strip(a) for a in c["args"]]
                fnrefs = [r for r in refs if r.get("k") == "FnRef"]
                if len(fnrefs) >= 2:
                    info["kind"] = "fold"
                    info["opfn"] = fnrefs[0]["fn"]
                    info["next"] = fnrefs[1]["fn"]
                    return info["next"] if info["next"] in self.exprfns else None
        info["kind"] = "custom"
        # fall-through: the expression function whose result is returned unchanged
        tr = TF.Tracer(self.facts, max_depth=6, inline=lambda p: p not in self.exprfns or p.startswith(path + "::"))
        nxt = set()
        for r in tr.returns(main):
            for o in tr.trace(main, r, (("v", "Result", "Ok", "0"), ("f", "1"))):
                if o[0] == "call" and o[1] in self.exprfns and o[1] != path and not o[1].startswith(path + "::") \
                        and o[2] == (("v", "Result", "Ok", "0"), ("f", "1")):
                    nxt.add(o[1])
        info["tracer"] = tr
        if len(nxt) == 1:
            info["next"] = nxt.pop()
            return info["next"]
        return None

    def _entry_level(self, fam_path, callee, ln):
        """Level of a child parsed through the expression entry point: the top level, or one below it
        when the call disables the comma operator (Terminator::Sequence / TypeList)."""
        top = len(self.chain) - 1
        res = set()
        for b in self.family(fam_path):
            if "thir" not in b:
                continue
            for c in F.exprs(b["thir"], "Call"):
                if c.get("fn") == callee and (ln is None or c.get("ln") == ln):
                    terms = [F.adt_ctor(a) for a in c["args"]]
                    terms = [x[1] for x in terms if x and x[0] == "Terminator"]
                    res.add(top - 1 if terms and terms[0] in ("Sequence", "TypeList") else top)
        return min(res) if res else top

    def list_level(self, kind):
        """Level at which elements of a list-valued child (call arguments) are parsed."""
        node = self.nodes.get(kind)
        if not node:
            return None
        fam = node["fn"]
        for p in self.chain:
            if fam == p or fam.startswith(p + "::"):
                fam = p
        entry = [c.get("fn") for b in self.family(fam) if "thir" in b for c in F.exprs(b["thir"], "Call")
                 if c.get("fn") in self.exprfns and c.get("fn") not in self.level]
        if not entry:
            return None
        return self._entry_level(fam, entry[0], None)

    def _node_levels(self):
        """kind -> {'level': L, 'pos': {field: level}}."""
        self.nodes = {}
        self.tokens_of = {}   # level path -> [(token patterns, BinOp)] in arm order, for optext
        f = self.facts
        for path in self.chain:
            info = self.info[path]
            L = self.level[path]
            if info["kind"] == "fold":
                opfn = f.bodies.get(info["opfn"])
                if opfn is None:
                    raise Missing("operator parser of " + path)
                ops = sorted({a["variant"] for a in F.exprs(opfn["thir"], "Adt") if short(a["adt"]) == "BinOp"})
                nl = self.level.get(info["next"])
                for op in ops:
                    self.nodes[("BinaryOperation", op)] = {"level": L, "pos": {"1": L, "2": nl}, "fn": path}
                continue
            tr = info.get("tracer")
            for b in self.family(path):
                if "thir" not in b:
                    continue
                for a in F.exprs(b["thir"], "Adt"):
                    if short(a["adt"]) != "Expression":
                        continue
                    var = a["variant"]
                    fields = {x["f"]: x["e"] for x in a["fields"]}
                    pos = {}
                    ops = [None]
                    for fname, fe in fields.items():
                        ty = fe.get("ty", "")
                        if "Located<rssl_ast::ast_expressions::Expression>" in ty and "Vec<" not in ty:
                            org = tr.trace(b, fe, ())
                            lv = set()
                            for o in org:
                                if o[0] == "call" and o[1] in self.level:
                                    lv.add(self.level[o[1]])
                                elif o[0] == "call" and o[1] in self.exprfns:
                                    lv.add(self._entry_level(path, o[1], o[3]))
                                elif o[0] == "ctor" and o[1] == "Located":
                                    lv.add(L)    # an expression built at this level (postfix chains)
                                elif o[0] == "call" and short(o[1]) in ("from_residual",):
                                    pass
                            pos[fname] = lv
                        elif ty.endswith("UnaryOp") or ty.endswith("BinOp"):
                            org = tr.trace(b, fe, ())
                            got = sorted({o[2] for o in org if o[0] == "ctor" and o[1] in ("UnaryOp", "BinOp")})
                            if got:
                                ops = got
                    for op in ops:
                        kd = (var, op)
                        ent = self.nodes.setdefault(kd, {"level": L, "pos": {}, "fn": b["path"]})
                        for k2, v2 in pos.items():
                            ent["pos"].setdefault(k2, set())
                            if isinstance(ent["pos"][k2], set):
                                ent["pos"][k2] |= v2


# ------------------------------------------------------------------ rules

def run(chk):
    f = chk.facts
    try:
        fm = Formatter(chk)
        px = Parser(chk)
        lx = Lexer(chk)
    except Missing as e:
        chk.ob("C09.anchor/extraction", False, "anchor-missing: %s" % e, "rssl_formatter / rssl_parser")
        return
    except I.Unknown as e:
        chk.ob("C09.anchor/extraction", False, "anchor-missing (table not readable as a finite map): %s" % e, "rssl_formatter")
        return

    chk.floor("C09.floor/levels", len(px.chain), 16, "parser level chain (expr_p15 .. expr_p1, expr_leaf)")
    chk.floor("C09.floor/kinds", len([k for k in fm.kinds if fm.prec.get(k) is not None]), 48, "printable expression node kinds")
    chk.note("parser level chain: " + " > ".join(short(p) for p in px.chain))

    rule_total(chk, fm)
    rule_paren(chk, fm, px)
    rule_contexts(chk, fm, px, lx)
    rule_stmt_roundtrip(chk)
    rule_decl_roundtrip(chk)
    rule_optext(chk, fm, px, lx)
    rule_adj(chk, fm, px, lx)
    rule_literals(chk, fm)
    import semmodel
    semmodel.rule_roundtrip(chk, "C09.semantic")


def rule_total(chk, fm):
    f = chk.facts
    # every Expression variant has an explicit printer arm (no catch-all), same for statements
    for fn_name, adt_name, adt_crate in (("format_subexpression", "ast_expressions::Expression", "rssl_ast"),
                                          ("format_statement", "ast_statements::StatementKind", "rssl_ast"),
                                          ("format_literal", "ast_expressions::Literal", "rssl_ast")):
        fn = f.fn(fn_name, FMT)
        vs = f.variants(adt_name, adt_crate)
        if not fn or not vs:
            chk.ob("C09.total/" + fn_name, False, "anchor-missing: %s or %s" % (fn_name, adt_name), FMT)
            continue
        ms = [m for m in F.find_matches(fn, adt_name.split("::")[-1])]
        if not ms:
            chk.ob("C09.total/" + fn_name, False, "anchor-missing: match over %s in %s" % (adt_name, fn_name), where(fn))
            continue
        m = max(ms, key=lambda m: len(m["arms"]))
        covered = set()
        catchall = False
        for arm in m["arms"]:
            for alt in F.pat_alternatives(arm["pat"]):
                pv = F.pat_variant(alt)
                if pv:
                    covered.add(pv[1])
                elif F.pat_is_catchall(alt):
                    catchall = True
        for v in vs:
            chk.ob("C09.total/%s/%s" % (fn_name, v), v in covered,
                   "printer arm present" if v in covered else
                   "%s has no explicit arm for %s (%s)" % (fn_name, v, "falls into a catch-all" if catchall else "missing"),
                   where(fn, m), sample={"variant": v})


def rule_paren(chk, fm, px):
    """For every (parent kind, child position, child kind): unparenthesised => parser admits it."""
    sub = fm.sub_fn
    for parent in fm.kinds:
        pprec = fm.prec.get(parent)
        if pprec is None:
            continue
        fpos = fm.positions.get(parent)
        pnode = px.nodes.get(parent)
        if fpos is None:
            chk.ob("C09.paren/" + kname(parent), False, "anchor-missing: no printer arm events for this node kind", where(sub))
            continue
        for field, (outer, side) in sorted(fpos.items(), key=lambda x: str(x[0])):
            if field is None or side == "?" or outer == "?":
                chk.ob("C09.sides/%s.%s" % (kname(parent), field), False,
                       "cannot read which child / precedence / side this recursive call prints", where(sub))
                continue
            if str(field).endswith("[]"):
                ll = px.list_level(parent)
                if ll is None:
                    chk.ob("C09.paren/%s.%s" % (kname(parent), field), False,
                           "cannot find the level at which the parser parses the elements of this list", where(sub))
                    continue
                plevels = {ll}
            else:
                if pnode is None:
                    chk.ob("C09.paren/%s.%s" % (kname(parent), field), False,
                           "the parser never constructs this node kind (no production found)", where(sub))
                    continue
                pl = pnode["pos"].get(str(field))
                if pl is None or pl == set():
                    chk.ob("C09.paren/%s.%s" % (kname(parent), field), False,
                           "cannot find the level at which the parser parses this child", px.facts.bodies[pnode["fn"]]["file"])
                    continue
                plevels = pl if isinstance(pl, set) else {pl}
            o = pprec if outer == "self" else outer
            side_label = side if not isinstance(side, tuple) else "chosen by %s" % short(side[1])
            groups = {}
            for child in fm.kinds:
                cprec = fm.prec.get(child)
                cnode = px.nodes.get(child)
                if cprec is None:
                    continue
                try:
                    o, side_c = fm.resolve(pprec, child, outer, side)
                    paren = fm.needs_paren(child, o, side_c)
                except I.Unknown as e:
                    chk.ob("C09.paren/%s.%s" % (kname(parent), field), False, "paren rule not readable: %s" % e, where(sub))
                    break
                if paren:
                    continue
                if cnode is None:
                    clevel = 0 if child[0] in ("Literal", "Identifier") else None
                    if clevel is None:
                        continue
                else:
                    clevel = cnode["level"]
                admits = clevel <= max(plevels)
                gk = "%s@%s" % (child[0], short(px.chain[len(px.chain) - 1 - clevel]))
                groups.setdefault(gk, []).append((child, admits))
            for gk, items in sorted(groups.items()):
                bad = [kname(c) for c, a in items if not a]
                lv = sorted(str(x) for x in plevels)
                chk.ob("C09.paren/%s.%s/%s" % (kname(parent), field, gk), not bad,
                       ("printed without parentheses and parsed at level<=%s" % ",".join(lv)) if not bad else
                       "child %s is printed without parentheses at position %s of %s (outer precedence %s, side %s) "
                       "but the parser parses that position at level %s < the child's level: the text re-groups or is rejected"
                       % (", ".join(bad[:4]) + ("…" if len(bad) > 4 else ""), field, kname(parent), o, side_label, ",".join(lv)),
                       where(sub), sample={"parent": kname(parent), "field": field, "outer": o, "side": side_label,
                                           "child_group": gk, "parser_levels": lv})


# printer function -> parser functions that read the same expression (confirmed by reading both sides)
CONTEXTS = {
    "format_initializer_inner": ("initialiser", ["init_expr"]),
    "format_attribute": ("attribute argument", ["parse_attribute_base"]),
    "format_function_param": ("default argument", ["parse_function_param"]),
    "format_declarator": ("array size", ["parse_arraydim"]),
    "format_expression_or_type": ("template argument", ["parse_expression_or_type_with_or_without_symbols"]),
    "format_enum": ("enum value", ["parse_enum_value"]),
    "format_statement": ("statement", ["parse_statement_kind", "expr_statement"]),
    "format_for_init": ("for-init", ["parse_init_statement"]),
}


def op_parsers(px, lv):
    """The operator parsers of one level of the chain: functions of the parser crate that take the tokens (and the symbol
    table) and return a BinOp, nested in the level function or called / passed along by it (its family)."""
    f = px.facts
    out = []
    for b in f.crates[PAR]["bodies"]:
        if b["kind"] == "Fn" and "thir" in b and "BinOp)" in b.get("ret", "") and len(b.get("params") or []) in (1, 2) and b["path"].startswith(lv + "::"):
            out.append(b)
    info = px.info.get(lv) or {}
    cands = [f.bodies.get(info["opfn"])] if info.get("kind") == "fold" and info.get("opfn") else list(px.family(lv))
    for b in cands:
        if b is not None and b["kind"] == "Fn" and "thir" in b and "BinOp)" in b.get("ret", "") and len(b.get("params") or []) in (1, 2) and b not in out:
            out.append(b)
    return out


def terminator_exclusions(px, fm, lx):
    """Terminator variant -> operators the parser does not read while that terminator is in force. Every operator
    parser of the level chain (functions of rssl_parser that take the tokens and the symbol table and return a BinOp)
    is evaluated by the reader on the lexed spelling of every binary operator, once per Terminator variant; an operator
    read under Terminator::Standard but not under V is switched off by V. None when that is not readable."""
    f = px.facts
    terms = f.variants("Terminator", PAR)
    if not terms or "Standard" not in terms:
        return None
    parsers = [b for lv in px.chain for b in op_parsers(px, lv)]
    if not parsers:
        return None
    ip = I.Interp(f, max_depth=5)

    def tok(k, fb):
        return I.Enum("LexToken", None, {"0": I.Enum("Token", k, {} if fb is None else {"0": I.Enum("FollowedBy", fb)}), "1": I.Opaque("location")})
    excl = {t: set() for t in terms}
    seen = set()
    for kd in fm.kinds:
        if kd[0] != "BinaryOperation":
            continue
        text = fm.bin_text.get(kd[1]) if hasattr(fm, "bin_text") else None
        lt = lx.lex((text or "") + " ") if text else None
        if not lt:
            continue
        toks = [tok(k, fb) for k, fb in lt] + [tok("Id", None)]
        for b in parsers:
            res = {}
            for t in terms:
                try:
                    r = ip.apply(b, [list(toks), I.Enum("SymbolTable", None, {"terminator": I.Enum("Terminator", t)})][:len(b["params"])])
                except I.Unknown:
                    return None
                ok = isinstance(r, I.Enum) and r.variant == "Ok"
                res[t] = r.fields["0"][1].variant if ok and isinstance(r.fields["0"], tuple) and isinstance(r.fields["0"][1], I.Enum) else None
            std = res.get("Standard")
            if std is None:
                continue
            seen.add(std)
            for t in terms:
                if res[t] != std:
                    excl[t].add(std)
    if len(seen) < 15:
        return None
    return excl


def rule_contexts(chk, fm, px, lx):
    """Expressions printed outside an expression (initialisers, default arguments, attribute arguments, array sizes,
    template arguments, enum values, statements): the parser reads each of these places under a terminator that
    switches some operators off (a comma ends an initialiser; > ends a template argument list). Every node kind that
    could show such an operator at its top level must come out of the printer in parentheses there."""
    f = chk.facts
    excl = terminator_exclusions(px, fm, lx)
    if excl is None:
        chk.unreadable("C09.context/terminators", "the parser's operator tables under each Terminator", "an operator parser of the level chain is not readable", PAR)
        return

    def wrapper_terminator(path, depth=0):
        b = f.bodies.get(path)
        if b is None or "thir" not in b or depth > 2:
            return None
        out = set()
        for c in F.exprs(b["thir"], "Call"):
            if c.get("fn") not in px.exprfns:
                continue
            t = [x[1] for x in (F.adt_ctor(F.strip(a)) for a in c.get("args", [])) if x and x[0] == "Terminator"]
            if t:
                out.add(t[0])
            else:
                w = wrapper_terminator(c["fn"], depth + 1)
                if w:
                    out |= w
        return out or None
    n_ctx = 0
    for ffn, (what, pfns) in sorted(CONTEXTS.items()):
        fb = f.fn(ffn, FMT)
        pbs = [b for b in f.crates[PAR]["bodies"] if b["kind"] in ("Fn", "AssocFn") and b["name"] in pfns]
        if not fb or not pbs:
            continue        # (a renamed function: the floor below speaks up when too few places are paired)
        terms = set()
        for pb in pbs:
            for b in px.family(pb["path"]):
                if "thir" not in b:
                    continue
                for c in F.exprs(b["thir"], "Call"):
                    if c.get("fn") in px.exprfns and c.get("fn") not in px.level:
                        t = [x[1] for x in (F.adt_ctor(F.strip(a)) for a in c.get("args", [])) if x and x[0] == "Terminator"]
                        terms |= set(t) if t else (wrapper_terminator(c["fn"]) or set())
        sites = []
        for c in F.exprs(fb["thir"], "Call"):
            if c.get("fn") == fm.sub_fn["path"]:
                try:
                    outer = fm.ip.ev(c["args"][1], {}, 0)
                except I.Unknown:
                    outer = None
                sd = F.adt_ctor(c["args"][2])
                sites.append((c, outer, sd[1] if sd else None))
            else:
                w = fm._wrapper(c.get("fn") or "")
                if w:
                    sites.append((c, w[0], w[1]))
        if not terms or not sites:
            continue
        n_ctx += 1
        off = set()
        for t in terms:
            off |= excl.get(t, set())
        offk = [k for k in fm.kinds if k[0] == "BinaryOperation" and kname(k).split("::")[-1] in off and fm.prec.get(k) is not None]
        if off and not offk:
            chk.unreadable("C09.context/" + ffn, "the operators switched off for a %s" % what, "none of %s is a printable node kind" % sorted(off), where(fb))
            continue
        minprec = min(fm.prec[k] for k in offk) if offk else None
        bad = []
        for c, outer, side in sites:
            if not isinstance(outer, int) or side is None:
                chk.unreadable("C09.context/" + ffn, "the level at which a %s is printed" % what, "outer precedence / side are not constants", where(fb, c))
                bad = None
                break
            for k in fm.kinds:
                if minprec is None or fm.prec.get(k) is None or fm.prec[k] < minprec:
                    continue
                try:
                    if not fm.needs_paren(k, outer, side):
                        bad.append(kname(k))
                except I.Unknown as e:
                    chk.unreadable("C09.context/" + ffn, "the parenthesis rule", str(e), where(fm.sub_fn))
                    bad = None
                    break
            if bad is None:
                break
        if bad is None:
            continue
        bad = sorted(set(bad))
        chk.ob("C09.context/" + ffn, not bad,
               "a %s is read with terminator %s (%s switched off); %d print site(s) parenthesise every node kind that could show one of them" % (what, "/".join(sorted(terms)), ", ".join(sorted(off)) or "nothing", len(sites))
               if not bad else "%s prints a %s without parentheses around %s, but the parser reads a %s with %s switched off (terminator %s): the text is read back as something else or rejected "
               "(`int a = (x, y);` comes out as `int a = x, y;`)" % (ffn, what, ", ".join(bad[:4]) + ("…" if len(bad) > 4 else ""), what, ", ".join(sorted(off)), "/".join(sorted(terms))),
               where(fb, sites[0][0]), sample={"printer": ffn, "parser": pfns, "terminators": sorted(terms), "off": sorted(off), "sites": len(sites)})
    chk.floor("C09.floor/contexts", n_ctx, 7, "places outside an expression where printer and parser were paired")


def rule_stmt_roundtrip(chk, prefix="C09.stmt"):
    """Statements: format_statement is walked by the reader on model statement trees (every statement kind; all eight
    shapes of a for header; labels, blocks and nested conditionals as the exporters and the parser build them), the text
    is cut into tokens, and the parser's parse_statement is walked on those tokens: the tree that comes back must be the
    tree that was printed. Expressions and variable definitions are opaque tags on both sides (they are the subject of
    the expression rules); nothing is executed."""
    import re
    f = chk.facts
    fs = f.fn("format_statement", FMT)
    ps = f.fn("parse_statement", PAR)
    if not fs or not ps:
        chk.unreadable(prefix + "/readable", "format_statement / parse_statement", "function not found", FMT)
        return
    opt = lambda v: I.Enum("Option", "None") if v is None else I.Enum("Option", "Some", {"0": v})
    ok = lambda v: I.Enum("Result", "Ok", {"0": v})
    loc = lambda v: I.Enum("Located", None, {"node": v, "location": I.Opaque("location")})
    E = lambda t: loc(I.Enum("Expression", "Tagged", {"tag": t}))
    V = lambda t: I.Enum("VarDef", "Tagged", {"tag": t})

    def S(kind, *a):
        return I.Enum("Statement", None, {"kind": I.Enum("StatementKind", kind, {str(i): v for i, v in enumerate(a)}), "location": I.Opaque("location"), "attributes": []})
    leaf = lambda t: S("Expression", E(t).fields["node"])
    blk = lambda *ss: S("Block", list(ss))

    def deref(v):
        return v.get() if isinstance(v, I.Ref) else v

    def emit(tag_of):
        def fn(a):
            e = deref(a[0])
            if isinstance(e, I.Enum) and e.adt == "Located":
                e = e.fields["node"]
            a[1].set(a[1].get() + "\u00ab%s\u00bb" % tag_of(e))
            return ok(())
        return fn
    def emit_attributes(a):
        out = [x for x in a[1:] if isinstance(x, I.Ref) and isinstance(x.get(), str)][0]
        for at in deref(a[0]):
            out.set(out.get() + "\u00ab%s\u00bb " % deref(at).fields["tag"])
        return ok(())
    AT = lambda t: I.Enum("Attribute", "Tagged", {"tag": "A" + t})

    def WA(st, *tags):
        """the statement with attributes (opaque tags `A..` on both sides)"""
        st.fields["attributes"] = [AT(t) for t in tags]
        return st
    fext = {"format_expression": emit(lambda e: e.fields["tag"]), "format_variable_definition": emit(lambda e: e.fields["tag"]), "format_attributes": emit_attributes}
    KW = {"if": "If", "else": "Else", "for": "For", "while": "While", "do": "Do", "switch": "Switch", "break": "Break", "continue": "Continue", "discard": "Discard",
          "return": "Return", "case": "Case", "default": "Default"}
    PU = {"(": "LeftParen", ")": "RightParen", ";": "Semicolon", ":": "Colon", "{": "LeftBrace", "}": "RightBrace"}
    tk = lambda k, v=None: I.Enum("LexToken", None, {"0": I.Enum("Token", k, {} if v is None else {"0": v}), "1": I.Opaque("location")})

    def lex(text):
        toks, pos = [], 0
        for m in re.finditer(r"\u00ab(\w+)\u00bb|(\w+)|([(){};:])|\s+", text):
            if m.start() != pos:
                return None
            pos = m.end()
            if m.group(1):
                toks.append(tk("Id", I.Enum("Identifier", None, {"0": m.group(1)})))
            elif m.group(2):
                if m.group(2) not in KW:
                    return None
                toks.append(tk(KW[m.group(2)]))
            elif m.group(3):
                toks.append(tk(PU[m.group(3)]))
        return toks + [tk("Eof")] if pos == len(text) else None

    def fail(inp):
        return I.Enum("Result", "Err", {"0": I.Enum("ParseErrorContext", None, {"0": inp, "1": len(inp), "2": I.Enum("ParseErrorReason", "WrongToken")})})

    def consume(pred, build):
        def fn(a):
            inp = deref(a[0])
            if inp and inp[0].fields["0"].variant == "Id" and pred(inp[0].fields["0"].fields["0"].fields["0"]):
                return ok((list(inp[1:]), build(inp[0].fields["0"].fields["0"].fields["0"])))
            return fail(inp)
        return fn
    pext = {"parse_expression": consume(lambda t: not t.startswith(("v", "A")), E), "parse_vardef": consume(lambda t: t.startswith("v"), V),
            "parse_attribute": consume(lambda t: t.startswith("A"), lambda t: I.Enum("Attribute", "Tagged", {"tag": t}))}

    def norm(v):
        if isinstance(v, I.Enum):
            if v.adt == "Located":
                return norm(v.fields["node"])
            return (v.adt, v.variant, tuple((k, norm(x)) for k, x in sorted(v.fields.items()) if k != "location"))
        if isinstance(v, (list, tuple)):
            return tuple(norm(x) for x in v)
        return "opaque" if isinstance(v, I.Opaque) else v
    init_e, init_v, init_0 = I.Enum("InitStatement", "Expression", {"0": E("i")}), I.Enum("InitStatement", "Declaration", {"0": V("vi")}), I.Enum("InitStatement", "Empty")
    cases = {"Empty": [S("Empty")], "Expression": [leaf("e")], "Var": [S("Var", V("v"))],
             "Block": [blk(), blk(leaf("x"), S("Empty"), S("Var", V("v")), blk(leaf("y")))],
             "If": [S("If", E("c"), leaf("t")), S("If", E("c"), blk(leaf("t"))), S("If", E("c"), blk(S("If", E("d"), leaf("t")))), S("If", E("c"), S("IfElse", E("d"), leaf("t"), leaf("f")))],
             "IfElse": [S("IfElse", E("c"), leaf("t"), leaf("f")), S("IfElse", E("c"), blk(S("If", E("d"), leaf("t"))), blk(leaf("f"))),
                        S("IfElse", E("c"), blk(leaf("t")), S("IfElse", E("d"), blk(leaf("u")), blk(leaf("f")))), S("IfElse", E("c"), leaf("t"), S("If", E("d"), leaf("u")))],
             "For": [S("For", i_, opt(E("c")) if c_ else opt(None), opt(E("n")) if n_ else opt(None), b_) for i_ in (init_0, init_e, init_v) for c_ in (0, 1) for n_ in (0, 1)
                     for b_ in (leaf("b"),)] + [S("For", init_v, opt(E("c")), opt(E("n")), blk(leaf("b"), S("Continue")))],
             "While": [S("While", E("c"), leaf("b")), S("While", E("c"), blk(leaf("b"), S("Break")))],
             "DoWhile": [S("DoWhile", leaf("b"), E("c")), S("DoWhile", blk(leaf("b")), E("c")), S("DoWhile", blk(S("DoWhile", blk(leaf("b")), E("d"))), E("c"))],
             "Switch": [S("Switch", E("c"), blk(S("CaseLabel", E("k"), leaf("x")), S("Break"), S("CaseLabel", E("j"), S("CaseLabel", E("m"), S("Empty"))), S("DefaultLabel", S("Break"))))],
             "Break": [S("Break"), WA(S("Break"), "x")], "Continue": [S("Continue")], "Discard": [S("Discard")], "Return": [S("Return", opt(E("r"))), S("Return", opt(None))],
             "CaseLabel": [S("CaseLabel", E("k"), leaf("x")), S("CaseLabel", E("k"), S("Empty"))], "DefaultLabel": [S("DefaultLabel", leaf("x")), S("DefaultLabel", S("Empty"))]}
    cases["If"] += [WA(S("If", E("c"), blk(leaf("t"))), "branch"), S("If", E("c"), WA(S("While", E("d"), leaf("b")), "loop")), S("If", E("c"), blk(WA(leaf("t"), "a"), WA(S("If", E("d"), leaf("u")), "flatten")))]
    cases["IfElse"] += [S("IfElse", E("c"), blk(leaf("t")), WA(S("If", E("d"), blk(leaf("u"))), "flatten")), WA(S("IfElse", E("c"), blk(leaf("t")), WA(S("IfElse", E("d"), blk(leaf("u")), WA(S("If", E("e"), blk(leaf("w"))), "flatten")), "branch")), "branch"),
                        S("IfElse", E("c"), WA(leaf("t"), "a"), WA(blk(leaf("f")), "b"))]
    cases["For"] += [WA(S("For", init_v, opt(E("c")), opt(E("n")), WA(blk(leaf("b")), "inner")), "unroll")]
    cases["While"] += [WA(S("While", E("c"), WA(leaf("b"), "a")), "loop")]
    cases["DoWhile"] += [WA(S("DoWhile", WA(blk(leaf("b")), "a"), E("c")), "loop")]
    cases["Switch"] += [WA(S("Switch", E("c"), blk(S("CaseLabel", E("k"), WA(leaf("x"), "a")), S("Break"))), "forcecase")]
    cases["Block"] += [blk(WA(leaf("x"), "a", "b"), WA(S("Var", V("v")), "c"), WA(blk(), "d"))]
    kinds = f.variants("ast_statements::StatementKind", "rssl_ast") or []
    n = 0
    for k in kinds:
        if k == "AmbiguousDeclarationOrExpression":
            continue        # not printable (the formatter refuses it: C09.total)
        if k not in cases:
            chk.unreadable("%s/%s" % (prefix, k), "statement kind %s" % k, "a statement kind the model has no case for", where(fs))
            continue
        bad = None
        for st in cases[k]:
            env = {"out": ""}
            try:
                r = I.Interp(f, max_depth=14, extern=fext).apply(fs, [st, I.Ref(env, "out"), I.Enum("FormatContext", None, {"indent": 0, "target": I.Enum("Target", "Hlsl")})])
            except I.Unknown as e:
                if "panicking" in str(e):
                    bad = bad or "printing a %s statement aborts (%s)" % (k, str(e)[:80])
                    continue
                chk.unreadable("%s/%s" % (prefix, k), "format_statement on the statement model", str(e)[:100], where(fs))
                bad = "unreadable"
                break
            if not (isinstance(r, I.Enum) and r.variant == "Ok"):
                continue
            text = env["out"]
            flat = " ".join(text.split())
            toks = lex(text)
            if toks is None:
                bad = bad or "a %s statement is printed as `%s`, which contains text that is neither a keyword, punctuation nor a printed part" % (k, flat)
                continue
            try:
                r2 = I.Interp(f, max_depth=16, extern=pext).apply(ps, [toks])
            except I.Unknown as e:
                if "panicking" in str(e):
                    bad = bad or "the text `%s` of a %s statement aborts the parser (%s)" % (flat, k, str(e)[:80])
                    continue
                chk.unreadable("%s/%s" % (prefix, k), "parse_statement on the printed tokens", str(e)[:100], where(ps))
                bad = "unreadable"
                break
            n += 1
            if not (isinstance(r2, I.Enum) and r2.variant == "Ok"):
                bad = bad or "a %s statement is printed as `%s`, which the parser rejects" % (k, flat)
                continue
            rest, st2 = r2.fields["0"]
            if len(rest) != 1:
                bad = bad or "a %s statement is printed as `%s`; the parser reads only a prefix of it as a statement" % (k, flat)
            elif norm(st2) != norm(st):
                k2 = st2.fields["kind"].variant if isinstance(st2, I.Enum) and isinstance(st2.fields.get("kind"), I.Enum) else "?"
                bad = bad or "a %s statement is printed as `%s`, which reads back as a different tree (a %s statement%s)" % (
                    k, flat, k2, " whose parts moved" if k2 == k else "")
        if bad != "unreadable":
            chk.ob("%s/%s" % (prefix, k), bad is None, bad or "%d tree(s) print and read back unchanged" % len(cases[k]), where(fs), sample={"kind": k, "trees": len(cases[k])})
    chk.floor(prefix.split(".")[0] + ".floor/statement-roundtrips", n, 40, "statement trees printed and read back", where(fs))


def rule_decl_roundtrip(chk, prefix="C09.decl"):
    """Declarations: print o parse is the identity (ppmodel.py) for function parameters (annotations x default value),
    variable definitions (one or two declarators, annotations, expression / aggregate initialisers), global variables,
    enums, structs, constant buffers and function definitions (return annotations, parameter lists, prototype / empty /
    non-empty body). Types, declarators, expressions and annotations are opaque on both sides."""
    import ppmodel as PP
    f = chk.facts
    opt, loc, T, D, E, A = PP.opt, PP.loc, PP.T, PP.D, PP.E, PP.A

    def idecl(d, anns=(), init=None):
        return I.Enum("InitDeclarator", None, {"declarator": D(d), "location_annotations": list(anns), "init": opt(init)})
    iexpr = lambda t: I.Enum("Initializer", "Expression", {"0": loc(E(t))})
    iagg = lambda *xs: I.Enum("Initializer", "Aggregate", {"0": list(xs)})
    tpl = I.Enum("TemplateParamList", None, {"0": []})

    def stmt(kind, *a):
        return I.Enum("Statement", None, {"kind": I.Enum("StatementKind", kind, {str(i): v for i, v in enumerate(a)}), "location": I.Opaque("location"), "attributes": []})

    def param(t, d, anns=(), de=None):
        return I.Enum("FunctionParam", None, {"param_type": T(t), "declarator": D(d), "location_annotations": list(anns), "default_expr": opt(de)})
    two_params = [param("float", "x", [A("p")], E("d")), param("int", "y")]
    cases = {
        "function-parameter": ("format_function_param", "parse_function_param",
                               [param("float", "x", anns, de) for anns in ([], [A("pos")], [A("a"), A("b")]) for de in (None, E("dflt"))]),
        "variable-definition": ("format_variable_definition", "parse_vardef", [I.Enum("VarDef", None, {"local_type": T("int"), "defs": ds}) for ds in (
            [idecl("a")], [idecl("a", init=iexpr("one"))], [idecl("a", init=iagg(iexpr("x"), iagg(iexpr("y"), iexpr("z"))))], [idecl("a"), idecl("b", init=iexpr("two"))],
            [idecl("a", [A("s")], iexpr("v"))], [idecl("a", init=iexpr("one")), idecl("b"), idecl("c", init=iagg(iexpr("q")))])]),
        "global-variable": ("format_global_variable", "parse_global_variable", [I.Enum("GlobalVariable", None, {"global_type": T("tex"), "defs": ds, "attributes": []}) for ds in (
            [idecl("g")], [idecl("g", [A("reg")])], [idecl("g", [A("reg")], iexpr("i")), idecl("h")], [idecl("g"), idecl("h", [A("reg")])])]),
        "enum": ("format_enum", "parse_enum_definition", [I.Enum("EnumDefinition", None, {"name": loc("Name"), "values": vs}) for vs in (
            [], [I.Enum("EnumValue", None, {"name": loc("A"), "value": opt(None)})],
            [I.Enum("EnumValue", None, {"name": loc("A"), "value": opt(loc(E("one")))}), I.Enum("EnumValue", None, {"name": loc("B"), "value": opt(None)}),
             I.Enum("EnumValue", None, {"name": loc("C"), "value": opt(loc(E("three")))})])]),
        "struct": ("format_struct", "parse_struct_definition", [I.Enum("StructDefinition", None, {"name": loc("S"), "base_types": bs, "template_params": tpl, "members": ms}) for bs in ([], [T("Base")]) for ms in (
            [], [I.Enum("StructEntry", "Variable", {"0": I.Enum("StructMember", None, {"ty": T("float"), "defs": [idecl("m", [A("sem")])], "attributes": []})}),
                 I.Enum("StructEntry", "Variable", {"0": I.Enum("StructMember", None, {"ty": T("int"), "defs": [idecl("a"), idecl("b")], "attributes": []})})])]),
        "constant-buffer": ("format_constant_buffer", "parse_constant_buffer", [I.Enum("ConstantBuffer", None, {"name": loc("CB"), "location_annotations": anns, "members": [
            I.Enum("ConstantVariable", None, {"ty": T("float4"), "defs": [idecl("v")]}), I.Enum("ConstantVariable", None, {"ty": T("int"), "defs": [idecl("a"), idecl("b")]})], "attributes": []})
            for anns in ([], [A("reg")])]),
        "function": ("format_function", "parse_function_definition", [I.Enum("FunctionDefinition", None, {
            "name": loc("fn"), "returntype": I.Enum("FunctionReturn", None, {"return_type": T("void"), "location_annotations": ra}), "template_params": tpl, "params": ps, "is_const": False,
            "is_volatile": False, "body": body, "attributes": []}) for ra in ([], [A("target")]) for ps in ([], two_params[:1], two_params)
            for body in (opt(None), opt([]), opt([stmt("Expression", E("e")), stmt("Return", opt(loc(E("r"))))]))]),
    }
    # declarators walked for real (format_declarator / parse_declarator): the trees the parser can produce - pointers and
    # references outside, arrays around the name - alone in a declaration and next to a second declarator (the printer
    # places its spaces differently in the two cases)
    name_ = lambda s_: I.Enum("Declarator", "Identifier", {"0": I.Enum("ScopedIdentifier", None, {"base": I.Enum("ScopedIdentifierBase", "Relative"), "identifiers": [loc(s_)]}), "1": []})
    arr = lambda inner, size=None: I.Enum("Declarator", "Array", {"0": I.Enum("ArrayDeclarator", None, {"inner": inner, "array_size": opt(None if size is None else loc(E(size))), "attributes": []})})
    quals = lambda *q: I.Enum("TypeModifierSet", None, {"modifiers": [loc(I.Enum("TypeModifier", x)) for x in q]})
    ptr = lambda inner, *q: I.Enum("Declarator", "Pointer", {"0": I.Enum("PointerDeclarator", None, {"attributes": [], "qualifiers": quals(*q), "inner": inner})})
    ref = lambda inner: I.Enum("Declarator", "Reference", {"0": I.Enum("ReferenceDeclarator", None, {"attributes": [], "inner": inner})})
    rdecl = lambda d, init=None: I.Enum("InitDeclarator", None, {"declarator": d, "location_annotations": [], "init": opt(init)})
    shapes = [lambda: name_("a"), lambda: arr(name_("a")), lambda: arr(name_("a"), "n"), lambda: arr(arr(name_("a"), "n"), "m"), lambda: ptr(name_("a")), lambda: ptr(name_("a"), "Const"),
              lambda: ptr(name_("a"), "Volatile"), lambda: ptr(name_("a"), "Const", "Volatile"), lambda: ptr(ptr(name_("a"), "Const")), lambda: ptr(ptr(name_("a")), "Const"),
              lambda: ptr(arr(name_("a"), "n"), "Const"), lambda: ref(name_("a")), lambda: ref(arr(name_("a"))), lambda: ptr(ref(name_("a")), "Const")]
    cases["declarator"] = ("format_variable_definition", "parse_vardef", [I.Enum("VarDef", None, {"local_type": T("int"), "defs": ds}) for mk in shapes for ds in (
        [rdecl(mk())], [rdecl(mk(), iexpr("v"))], [rdecl(mk()), rdecl(name_("z"))], [rdecl(name_("z")), rdecl(mk(), iexpr("v"))])])
    REAL = {"declarator": ("format_declarator", "parse_declarator")}
    n = 0
    for name, (ff, pf, vals) in cases.items():
        fb, pb = f.fn(ff, PP.FMT), f.fn(pf, PP.PAR)
        if not fb or not pb:
            chk.note("%s/%s: %s or %s not found; not decided for this construct" % (prefix, name, ff, pf))
            continue
        bad = None
        unread = None
        for v in vals:
            r = PP.roundtrip(f, fb, pb, v, real=REAL.get(name, ()))
            if r[0] == "unreadable":
                unread = unread or "%s: %s" % (r[1], r[2])
                continue
            n += 1
            if r[0] == "aborts":
                bad = bad or "%s aborts (%s)" % (r[1], r[2])
            elif r[0] == "rejected":
                bad = bad or "a %s is printed as `%s`, which the parser rejects" % (name.replace("-", " "), r[1])
            elif r[0] == "prefix":
                bad = bad or "a %s is printed as `%s`; the parser reads only a prefix of it" % (name.replace("-", " "), r[1])
            elif r[0] == "differs":
                bad = bad or "a %s is printed as `%s`, which reads back as a different tree" % (name.replace("-", " "), r[1])
        if unread and not bad:
            chk.unreadable("%s/%s" % (prefix, name), "%s / %s on the declaration model" % (ff, pf), unread, where(fb))
            continue
        chk.ob("%s/%s" % (prefix, name), bad is None, bad or "%d tree(s) print and read back unchanged" % len(vals), where(fb), sample={"construct": name, "trees": len(vals)})
    chk.floor(prefix.split(".")[0] + ".floor/declaration-roundtrips", n, 40, "declarations printed and read back", FMT)


def sim_parse_op(px, toks):
    """Simulate the operator parsers from the tightest level outward on a token sequence
    followed by an operand. Returns (level path, BinOp) of the first arm that accepts."""
    f = px.facts
    seq = [t for t in toks] + [("OPERAND", None)]
    for path in reversed(px.chain):
        info = px.info[path]
        cands = []
        if info["kind"] == "fold":
            opfn = f.bodies.get(info["opfn"])
            cands = [opfn]
        else:
            cands = [b for b in px.family(path) if b["kind"] == "Fn" and "thir" in b and b.get("ret", "").endswith("BinOp), rssl_parser::parser::errors::ParseErrorContext<'_>>")]
        for opfn in cands:
            for m in F.exprs(opfn["thir"], "Match"):
                if m.get("src", "").startswith("TryDesugar"):
                    continue
                res = first_arm(m, seq)
                if res == "nomatch":
                    continue
                if res is not None:
                    return path, res
    return None, None


def tokpat(p):
    """LexToken(Token::X(sub), _) or Token::X -> (variant, followed_by or None/'_')."""
    if p.get("k") == "Leaf":
        sp = F.pat_sub(p, "0")
        if sp is None:
            return None
        return tokpat(sp)
    if p.get("k") == "Variant" and short(p["adt"]) == "Token":
        fb = None
        for s in p.get("subs", []):
            q = s["p"]
            if q.get("k") == "Variant":
                fb = q["variant"]
            else:
                fb = "_"
        return (p["variant"], fb)
    return None


def first_arm(m, seq):
    """Evaluate a `match input { [tok, tok, ..] => ..}` or `match *tok {Token::X => ..}` on seq.
    Returns BinOp name, None (arm rejects), or 'nomatch' when the match is not a token match."""
    any_tok = False
    for arm in m["arms"]:
        for alt in F.pat_alternatives(arm["pat"]):
            if alt.get("k") == "Slice":
                pre = [tokpat(q) for q in alt.get("prefix", [])]
                if any(x is None for x in pre):
                    continue
                if pre:
                    any_tok = True
                if not pre:
                    continue
                if len(pre) > len(seq):
                    continue
                ok = True
                for (pv, pfb), (tv, tfb) in zip(pre, seq):
                    if pv != tv:
                        ok = False
                        break
                    if pfb not in (None, "_") and tfb is not None and pfb != tfb:
                        ok = False
                        break
                if ok:
                    ops = [a["variant"] for a in F.exprs(arm["body"], "Adt") if short(a["adt"]) == "BinOp"]
                    return ops[0] if len(ops) == 1 else None
            else:
                tp = tokpat(alt)
                if tp is None:
                    continue
                any_tok = True
                if len(seq) >= 1 and tp[0] == seq[0][0] and len(seq) == 2:
                    ops = [a["variant"] for a in F.exprs(arm["body"], "Adt") if short(a["adt"]) == "BinOp"]
                    return ops[0] if len(ops) == 1 else None
    return None if any_tok else "nomatch"


def eval_parse_op(px, fm, lx):
    """{operator: (level, BinOp read)}: the operator parsers of the level chain (see terminator_exclusions) evaluated by the
    reader under Terminator::Standard on the lexed spelling of each binary operator followed by an operand, tightest
    level first (an inner level takes its operator before an outer one sees it). None when one is not readable."""
    f = px.facts
    by_level = {lv: op_parsers(px, lv) for lv in px.chain}
    if sum(len(v) for v in by_level.values()) < 5:
        return None
    ip = I.Interp(f, max_depth=5)

    def tok(k, fb):
        return I.Enum("LexToken", None, {"0": I.Enum("Token", k, {} if fb is None else {"0": I.Enum("FollowedBy", fb)}), "1": I.Opaque("location")})
    out = {}
    for op in fm.bi:
        text = fm.bin_text.get(op)
        lt = lx.lex(text + " ") if text else None
        if not lt:
            continue
        toks = [tok(k, fb) for k, fb in lt] + [tok("Id", None)]
        out[op] = (None, None)
        for lv in reversed(px.chain):
            hit = None
            for b in by_level[lv]:
                try:
                    r = ip.apply(b, [list(toks), I.Enum("SymbolTable", None, {"terminator": I.Enum("Terminator", "Standard")})][:len(b["params"])])
                except I.Unknown:
                    return None
                if isinstance(r, I.Enum) and r.variant == "Ok" and isinstance(r.fields["0"], tuple) and isinstance(r.fields["0"][1], I.Enum):
                    rest = r.fields["0"][0]
                    if not (isinstance(rest, list) and len(rest) == 1):
                        # the operator parser left part of the spelling unread: the operand parser sees operator characters
                        hit = (lv, "%s followed by %d unread operator token(s)" % (r.fields["0"][1].variant, (len(rest) - 1) if isinstance(rest, list) else -1))
                    else:
                        hit = (lv, r.fields["0"][1].variant)
                    break
            if hit:
                out[op] = hit
                break
    return out


def rule_optext(chk, fm, px, lx):
    # binary operators
    table = eval_parse_op(px, fm, lx)
    if table is None:
        chk.note("C09.optext: the operator parsers are not readable; the arm-by-arm simulation decides")
    for op in fm.bi:
        text = fm.bin_text.get(op)
        key = "C09.optext/Binary::" + op
        if text is None:
            chk.ob(key, False, "format_bin_op has no spelling for this operator", where(fm.binop_fn))
            continue
        toks = lx.lex(text + " ")
        if toks is None:
            chk.ob(key, False, "spelling %r does not lex with the lexer's symbol table" % text, where(fm.binop_fn))
            continue
        path, got = table[op] if table is not None and op in table else sim_parse_op(px, toks)
        want_level = px.nodes.get(("BinaryOperation", op), {}).get("fn")
        ok = got == op
        chk.ob(key, ok, "%r -> %s -> %s at %s" % (text, [t for t, _ in toks], got, short(path or "?")) if ok else
               "printer spells %s as %r, which lexes to %s and is parsed as %s (at %s)" % (op, text, toks, got, short(path or "none")),
               where(fm.binop_fn), sample={"op": op, "text": text, "tokens": [t for t, _ in toks], "parsed_as": got})
    # unary operators: prefix table in unaryop_prefix family, postfix via the p1 postfix table
    f = chk.facts
    tok2un = {}
    for b in f.crates[PAR]["bodies"]:
        if "thir" not in b or not b.get("ret", "").count("UnaryOp"):
            continue
        toks = [F.adt_ctor(c["args"][0]) for c in F.exprs(b["thir"], "Call") if short(c.get("fn") or "") == "parse_token"]
        ops = [a["variant"] for a in F.exprs(b["thir"], "Adt") if short(a["adt"]) == "UnaryOp"]
        if len(toks) == 1 and toks[0] and len(ops) == 1:
            tok2un[toks[0][1]] = ops[0]
    chk.floor("C09.floor/prefix-ops", len(tok2un), 8, "prefix operator token table of the parser")
    # postfix: functions returning Located<Precedence1Postfix>: token -> postfix kind -> UnaryOp in the match
    post_tok = {}
    for b in f.crates[PAR]["bodies"]:
        if "thir" not in b or "Precedence1Postfix" not in b.get("ret", ""):
            continue
        toks = [F.adt_ctor(c["args"][0]) for c in F.exprs(b["thir"], "Call") if short(c.get("fn") or "") == "parse_token"]
        kinds = [a["variant"] for a in F.exprs(b["thir"], "Adt") if short(a["adt"]) == "Precedence1Postfix" and not a["fields"]]
        if len(toks) == 1 and toks[0] and len(kinds) == 1:
            post_tok[toks[0][1]] = kinds[0]
    post_un = {}
    for b in f.crates[PAR]["bodies"]:
        if "thir" not in b:
            continue
        for m in F.find_matches(b, "Precedence1Postfix"):
            for arm in m["arms"]:
                pv = F.pat_variant(arm["pat"])
                ops = [a for a in F.exprs(arm["body"], "Adt") if short(a["adt"]) == "UnaryOp"]
                if pv and len(ops) == 1:
                    post_un[pv[1]] = ops[0]["variant"]
    for op in fm.un:
        text = fm.un_text.get(op)
        key = "C09.optext/Unary::" + op
        if text is None:
            chk.ob(key, False, "format_unary_op has no spelling for this operator", where(fm.unop_fn))
            continue
        toks = lx.lex(text)
        if not toks or len(toks) != 1:
            chk.ob(key, False, "spelling %r does not lex to a single token" % text, where(fm.unop_fn))
            continue
        t = toks[0][0]
        if op.startswith("Postfix"):
            got = post_un.get(post_tok.get(t))
        else:
            got = tok2un.get(t)
        chk.ob(key, got == op, "%r -> %s -> %s" % (text, t, got) if got == op else
               "printer spells %s as %r, which lexes to %s and the parser maps that token to %s" % (op, text, t, got),
               where(fm.unop_fn), sample={"op": op, "text": text, "token": t, "parsed_as": got})
    # ternary punctuation
    tern = fm.events.get(("TernaryConditional", None), [])
    texts = [e[1] for e in tern if e[0] == "text"]
    want = []
    for path in px.chain:
        for b in px.family(path):
            if "thir" in b and any(short(a["adt"]) == "Expression" and a.get("variant") == "TernaryConditional"
                                   for bb in px.family(path) if "thir" in bb for a in F.exprs(bb["thir"], "Adt")):
                want += [F.adt_ctor(c["args"][0])[1] for c in F.exprs(b["thir"], "Call")
                         if short(c.get("fn") or "") == "parse_token" and F.adt_ctor(c["args"][0])]
    got = []
    for t in texts:
        lt = lx.lex(t or "")
        got += [x for x, _ in (lt or [])]
    want_u = [w for w in dict.fromkeys(want)]
    chk.ob("C09.optext/Ternary", got == want_u and len(got) == 2,
           "ternary punctuation %r lexes to %s, parser expects %s" % (texts, got, want_u), where(fm.sub_fn),
           sample={"texts": texts, "tokens": got, "parser_expects": want_u})


def rule_adj(chk, fm, px, lx):
    """Operator spellings emitted back to back (no separator) must lex to the same tokens."""
    sub = fm.sub_fn
    # which node kinds start with an operator character: prefix unary ops (event order: unop then rec)
    starts = {}   # kind -> first text
    for kd in fm.kinds:
        evs = [e for e in fm.events.get(kd, []) if not e[0].startswith("branch")]
        if kd[0] == "UnaryOperation" and evs and evs[0][0] == "unop":
            starts[kd] = fm.un_text.get(kd[1], "")
    n = 0
    for parent in fm.kinds:
        if fm.prec.get(parent) is None:
            continue
        evs = [e for e in fm.events.get(parent, []) if not e[0].startswith("branch")]
        # operator spelling followed by a child that itself starts with an operator spelling (judged per child kind:
        # the printer may insert a separator that depends on the child)
        rec_fields = [e[1] for e in evs if e[0] == "rec" and e[1] is not None and not str(e[1]).endswith("[]")]
        if any(e[0] in ("unop", "binop") for e in evs):
            for child, ctext in sorted(starts.items()):
                for fld in rec_fields:
                    try:
                        cevs = fm.events_with_child(parent, fld, child)
                    except I.Unknown:
                        cevs = evs
                    for i in range(len(cevs) - 1):
                        a = cevs[i]
                        if a[0] not in ("unop", "binop"):
                            continue
                        j = i + 1
                        gap = ""
                        while j < len(cevs) and cevs[j][0] == "text":
                            gap += cevs[j][1] if cevs[j][1] is not None else "\0"
                            j += 1
                        if j >= len(cevs) or cevs[j][0] != "rec" or cevs[j][1] != fld:
                            continue
                        b = cevs[j]
                        if a[0] == "binop" and gap.strip() == "" and gap != "":
                            continue      # binary operators are separated by a constant space (judged below)
                        atext = fm.un_text.get(parent[1]) if a[0] == "unop" else fm.bin_text.get(parent[1])
                        outer = fm.prec[parent] if b[2] == "self" else b[2]
                        try:
                            if fm.needs_paren(child, outer, b[3]):
                                continue
                        except I.Unknown:
                            continue
                        n += 1
                        joined = lx.lex(atext + gap + ctext) if "\0" not in gap else None
                        sep = (lx.lex(atext) or []) + (lx.lex(ctext) or [])
                        ok = joined is not None and [t for t, _ in joined] == [t for t, _ in sep]
                        chk.ob("C09.adj/%s+%s" % (kname(parent), kname(child)), ok,
                               "%r+%r lexes as two tokens" % (atext + gap, ctext) if ok else
                               "printer emits %r directly followed by %r (no separator, child not parenthesised): the text %r lexes as %s, not %s"
                               % (atext, ctext, atext + gap + ctext, [t for t, _ in (joined or [])], [t for t, _ in sep]),
                               where(sub), sample={"first": atext, "second": ctext, "lexed": [t for t, _ in (joined or [])]})
        for i in range(len(evs) - 1):
            a, b = evs[i], evs[i + 1]
            if a[0] == "rec" and b[0] in ("unop",):
                # postfix operator directly after operand: operand may end with a postfix operator of the same level
                atext = fm.un_text.get(parent[1])
                for child in fm.kinds:
                    if child[0] != "UnaryOperation" or not child[1].startswith("Postfix"):
                        continue
                    outer = fm.prec[parent] if a[2] == "self" else a[2]
                    try:
                        if fm.needs_paren(child, outer, a[3]):
                            continue
                    except I.Unknown:
                        continue
                    ctext = fm.un_text.get(child[1], "")
                    n += 1
                    joined = lx.lex(ctext + atext)
                    sep = (lx.lex(ctext) or []) + (lx.lex(atext) or [])
                    ok = joined is not None and [t for t, _ in joined] == [t for t, _ in sep]
                    chk.ob("C09.adj/%s_after_%s" % (kname(parent), kname(child)), ok,
                           "%r+%r lexes as two tokens" % (ctext, atext) if ok else "%r lexes as %s" % (ctext + atext, joined), where(sub))
        # binary operators must be separated from both operands
        if parent[0] == "BinaryOperation":
            kinds = [e[0] for e in evs]
            if "binop" in kinds:
                i = kinds.index("binop")
                before_ok = i >= 1 and (evs[i - 1][0] == "text" and (evs[i - 1][1] or "").endswith(" ")) or parent[1] == "Sequence"
                after_ok = i + 1 < len(evs) and evs[i + 1][0] == "text" and (evs[i + 1][1] or "").startswith(" ")
                n += 1
                chk.ob("C09.adj/%s/spaces" % kname(parent), before_ok and after_ok,
                       "binary operator is separated from both operands" if before_ok and after_ok else
                       "binary operator %s is emitted without a separating space (%s): adjacent operator characters can merge"
                       % (parent[1], "before" if not before_ok else "after"), where(sub))
    chk.floor("C09.floor/adjacency-instances", n, 30, "adjacency instances examined")

LIT_TOKEN = {"IntUntyped": "LiteralInt", "IntUnsigned32": "LiteralIntUnsigned32", "IntUnsigned64": "LiteralIntUnsigned64", "IntSigned64": "LiteralIntSigned64",
             "FloatUntyped": "LiteralFloat", "Float16": "LiteralFloat16", "Float32": "LiteralFloat32", "Float64": "LiteralFloat64"}
_F64 = [0.0, 0.5, 1.5, 3.0, 7.0, 0.055, 0.0031308, 1e25, 1e-7, 123456789.125, 9007199254740992.0, 1e19, 9.3e18, 1.7976931348623157e308, 5e-324, 2.2250738585072014e-308, float("inf")]
_F32 = [I.F32(x) for x in (0.0, 0.5, 3.0, 0.1, 0.0031308, 16777216.0, 1e19, 2.5e30, 3.4028234663852886e38, 1.401298464324817e-45, 65504.0, 7e-10)] + [float("inf")]
LIT_SAMPLES = {
    "IntUntyped": [0, 1, 42, 4294967295, 4294967296, (1 << 63) - 1, 1 << 63, (1 << 64) - 1],
    "IntUnsigned32": [0, 7, 4294967295],
    "IntUnsigned64": [0, 7, 4294967296, (1 << 64) - 1],
    "IntSigned64": [0, 7, 4294967296, (1 << 63) - 1],
    "FloatUntyped": _F64, "Float64": _F64, "Float32": _F32, "Float16": [0.0, 0.5, 3.0, 2.0, 65504.0, 0.0999755859375, float("inf")],
}


def rule_lit_roundtrip(chk, prefix="C09.lit"):
    """format_literal and the lexer's token function both walked by the finite-map reader: a non-negative literal of
    every kind, printed for every target and lexed again, is one token of the corresponding kind with the same value."""
    f = chk.facts
    fl = f.fn("format_literal", FMT)
    ti = f.fn("token_intermediate", "rssl_preprocess")
    if not fl or not ti:
        return False
    ip = I.Interp(f, max_depth=12, extern={})
    ip.max_loop = 1024
    targets = f.variants("Target", FMT) or f.variants("formatter::Target", FMT) or ["HlslForDirectX"]
    # literal kinds an exporter never hands to the printer (its generate_literal refuses the constant) are not
    # printed for that exporter's target
    CONST_OF = {"FloatUntyped": "FloatLiteral", "Float16": "Float16", "Float32": "Float32", "Float64": "Float64", "IntUntyped": "IntLiteral",
                "IntUnsigned32": "UInt32", "IntUnsigned64": "UInt64", "IntSigned64": "Int64"}
    refused = set()
    for tgt, crate in (("Msl", "rssl_msl"), ("Hlsl", "rssl_hlsl")):
        gl = f.fn("generate_literal", crate)
        if not gl or tgt not in targets:
            continue
        for kind, ck in CONST_OF.items():
            try:
                r0 = ip.apply(gl, [I.Enum("Constant", ck, {"0": LIT_SAMPLES[kind][1]}), I.Opaque("context")])
                if isinstance(r0, I.Enum) and r0.variant == "Err":
                    refused.add((tgt, kind))
            except I.Unknown:
                pass
    n = 0
    for kind, vals in LIT_SAMPLES.items():
        bad = None
        for tgt in targets:
            if (tgt, kind) in refused:
                continue
            for v in vals:
                n += 1
                env = {"out": ""}
                try:
                    ip.apply(fl, [I.Enum("Literal", kind, {"0": v}), I.Ref(env, "out"), I.Enum("FormatContext", None, {"target": I.Enum("Target", tgt)})])
                    text = env["out"]
                    if not text or not text[0].isdigit():
                        continue        # infinities are printed as names / expressions of the target language, not as literals
                    r = ip.apply(ti, [list(text.encode()), False])
                except I.Unknown as e:
                    if "panicking" in str(e):
                        bad = bad or "%s(%r) for %s: printing or lexing aborts (%s)" % (kind, v, tgt, str(e)[:60])
                        continue
                    chk.note("%s/roundtrip: format_literal / token_intermediate not readable (%s); the suffix tables decide" % (prefix, str(e)[:80]))
                    return False
                ok = False
                if isinstance(r, I.Enum) and r.variant == "Ok":
                    rest, tok = r.fields["0"]
                    got = tok.fields.get("0") if isinstance(tok, I.Enum) else None
                    ok = not rest and isinstance(tok, I.Enum) and tok.variant == LIT_TOKEN[kind] and (got == v or (isinstance(got, float) and isinstance(v, float) and got == v))
                    if not ok:
                        bad = bad or "%s(%r) is printed as `%s` (%s), which lexes as %s%s" % (kind, v, text, tgt, tok, " followed by `%s`" % bytes(rest).decode("latin1") if rest else "")
                else:
                    bad = bad or "%s(%r) is printed as `%s` (%s), which does not lex" % (kind, v, text, tgt)
        chk.ob("%s/roundtrip/%s" % (prefix, kind), bad is None, "%d values x %d targets: printed text lexes back to the same literal" % (len(vals), len(targets)) if bad is None else bad,
               where(fl), sample={"kind": kind, "values": len(vals)})
    chk.floor("%s/roundtrip-floor" % prefix.replace(".lit", ".floor"), n, 100, "literal values printed and lexed", where(fl))
    return True



def rule_literals(chk, fm, prefix="C09.lit"):
    """printed literals lex back (evaluated); the suffix-table composition is the fallback when that is not readable"""
    if not rule_lit_roundtrip(chk, prefix=prefix):
        rule_lit(chk, fm)


def rule_lit(chk, fm):
    """Literal kind -> suffix (printer) composed with suffix -> kind (lexer) and token -> kind (parser)."""
    f = chk.facts
    fl = f.fn("format_literal", FMT)
    it = f.fn("int_type", "rssl_preprocess")
    ft = f.fn("float_type", "rssl_preprocess")
    el = f.fn("expr_literal", PAR)
    if not (fl and it and ft and el):
        chk.ob("C09.lit/anchor", False, "anchor-missing: format_literal / int_type / float_type / expr_literal", FMT)
        return
    # printer: kind -> set of suffixes on the non-special arms
    m = max(F.find_matches(fl, "Literal"), key=lambda m: len(m["arms"]))
    suffix = {}
    for arm in m["arms"]:
        pv = F.pat_variant(F.pat_alternatives(arm["pat"])[0])
        if not pv:
            continue
        t = F.fmt_template(arm["body"])
        if t and t and t[0][0] == "arg":
            sfx = "".join(x[1] for x in t[1:] if x[0] == "lit")
            suffix.setdefault(pv[1], set()).add(sfx)
    # lexer: suffix -> IntType / FloatType
    def suffix_table(fn, adt):
        tab = {}
        for m in F.exprs(fn["thir"], "Match"):
            for arm in m["arms"]:
                ks = [a["variant"] for a in F.exprs(arm["body"], "Adt") if short(a["adt"]) == adt]
                if len(ks) != 1:
                    continue
                for alt in F.pat_alternatives(arm["pat"]):
                    seqs = [""]
                    if alt.get("k") == "Slice":
                        for q in alt["prefix"]:
                            chars = [chr(x["v"]) for x in F.pat_alternatives(q) if x.get("k") == "Const"]
                            seqs = [s + c for s in seqs for c in chars]
                    elif alt.get("k") == "Variant" and alt["variant"] == "Some":
                        q = alt["subs"][0]["p"]
                        chars = [chr(x["v"]) for x in F.pat_alternatives(q) if x.get("k") == "Const"]
                        seqs = chars
                    for s_ in seqs:
                        if s_:
                            tab.setdefault(s_, ks[0])
        return tab
    itab = suffix_table(it, "IntType")
    ftab = suffix_table(ft, "FloatType")
    chk.floor("C09.floor/int-suffixes", len(itab), 12, "integer suffix spellings of the lexer")
    chk.floor("C09.floor/float-suffixes", len(ftab), 6, "float suffix spellings of the lexer")
    # lexer: Option<IntType> -> Token, Option<FloatType> -> Token
    def type2tok(fn_name, adt):
        fn = f.fn(fn_name, "rssl_preprocess")
        tab = {}
        if not fn:
            return tab
        for m in F.exprs_deep(f, fn, "Match", depth=1):
            for arm in m["arms"]:
                toks = [a["variant"] for a in F.exprs(arm["body"], "Adt") if short(a["adt"]) == "Token"]
                if len(toks) != 1:
                    continue
                alt = F.pat_alternatives(arm["pat"])[0]
                if alt.get("k") == "Variant" and alt["variant"] == "None":
                    tab[None] = toks[0]
                elif alt.get("k") == "Variant" and alt["variant"] == "Some":
                    q = alt["subs"][0]["p"]
                    if q.get("k") == "Variant" and short(q["adt"]) == adt:
                        tab[q["variant"]] = toks[0]
        return tab
    i2t = type2tok("literal_decimal_int", "IntType")
    f2t = type2tok("literal_float", "FloatType")
    # parser: Token -> Literal
    t2l = {}
    for m in F.exprs(el["thir"], "Match"):
        for arm in m["arms"]:
            pv = F.pat_variant(F.pat_alternatives(arm["pat"])[0])
            lits = [a["variant"] for a in F.exprs(arm["body"], "Adt") if short(a["adt"]) == "Literal"]
            if pv and pv[0] == "Token" and len(lits) == 1:
                t2l[pv[1]] = lits[0]
    chk.floor("C09.floor/literal-tokens", len(t2l), 11, "token -> literal table of the parser")
    for kind in f.variants("ast_expressions::Literal", "rssl_ast"):
        if kind in ("Bool", "String"):
            continue
        is_float = kind.startswith("Float")
        for sfx in sorted(suffix.get(kind, {None})):
            key = "C09.lit/%s" % kind
            if sfx is None:
                chk.ob(key, False, "format_literal has no plain `{v}<suffix>` arm for this kind", where(fl))
                continue
            s2 = sfx[2:] if is_float and sfx.startswith(".0") else sfx
            if is_float:
                ty = ftab.get(s2) if s2 else None
                tok = f2t.get(ty)
            else:
                ty = itab.get(s2) if s2 else None
                tok = i2t.get(ty)
            back = t2l.get(tok)
            ok = back == kind and (s2 == "" or ty is not None)
            chk.ob(key, ok, "suffix %r -> %s -> Token::%s -> Literal::%s" % (sfx, ty, tok, back) if ok else
                   "printer writes %s with suffix %r; the lexer reads that suffix as %s -> Token::%s and the parser maps it to Literal::%s"
                   % (kind, sfx, ty, tok, back), where(fl), sample={"kind": kind, "suffix": sfx, "token": tok, "reads_back_as": back})
