"""A finite model of an ir::Module for NameMap::build: the function is evaluated by the finite-map reader on modules
with a handful of namespaces, structs, enums, globals, functions (overloads, template instantiations) and locals, with
the hash containers iterated forwards and backwards, and the resulting names are judged against the properties a name
map must have (C15), not against a re-implementation."""
import interp as I


def opt(v):
    return I.Enum("Option", "None") if v is None else I.Enum("Option", "Some", {"0": v})


def ns(i):
    return None if i is None else I.Enum("NamespaceId", None, {"0": i})


def loc(s):
    return I.Enum("Located", None, {"node": s, "location": I.Opaque("loc")})


class NameModel:
    def __init__(self, facts):
        self.facts = facts
        self.fn = facts.fn("build", "rssl_ir", self_ty="NameMap")

    def run(self, spec, reserved, reverse=False, intrinsics_reserved=False):
        """spec: dict(namespaces=[(name, parent idx|None)], structs=[(name, ns)], enums=[(name, ns)], globals=[(name, ns)],
        functions=[(name, ns, kind)] kind in 'plain' | 'template' | 'instance', locals=[name])
        -> {('Struct', i): (ns, name), ...} | ('aborts'|'unreadable', why)"""
        S = spec
        ext = {
            "NamespaceRegistry::get_namespace_count": lambda a: len(S["namespaces"]),
            "NamespaceRegistry::get_namespace_parent": lambda a: opt(ns(S["namespaces"][a[1].fields["0"]][1])),
            "NamespaceRegistry::get_namespace_name": lambda a: S["namespaces"][a[1].fields["0"]][0],
            "EnumRegistry::get_enum_count": lambda a: len(S["enums"]),
            "EnumRegistry::get_enum_definition": lambda a: I.Enum("EnumDefinition", None, {"name": loc(S["enums"][a[1].fields["0"]][0]), "namespace": opt(ns(S["enums"][a[1].fields["0"]][1]))}),
            "FunctionRegistry::iter": lambda a: [I.Enum("FunctionId", None, {"0": i}) for i in range(len(S["functions"]))],
            "FunctionRegistry::get_intrinsic_data": lambda a: opt(None),
            "FunctionRegistry::get_function_signature": lambda a: I.Enum("FunctionSignature", None, {
                "template_params": [I.Opaque("template parameter")] if S["functions"][a[1].fields["0"]][2] in ("template", "instance") else []}),
            "FunctionRegistry::get_template_instantiation_data": lambda a: opt(I.Opaque("instantiation")) if S["functions"][a[1].fields["0"]][2] == "instance" else opt(None),
            "FunctionRegistry::get_function_name_definition": lambda a: I.Enum("FunctionNameDefinition", None, {
                "name": loc(S["functions"][a[1].fields["0"]][0]), "namespace": opt(ns(S["functions"][a[1].fields["0"]][1]))}),
            "VariableRegistry::iter": lambda a: [I.Enum("VariableId", None, {"0": i}) for i in range(len(S["locals"]))],
            "VariableRegistry::get_local_variable": lambda a: I.Enum("LocalVariable", None, {"name": loc(S["locals"][a[1].fields["0"]])}),
        }
        module = I.Enum("Module", None, {
            "namespace_registry": I.Opaque("namespaces"), "enum_registry": I.Opaque("enums"), "function_registry": I.Opaque("functions"), "variable_registry": I.Opaque("variables"),
            "struct_registry": [I.Enum("StructDefinition", None, {"name": loc(n), "namespace": opt(ns(s))}) for n, s in S["structs"]],
            "global_registry": [I.Enum("GlobalVariable", None, {"name": loc(n), "namespace": opt(ns(s)), "is_intrinsic": False}) for n, s in S["globals"]]})
        ip = I.Interp(self.facts, max_depth=10, extern=ext)
        ip.reverse_hash_order = reverse
        ip.max_loop = 200
        try:
            r = ip.apply(self.fn, [module, list(reserved), intrinsics_reserved])
        except I.Unknown as e:
            return ("aborts" if "panicking" in str(e) else "unreadable", str(e))
        names = r.fields.get("names") if isinstance(r, I.Enum) else None
        if not isinstance(names, I.HMap):
            return ("unreadable", repr(r)[:200])
        out = {}
        for k, v in names.items():
            nsv = v.fields.get("namespace")
            nsi = nsv.fields["0"].fields["0"] if isinstance(nsv, I.Enum) and nsv.variant == "Some" else None
            out[(k.variant, k.fields["0"].fields["0"])] = (nsi, v.fields.get("name"))
        return out
