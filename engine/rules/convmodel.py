"""A finite model of the type registry, so that ImplicitConversion::find / get_rank can be read as decision tables
whatever their internal shape is.

`find` asks the module four questions (extract_modifier, get_type_layer, extract_scalar, remove_modifier). Here they
are answered from a small synthetic universe of types - every scalar type, vectors of 1..4 and three matrix shapes
over two element types, one enum, each plain / const / volatile - and the function body is evaluated by the
finite-map reader (interp.py) for the pairs a rule asks about. Nothing of rssl is executed: the reader walks the
THIR of `find`, the registry is this table.
"""
import interp as I
from facts import short

MODS = {0: {}, 1: {"is_const": True}, 2: {"volatile": True}, 3: {"is_const": True, "row_major": True}, 4: {"is_const": True, "column_major": True}}    # (3, 4: matrices only)
MOD_FIELDS = ("is_const", "volatile", "row_major", "column_major", "unorm", "snorm")


def modifier(m):
    d = {k: False for k in MOD_FIELDS}
    d.update(MODS[m])
    return I.Enum("TypeModifier", None, d)


def tid(n):
    return I.Enum("TypeId", None, {"0": n})


class Universe:
    def __init__(self, facts):
        self.facts = facts
        self.scalars = facts.variants("ir_types::ScalarType", "rssl_ir") or []
        self.base = {}          # base id -> layer
        self.names = {}         # readable name -> base id
        for i, s in enumerate(self.scalars):
            self.base[1 + i] = I.Enum("TypeLayer", "Scalar", {"0": I.Enum("ScalarType", s)})
            self.names[s] = 1 + i
        for s in self.scalars:
            sid = self.names[s]
            for n in (1, 2, 3, 4):
                i = 100 + 10 * sid + n
                self.base[i] = I.Enum("TypeLayer", "Vector", {"0": tid(sid), "1": n})
                self.names["%s%d" % (s, n)] = i
            for k, (x, y) in enumerate(((2, 2), (4, 4), (3, 4))):
                i = 300 + 10 * sid + k
                self.base[i] = I.Enum("TypeLayer", "Matrix", {"0": tid(sid), "1": x, "2": y})
                self.names["%s%dx%d" % (s, x, y)] = i
        self.base[600] = I.Enum("TypeLayer", "Enum", {"0": I.Enum("EnumId", None, {"0": 0})})
        self.names["Enum"] = 600
        self.base[601] = I.Enum("TypeLayer", "Struct", {"0": I.Enum("StructId", None, {"0": 0})})
        self.names["Struct"] = 601
        self.base[602] = I.Enum("TypeLayer", "Void")
        self.names["Void"] = 602
        self.base[603] = I.Enum("TypeLayer", "TemplateParam", {"0": I.Enum("TemplateTypeId", None, {"0": 0})})
        self.names["TemplateParam"] = 603
        # arrays and object types (each parameterised object over float4; the slices / mips objects that indexing
        # produces are therefore in the universe too)
        f32, f324 = self.names.get("Float32"), self.names.get("Float324")
        if f32 and f324:
            self.base[610] = I.Enum("TypeLayer", "Array", {"0": tid(f32), "1": I.Enum("Option", "Some", {"0": 4})})
            self.names["Float32[4]"] = 610
            self.base[611] = I.Enum("TypeLayer", "Array", {"0": tid(601), "1": I.Enum("Option", "None")})
            self.names["Struct[]"] = 611
            self.base[612] = I.Enum("TypeLayer", "Array", {"0": tid(f324 + 1000), "1": I.Enum("Option", "Some", {"0": 2})})
            self.names["const Float324[2]"] = 612
            objs = None
            for c in facts.crates.values():
                for a in c.get("adts", []):
                    if a["path"].endswith("ir_types::ObjectType"):
                        objs = a
            self.objects = []
            for i, v in enumerate((objs or {}).get("variants", [])):
                fields = {}
                for fl in v["fields"]:
                    fields[fl["name"]] = tid(601 if v["name"] in ("StructuredBuffer", "RWStructuredBuffer", "ConstantBuffer") else f324) \
                        if fl["ty"].endswith("TypeId") else I.Opaque(fl["ty"])
                self.base[700 + i] = I.Enum("TypeLayer", "Object", {"0": I.Enum("ObjectType", v["name"], fields)})
                self.names[v["name"]] = 700 + i
                self.objects.append(v["name"])

    # ids: base + 1000 * modifier index
    def type_id(self, name, mod=0):
        return tid(self.names[name] + 1000 * mod)

    def split(self, t):
        n = t.fields["0"] if isinstance(t, I.Enum) else None
        if not isinstance(n, int):
            raise I.Unknown("type id %r" % (t,))
        return n % 1000, n // 1000

    def scalar_of(self, base):
        l = self.base[base]
        if l.variant == "Scalar":
            return l.fields["0"]
        if l.variant in ("Vector", "Matrix"):
            return self.base[l.fields["0"].fields["0"]].fields["0"]
        return None

    def externs(self):
        def extract_modifier(a):
            b, m = self.split(a[1])
            return (tid(b), modifier(m))

        def get_type_layer(a):
            b, m = self.split(a[1])
            if m:
                return I.Enum("TypeLayer", "Modifier", {"0": modifier(m), "1": tid(b)})
            return self.base[b]

        def extract_scalar(a):
            b, m = self.split(a[1])
            s = self.scalar_of(b)
            return I.Enum("Option", "Some", {"0": s}) if s is not None else I.Enum("Option", "None")

        def remove_modifier(a):
            b, m = self.split(a[1])
            return tid(b)
        def register_type(a):
            layer = a[1]
            if isinstance(layer, I.Enum) and layer.variant == "Modifier":
                return combine_modifier(["register", layer.fields["1"], layer.fields["0"]])
            for b, l in self.base.items():
                if l == layer:
                    return tid(b)
            raise I.Unknown("register_type of a layer outside the model: %r" % (layer,))

        def combine_modifier(a):
            b, m = self.split(a[1])
            mod = a[2]
            for k, d in MODS.items():
                if isinstance(mod, I.Enum) and all(bool(mod.fields.get(f_)) == bool(d.get(f_, False)) for f_ in MOD_FIELDS):
                    if m and a[0] != "register":
                        raise I.Unknown("core::panicking: combine_modifier on a type that already carries a modifier")
                    if m and k and m != k:
                        raise I.Unknown("const volatile is outside the model")
                    return tid(b + 1000 * (k or m))
            raise I.Unknown("modifier outside the model")
        def register_template_type(a):
            return I.Enum("TemplateTypeId", None, {"0": 0})
        return {"TypeRegistry::register_template_type": register_template_type, "TypeRegistry::register_type": register_type, "TypeRegistry::combine_modifier": combine_modifier,
                "TypeRegistry::extract_modifier": extract_modifier, "TypeRegistry::get_type_layer": get_type_layer,
                "TypeRegistry::extract_scalar": extract_scalar, "TypeRegistry::remove_modifier": remove_modifier}


class Conversions:
    """find(source, dest) and get_rank(conversion) as tables over the universe."""

    def __init__(self, facts, crate="rssl_typer"):
        self.u = Universe(facts)
        self.facts = facts
        self.find_fn = facts.fn("find", crate, self_ty="ImplicitConversion")
        self.rank_fn = facts.fn("get_rank", crate, self_ty="ImplicitConversion")
        self.ip = I.Interp(facts, max_depth=8, extern=self.u.externs())

    def find(self, src, svt, dst, dvt, smod=0, dmod=0):
        """-> ('Err',) | ('Ok', conv Enum) | ('unreadable', why) | ('aborts', why)"""
        s = I.Enum("ExpressionType", None, {"0": self.u.type_id(src, smod), "1": I.Enum("ValueType", svt)})
        d = I.Enum("ExpressionType", None, {"0": self.u.type_id(dst, dmod), "1": I.Enum("ValueType", dvt)})
        try:
            r = self.ip.apply(self.find_fn, [s, d, I.Opaque("module")])
        except I.Unknown as e:
            msg = str(e)
            return ("aborts" if "panicking" in msg else "unreadable", msg)
        if isinstance(r, I.Enum) and r.variant == "Err":
            return ("Err",)
        if isinstance(r, I.Enum) and r.variant == "Ok":
            return ("Ok", r.fields["0"])
        return ("unreadable", repr(r))

    def apply(self, conv, expr):
        """ImplicitConversion::apply(conv, expr, module) -> resulting ir::Expression value | ('aborts'|'unreadable', why)"""
        fn = self.facts.fn("apply", "rssl_typer", self_ty="ImplicitConversion")
        try:
            return self.ip.apply(fn, [conv, expr, I.Opaque("module")])
        except I.Unknown as e:
            msg = str(e)
            return ("aborts" if "panicking" in msg else "unreadable", msg)

    @staticmethod
    def parts(conv):
        """(value-category cast, dimension cast (from, to), numeric rank, modifier cast present)"""
        f = conv.fields

        def opt(x):
            return None if (isinstance(x, I.Enum) and x.variant == "None") else (x.fields.get("0") if isinstance(x, I.Enum) and x.variant == "Some" else x)
        vt, dim, prim, mod = opt(f.get("1")), opt(f.get("2")), opt(f.get("3")), opt(f.get("4"))
        vtc = None
        if isinstance(vt, I.Enum):
            a, b = vt.fields.get("1"), vt.fields.get("2")
            vtc = (a.variant if isinstance(a, I.Enum) else a, b.variant if isinstance(b, I.Enum) else b)
        dc = None
        if isinstance(dim, I.Enum):
            dc = (dim_name(dim.fields.get("0")), dim_name(dim.fields.get("1")))
        rk = None
        if isinstance(prim, I.Enum):
            r = prim.fields.get("rank")
            rk = r.variant if isinstance(r, I.Enum) else repr(r)
        return vtc, dc, rk, mod is not None

    def rank(self, conv):
        """-> (numeric rank, vector rank) | ('aborts', why) | ('unreadable', why)"""
        try:
            r = self.ip.apply(self.rank_fn, [conv])
        except I.Unknown as e:
            msg = str(e)
            return ("aborts" if "panicking" in msg else "unreadable", msg)
        if isinstance(r, I.Enum) and "0" in r.fields and "1" in r.fields:
            a, b = r.fields["0"], r.fields["1"]
            return (a.variant if isinstance(a, I.Enum) else repr(a), b.variant if isinstance(b, I.Enum) else repr(b))
        return ("unreadable", repr(r))


def dim_name(d):
    if not isinstance(d, I.Enum):
        return "?"
    if d.variant == "Scalar":
        return "Scalar"
    if d.variant == "Vector":
        return "Vector(%s)" % d.fields.get("0")
    return "Matrix(%s,%s)" % (d.fields.get("0"), d.fields.get("1"))
