"""C03 — accepted programs elaborate to well-typed IR; ill-typed programs are rejected."""
import facts as F
import interp as I
import mirs as M
import thirflow as TF
from facts import short, where

EXPLANATION = (
    "Well-typedness of every expression of every accepted program quantifies over derivations and is not decided. "
    "Decided are the guards and conversion points the property names. C03.assign (MIR dominance): every construction of "
    "an assignment-family IntrinsicOp in parse_expr_binop is dominated by the is_const==false edge and by the "
    "ValueType::Lvalue arm of the test on the left operand's value category, and both tests read the type that is "
    "paired with the expression stored as operand 0. C03.incdec: the four ++/-- arms run enforce_increment_type and "
    "propagate its error; enforce_increment_type rejects rvalues, const and bool. C03.conv-table: ImplicitConversion::"
    "find's value-category table is (R->L refuse, R->R / L->L none, L->R lvalue-to-rvalue), dropping const/volatile on an "
    "lvalue destination is refused, the scalar conversion matrix is total. C03.out: out/inout parameters demand an "
    "lvalue (From<InputModifier> table) and overload matching builds the destination type from it. C03.through: every "
    "ImplicitConversion::find result is consumed by apply (directly or through the casts vector of apply_casts), the "
    "number of conversion sites per function does not fall below the confirmed floor, and the operands of the built "
    "IntrinsicOp / ternary / return / initialiser nodes originate from apply. C03.arity: argument-count window before "
    "a candidate is considered. C03.total: Expression::get_type and IntrinsicOp::get_return_type have an explicit arm "
    "for every variant (no catch-all). C03.elab / C03.access / C03.call / C03.stmt (finite-map reader, elabmodel.py): "
    "parse_expr_binop, parse_expr_unaryop, parse_expr_ternary, the Member and ArraySubscript arms of parse_expr_unchecked, "
    "write_function, the return arm of parse_statement and parse_initializer are evaluated - sub-expression parsers "
    "scripted, type registry = a 99-type universe - over matrices of operand types; every accepted node is typed again by "
    "rssl's own Expression::get_type / IntrinsicOp::get_return_type (asserts included) and must get, without aborting, the "
    "type the typer reported, with its operands in order and only numeric / modifier-only casts inserted; call arguments, "
    "returned values and initialisers must have exactly the declared type; out/inout arguments, assignment and ++/-- "
    "targets must be mutable lvalues; a part selected from a const value must be const (C03.constness). When these "
    "evaluations are readable they replace the MIR dominance rules C03.assign / C03.incdec, which remain the fallback."
)
ASSUMPTIONS = ["rustc THIR/MIR is a faithful view of the source",
               "Rust ownership: an ir::Expression moved into ImplicitConversion::apply cannot also be stored raw"]

TY = "rssl_typer"
ASSIGN_OPS = ["Assignment", "SumAssignment", "DifferenceAssignment", "ProductAssignment", "QuotientAssignment",
              "RemainderAssignment", "LeftShiftAssignment", "RightShiftAssignment", "BitwiseAndAssignment",
              "BitwiseOrAssignment", "BitwiseXorAssignment"]
INCDEC = ["PrefixIncrement", "PrefixDecrement", "PostfixIncrement", "PostfixDecrement"]

# conversion sites confirmed by reading (function -> number of ImplicitConversion::find calls)
FIND_FLOOR = {
    "parse_expr_binop": 3, "parse_expr_unaryop": 3, "parse_expr_ternary": 3, "find_overload_casts": 1,
    "parse_statement": 1, "parse_initializer": 1, "parse_rootdefinition_enum": 1,
}


def discr_edges(cfg, adt_suffix, variant_index, place_pred=None):
    """Edges taken when the discriminant of a value of type `adt` equals variant_index."""
    edges, other = [], []
    for i, b in enumerate(cfg.blocks):
        t = b["term"]
        if t["t"] != "Switch":
            continue
        p = M.op_place(t["x"])
        if p is None or not isinstance(p, int):
            continue
        ds = cfg.defs().get(p, [])
        if len(ds) != 1 or ds[0][0] != "stmt" or ds[0][3].get("r") != "Discr":
            continue
        s = ds[0][3]
        if not (s.get("adt") or "").endswith(adt_suffix):
            continue
        if place_pred and not place_pred(s["p"]):
            continue
        for v, tgt in zip(t["vals"], t["to"]):
            (edges if v == variant_index else other).append((i, tgt))
        if variant_index not in t["vals"]:
            edges.append((i, t["to"][-1]))
        else:
            other.append((i, t["to"][-1]))
    return edges, other


QUICK_TYPES = ["Bool", "Int32", "UInt32", "Float32", "Int323", "Float322", "Float324", "Float322x2", "Enum", "Struct"]
MORE_TYPES = ["Float16", "Float64", "Bool3", "UInt322", "Bool2x2", "Int324x4", "IntLiteral", "FloatLiteral"]
LITERALS = ("IntLiteral", "FloatLiteral")


def addbad(bad, msg):
    """keep the first case of each kind of failure (the text after the operand description names the kind)"""
    kind = msg.split(": ", 1)[-1].split(" (")[0][:40]
    if all(k != kind for k, m in bad["type"]) and len(bad["type"]) < 4:
        bad["type"].append((kind, msg))


def operand_universe(el, tier):
    names = [t for t in QUICK_TYPES + (MORE_TYPES if tier == "thorough" else []) if t in el.u.names]
    ls, rs = [], []
    for t in names:
        if t in LITERALS:
            ls.append(el.ety(t, 0, "Rvalue"))
            rs.append(el.ety(t, 0, "Rvalue"))
            continue
        for m, vt in ((0, "Lvalue"), (0, "Rvalue"), (1, "Lvalue"), (2, "Lvalue")):
            ls.append(el.ety(t, m, vt))
        for m, vt in ((0, "Rvalue"), (1, "Lvalue")):
            rs.append(el.ety(t, m, vt))
    return ls, rs


_W = {}


def _elab():
    import elabmodel as EM
    if "el" not in _W:
        _W["el"] = EM.Elab(_W["facts"])
        _W["ls"], _W["rs"] = operand_universe(_W["el"], _W["tier"])
        _W["intr"] = set(_W["facts"].variants("intrinsics::IntrinsicOp", "rssl_ir") or [])
    return _W["el"], _W["ls"], _W["rs"], _W["intr"]


def _top_intrinsic(el, intr, node, op, what, bad):
    if not (isinstance(node, I.Enum) and node.variant == "IntrinsicOp"):
        addbad(bad, "%s: elaborates to %s, not to an operator node" % (what, el.show(node)))
        return False
    i = node.fields["0"]
    if op in intr and (not isinstance(i, I.Enum) or i.variant != op):
        addbad(bad, "%s: elaborates to IntrinsicOp::%s" % (what, getattr(i, "variant", i)))
        return False
    return True


def _binop_task(op):
    """-> (op, readable, cases, accepted, bad)"""
    el, ls, rs, intr = _elab()
    bad = {"type": [], "const": None, "lvalue": None}
    cases = n_ok = 0
    for l in ls:
        for r in rs:
            cases += 1
            res = el.run_binop(op, l, r)
            operands = {"L": l, "R": r}
            what = "%s %s %s" % (el.describe(l), op, el.describe(r))
            if res[0] == "unreadable":
                return (op, False, cases, n_ok, res[1])
            if res[0] == "aborts":
                addbad(bad, "%s: elaboration aborts (%s)" % (what, res[1]))
                continue
            if res[0] == "Err":
                continue
            n_ok += 1
            node, ty = res[1], res[2]
            if op in ASSIGN_OPS:
                if el.is_const(l):
                    bad["const"] = bad["const"] or "%s is accepted: a const left operand is written" % what
                if not el.is_lvalue(l):
                    bad["lvalue"] = bad["lvalue"] or "%s is accepted: the left operand is not an lvalue" % what
            if op != "Sequence" and not _top_intrinsic(el, intr, node, op, what, bad):
                continue
            for kind, msg in el.check_node(what, node, ty, operands, ("L", "R")):
                if kind == "unreadable":
                    return (op, False, cases, n_ok, msg)
                addbad(bad, msg)
    return (op, True, cases, n_ok, bad)


def _unop_task(op):
    el, ls, rs, intr = _elab()
    bad = {"type": [], "const": None, "rvalue": None, "bool": None}
    n_ok = 0
    for l in ls:
        res = el.run_unop(op, l)
        operands = {"L": l}
        what = "%s applied to %s" % (op, el.describe(l))
        if res[0] == "unreadable":
            return (op, False, len(ls), n_ok, res[1])
        if res[0] == "aborts":
            addbad(bad, "%s: elaboration aborts (%s)" % (what, res[1]))
            continue
        if res[0] == "Err":
            continue
        n_ok += 1
        node, ty = res[1], res[2]
        if op in INCDEC:
            if el.is_const(l):
                bad["const"] = bad["const"] or "%s is accepted: a const operand is written" % what
            if not el.is_lvalue(l):
                bad["rvalue"] = bad["rvalue"] or "%s is accepted: the operand is not an lvalue" % what
            if el.scalar(l) == "Bool":
                bad["bool"] = bad["bool"] or "%s is accepted" % what
        if not _top_intrinsic(el, intr, node, op, what, bad):
            continue
        for kind, msg in el.check_node(what, node, ty, operands, ("L",)):
            if kind == "unreadable":
                return (op, False, len(ls), n_ok, msg)
            addbad(bad, msg)
    return (op, True, len(ls), n_ok, bad)


def _ternary_task(ci):
    el, ls, rs, intr = _elab()
    conds = [el.ety(t, m, vt) for t in ("Bool", "Int32", "Float32", "Int323", "Struct", "Enum") if t in el.u.names
             for m, vt in ((0, "Lvalue"), (0, "Rvalue"))] + [el.ety("Bool", 1, "Lvalue")]
    if ci >= len(conds):
        return (ci, True, 0, 0, {"type": []})
    c = conds[ci]
    bad = {"type": []}
    n_ok = cases = 0
    for l in ls:
        for r in rs:
            cases += 1
            res = el.run_ternary(c, l, r)
            operands = {"C": c, "L": l, "R": r}
            what = "(%s) ? %s : %s" % (el.describe(c), el.describe(l), el.describe(r))
            if res[0] == "unreadable":
                return (ci, False, cases, n_ok, res[1])
            if res[0] == "aborts":
                addbad(bad, "%s: elaboration aborts (%s)" % (what, res[1]))
                continue
            if res[0] == "Err":
                continue
            n_ok += 1
            node, ty = res[1], res[2]
            if not (isinstance(node, I.Enum) and node.variant == "TernaryConditional"):
                addbad(bad, "%s: elaborates to %s" % (what, el.show(node)))
                continue
            ct = el.node_type(node.fields["0"], operands)
            if ct[0] != "ok" or el.u.split(ct[1].fields["0"])[0] != el.u.names.get("Bool"):
                addbad(bad, "%s: the condition of the node has type %s, must be bool" % (what, el.describe(ct[1]) if ct[0] == "ok" else ct[0]))
                continue
            for kind, msg in el.check_node(what, node, ty, operands, ("C", "L", "R")):
                if kind == "unreadable":
                    return (ci, False, cases, n_ok, msg)
                addbad(bad, msg)
    return (ci, True, cases, n_ok, bad)


def _pmap(fn, items):
    """fork workers (the facts are inherited, nothing is pickled but the small results)"""
    import multiprocessing as mp
    import os
    n = min(len(items), int(os.environ.get("VERIF_JOBS", "0") or 0) or (os.cpu_count() or 2))
    if n <= 1:
        return [fn(x) for x in items]
    with mp.get_context("fork").Pool(n) as pool:
        return pool.map(fn, items, chunksize=1)


def rule_elab_eval(chk):
    """parse_expr_binop, parse_expr_unaryop and parse_expr_ternary evaluated for every operator over a matrix of operand
    types (elabmodel.py). Every accepted combination must build a node (a) whose leaves are the sub-expressions in order,
    (b) to which rssl's own IR typing rule - Expression::get_type with IntrinsicOp::get_return_type, asserts included -
    gives a type without aborting, (c) that type being the one the function reported, (d) with only numeric or
    modifier-only casts inserted. Assignment operators and ++/-- must be refused for const, rvalue (and, for ++/--, bool)
    left operands. Returns (binop readable, unaryop readable)."""
    import elabmodel as EM
    f = chk.facts
    _W.clear()
    _W["facts"], _W["tier"] = f, chk.tier
    el, ls, rs, intr = _elab()
    if not el.binop or not el.unop or not el.ret or not el.get_type:
        return False, False
    binops = f.variants("ast_expressions::BinOp", "rssl_ast") or []
    unops = f.variants("ast_expressions::UnaryOp", "rssl_ast") or []
    chk.note("C03.elab: %d binary operators x %d left x %d right operands, %d unary operators x %d operands"
             % (len(binops), len(ls), len(rs), len(unops), len(ls)))
    # ---- binary
    res = _pmap(_binop_task, binops)
    readable_b = bool(res) and all(r[1] for r in res)
    if not readable_b:
        chk.note("C03.elab: parse_expr_binop is not readable (%s); falling back to the dominance rules" % [r[4] for r in res if not r[1]][:1])
    else:
        for op, _r, cases, n_ok, bad in sorted(res):
            ok = not bad["type"]
            chk.ob("C03.elab/binop/" + op, ok, "%d operand combinations: every accepted one builds a node whose operands are the two sub-expressions, converted to exactly the types the IR typing rule requires, with the reported type" % cases
                   if ok else "; ".join(m for k, m in bad["type"]), where(el.binop), sample={"op": op, "cases": cases, "accepted": n_ok})
            if op in ASSIGN_OPS:
                chk.ob("C03.assign/const/" + op, not bad["const"], "refused for every const left operand" if not bad["const"] else bad["const"], where(el.binop),
                       sample={"op": op, "guard": "is_const"})
                chk.ob("C03.assign/lvalue/" + op, not bad["lvalue"], "refused for every rvalue left operand" if not bad["lvalue"] else bad["lvalue"], where(el.binop),
                       sample={"op": op, "guard": "Lvalue"})
                chk.ob("C03.assign/site/" + op, True, "decided by the evaluated elaboration", where(el.binop), trivial=True)
        chk.ob("C03.assign/tests-left-operand", True, "decided by the evaluated elaboration (operand order is part of C03.elab/binop/*)", where(el.binop), trivial=True)
        chk.ob("C03.assign/errors", True, "decided by the evaluated elaboration", where(el.binop), trivial=True)
        chk.floor("C03.floor/elab-binop-accepted", sum(r[3] for r in res), 1000, "accepted operand combinations typed again", where(el.binop))
    # ---- unary
    res = _pmap(_unop_task, unops)
    readable_u = bool(res) and all(r[1] for r in res)
    if not readable_u:
        chk.note("C03.elab: parse_expr_unaryop is not readable (%s); falling back to the dominance rules" % [r[4] for r in res if not r[1]][:1])
    else:
        for op, _r, cases, n_ok, bad in sorted(res):
            chk.ob("C03.elab/unary/" + op, not bad["type"], "%d operands: every accepted one builds a node typed as the IR typing rule requires, with the reported type" % cases
                   if not bad["type"] else "; ".join(m for k, m in bad["type"]), where(el.unop), sample={"op": op, "cases": cases, "accepted": n_ok})
            if op in INCDEC:
                okg = not (bad["const"] or bad["rvalue"] or bad["bool"])
                chk.ob("C03.incdec/" + op, okg, "refused for const, rvalue and bool operands" if okg else (bad["const"] or bad["rvalue"] or bad["bool"]),
                       where(el.unop), sample={"op": op, "checked": okg})
        for k in ("const", "rvalue", "bool"):
            b = [r[4][k] for r in res if r[4].get(k)]
            chk.ob("C03.incdec/rejects-" + k, not b, "%s operands of ++/-- are refused" % k if not b else b[0], where(el.unop))
        chk.floor("C03.floor/elab-unary-accepted", sum(r[3] for r in res), 60, "accepted operands typed again", where(el.unop))
    # ---- ternary
    if el.ternary:
        res = _pmap(_ternary_task, list(range(13)))
        if all(r[1] for r in res):
            msgs = []
            for r in res:
                for k, m in r[4]["type"]:
                    if len(msgs) < 4:
                        msgs.append(m)
            cases, n_ok = sum(r[2] for r in res), sum(r[3] for r in res)
            chk.ob("C03.elab/ternary", not msgs, "%d operand combinations (%d accepted): condition converted to bool, both arms converted to one type, which is the reported type" % (cases, n_ok)
                   if not msgs else "; ".join(msgs), where(el.ternary), sample={"cases": cases, "accepted": n_ok})
            chk.floor("C03.floor/elab-ternary-accepted", n_ok, 200, "accepted operand combinations typed again", where(el.ternary))
        else:
            chk.unreadable("C03.elab/ternary/readable", "parse_expr_ternary", [r[4] for r in res if not r[1]][:1], where(el.ternary))
    return readable_b, readable_u

SWIZZLES = ["x", "y", "w", "xy", "xx", "yx", "xyz", "rgba", "zzzz", "xyzw", "ba", "q", "xg", "_m00", "_11", "_m00_m11", "_11_22_12",
            "_m11_m11", "_m33", "_m00_11", "a", "v", "mips", "Origin", "TMax"]
INDEX_TYPES = [("Int32", "Rvalue"), ("UInt32", "Lvalue"), ("Float32", "Rvalue"), ("UInt322", "Rvalue"), ("Int323", "Rvalue"),
               ("Bool", "Rvalue"), ("Struct", "Rvalue")]


def _access_task(name):
    """Member and ArraySubscript arms of parse_expr_unchecked on a composite of type `name`.
    -> (name, readable, cases, accepted, [(kind, msg)], {node kind: message} constness failures)"""
    import elabmodel as EM
    el, ls, rs, intr = _elab()
    bad = {"type": []}
    constness = {}
    cases = n_ok = 0
    is_obj = name in el.u.objects
    array_of_const = name.startswith("const ")
    is_matrix = name in el.u.names and el.u.base[el.u.names[name]].variant == "Matrix"
    for m, vt in ((0, "Lvalue"), (1, "Lvalue"), (2, "Lvalue"), (0, "Rvalue")) + (((3, "Lvalue"), (4, "Lvalue")) if is_matrix else ()):
        if array_of_const and m:
            continue
        comp = el.ety(name, m, vt)
        forms = [("%s.%s" % (el.describe(comp), sw), I.Enum("Expression", "Member", {"0": EM.located("L"), "1": EM.member_path(sw)}), {"L": comp}, ("L",))
                 for sw in SWIZZLES if not is_obj or name == "RayDesc"]
        for it, ivt in INDEX_TYPES:
            if it in el.u.names:
                ie = el.ety(it, 0, ivt)
                forms.append(("%s[%s]" % (el.describe(comp), el.describe(ie)), I.Enum("Expression", "ArraySubscript", {"0": EM.located("L"), "1": EM.located("R")}),
                              {"L": comp, "R": ie}, ("L", "R")))
        for what, ast_node, operands, tags in forms:
            cases += 1
            res = el.run_expr(ast_node, operands)
            if res[0] == "unreadable":
                return (name, False, cases, n_ok, res[1], {})
            if res[0] == "aborts":
                addbad(bad, "%s: elaboration aborts (%s)" % (what, res[1]))
                continue
            if res[0] == "Err" or res[2] is None:
                continue
            n_ok += 1
            node, ty = res[1], res[2]
            msgs = el.check_node(what, node, ty, operands, tags)
            for kind, msg in msgs:
                if kind == "unreadable":
                    return (name, False, cases, n_ok, msg, {})
                addbad(bad, msg)
            # a part of a const value is not writable: const-qualified, or not an lvalue
            # (a const resource handle does not make the resource contents const: value types and RayDesc only)
            if not msgs and (not is_obj or name == "RayDesc") and (m in (1, 3, 4) or array_of_const) and vt == "Lvalue" and el.is_lvalue(ty) and not el.is_const(ty):
                kind = node.variant
                constness.setdefault(kind, "%s has type %s: a part of a const value is a plain lvalue, so assignments, ++/-- and out arguments accept it" % (what, el.describe(ty)))
    return (name, True, cases, n_ok, bad, constness)


def rule_access_eval(chk):
    """The Member and ArraySubscript arms of parse_expr_unchecked evaluated over scalars, vectors, matrices, structs, arrays
    and every object type: every accepted access is typed again by Expression::get_type (no abort, same type as
    reported), and a part selected from a const value is itself const (or not an lvalue)."""
    f = chk.facts
    el, ls, rs, intr = _elab()
    pe = f.fn("parse_expr_unchecked", TY)
    if not pe or not el.get_type:
        return False
    names = [n for n in ("Float32", "Int32", "Float322", "Float324", "Bool3", "Float322x2", "Int324x4", "Struct", "Enum", "Float32[4]", "Struct[]", "const Float324[2]")
             if n in el.u.names] + list(el.u.objects)
    res = _pmap(_access_task, names)
    if not all(r[1] for r in res):
        return chk.unreadable("C03.access/readable", "parse_expr_unchecked (member / subscript arms)", [(r[0], r[4]) for r in res if not r[1]][:1], where(pe))
    for name, _r, cases, n_ok, bad, constness in sorted(res):
        chk.ob("C03.access/" + name, not bad["type"], "%d member / subscript forms (%d accepted): each accepted node is typed by the IR rule without aborting, as reported" % (cases, n_ok)
               if not bad["type"] else "; ".join(m for k, m in bad["type"]), where(pe), sample={"composite": name, "cases": cases, "accepted": n_ok})
    kinds = {}
    for r in res:
        for k, m in r[5].items():
            kinds.setdefault(k, m)
    seen = set()
    for r in res:
        seen |= set()
    for k in ("Swizzle", "MatrixSwizzle", "ArraySubscript", "StructMember"):
        chk.ob("C03.constness/" + k, k not in kinds, "a %s of a const value is const-qualified or an rvalue" % k if k not in kinds else kinds[k], where(pe))
    for k in sorted(set(kinds) - {"Swizzle", "MatrixSwizzle", "ArraySubscript", "StructMember"}):
        chk.ob("C03.constness/" + k, False, kinds[k], where(pe))
    chk.floor("C03.floor/access-accepted", sum(r[3] for r in res), 300, "accepted member / subscript forms typed again", where(pe))
    return True


def _call_check(el, what, res, operands, params, given, bad):
    """an accepted call: Call node, the given operands in order, argument i has exactly the parameter's type (and is a
    non-const lvalue for out / inout), reported type = return type"""
    node, ty = res[1], res[2]
    if not (isinstance(node, I.Enum) and node.variant == "Call" and isinstance(node.fields.get("2"), list)):
        addbad(bad, "%s: elaborates to %s, not to a call" % (what, el.show(node)))
        return
    args = node.fields["2"]
    tags = list(el.TAGS[:given])
    if len(args) != given or [el.leaves(a) for a in args] != [[t] for t in tags]:
        addbad(bad, "%s: the call's arguments are %s, must be the %d given expressions in order" % (what, [el.leaves(a) for a in args], given))
        return
    for i, a in enumerate(args):
        t = el.node_type(a, operands)
        if t[0] != "ok":
            addbad(bad, "%s: argument %d has no type (%s)" % (what, i, t[0]))
            return
        pt, pm, im = params[i]
        want = el.u.type_id(pt, pm)
        same = t[1].fields["0"] == want if im != "In" else el.u.split(t[1].fields["0"])[0] == el.u.split(want)[0]
        if not same:
            addbad(bad, "%s: argument %d reaches the call as %s, the parameter is %s%s" % (what, i, el.describe(t[1]), {0: "", 1: "const ", 2: "volatile "}[pm], pt))
            return
        if im != "In" and not el.is_lvalue(t[1]):
            addbad(bad, "%s: argument %d for an %s parameter is not an lvalue (%s)" % (what, i, im.lower(), el.show(a)))
            return
    if not el.casts_ok(node, operands):
        addbad(bad, "%s: an argument is converted in a way no implicit conversion allows: %s" % (what, el.show(node)))
    if ty is not None and el.describe(ty) != "Float32 rvalue":
        addbad(bad, "%s: reported type %s is not the function's return type" % (what, el.describe(ty)))


def _call_task(ptype):
    """one overload f(<im> <mod> ptype p) called with every operand -> (ptype, readable, cases, accepted, bad)"""
    el, ls, rs, intr = _elab()
    bad = {"type": [], "In": None, "Out": None, "InOut": None}
    cases = n_ok = 0
    for pm in (0, 1):
        for im in (("In", "Out", "InOut") if not pm else ("In",)):     # `out const T` is not a meaningful parameter
            for a in ls:
                cases += 1
                res, operands = el.run_call([(ptype, pm, im)], [a])
                what = "f(%s %s%s) called with %s" % (im.lower(), "const " if pm else "", ptype, el.describe(a))
                if res[0] == "unreadable":
                    return (ptype, False, cases, n_ok, res[1])
                if res[0] == "aborts":
                    addbad(bad, "%s: elaboration aborts (%s)" % (what, res[1]))
                    continue
                if res[0] == "Err":
                    continue
                n_ok += 1
                if im != "In" and (not el.is_lvalue(a) or (el.is_const(a) and not pm)):
                    bad[im] = bad[im] or "%s is accepted: %s" % (what, "the argument is not an lvalue" if not el.is_lvalue(a) else "a const argument can be written through the parameter")
                    continue
                _call_check(el, what, res, operands, [(ptype, pm, im)], 1, bad)
    # two parameters (positions), a defaulted parameter, and the argument-count window
    for a in ls[:8]:
        b = el.ety("Int32", 0, "Rvalue")
        params = [(ptype, 0, "InOut"), ("Float32", 0, "In")]
        for given, defaults in ((2, 0), (1, 1), (1, 0), (3, 0)):
            cases += 1
            args = [a, b, b][:given]
            res, operands = el.run_call(params if given < 3 else params, args, defaults)
            what = "f(inout %s, float%s) called with %d arguments (%s, ..)" % (ptype, " = default" if defaults else "", given, el.describe(a))
            if res[0] == "unreadable":
                return (ptype, False, cases, n_ok, res[1])
            if res[0] == "aborts":
                addbad(bad, "%s: elaboration aborts (%s)" % (what, res[1]))
                continue
            if res[0] == "Err":
                continue
            n_ok += 1
            if given > 2 or given < 2 - defaults:
                addbad(bad, "%s is accepted: wrong number of arguments" % what)
                continue
            _call_check(el, what, res, operands, params, given, bad)
    return (ptype, True, cases, n_ok, bad)


def rule_call_eval(chk):
    """write_function (find_function_type + find_overload_casts + apply_casts) evaluated for one scripted overload over
    parameter types x in/out/inout x const x every operand: an accepted call passes each argument with exactly the
    parameter's type, out / inout arguments are non-const lvalues, argument order and count are kept. True when readable."""
    f = chk.facts
    el, ls, rs, intr = _elab()
    wf = f.fn("write_function", TY)
    if not wf:
        return False
    ptypes = [t for t in QUICK_TYPES if t in el.u.names]
    res = _pmap(_call_task, ptypes)
    if not all(r[1] for r in res):
        return chk.unreadable("C03.call/readable", "write_function", [(r[0], r[4]) for r in res if not r[1]][:1], where(wf))
    for ptype, _r, cases, n_ok, bad in sorted(res):
        chk.ob("C03.call/args/" + ptype, not bad["type"], "%d calls (%d accepted): every argument reaches the call with exactly the parameter's type, in order" % (cases, n_ok)
               if not bad["type"] else "; ".join(m for k, m in bad["type"]), where(wf), sample={"param": ptype, "cases": cases, "accepted": n_ok})
    for im in ("Out", "InOut"):
        b = [r[4][im] for r in res if r[4][im]]
        chk.ob("C03.call/%s-needs-mutable-lvalue" % im.lower(), not b, "rvalue and const arguments are refused for %s parameters" % im.lower() if not b else b[0], where(wf))
    chk.floor("C03.floor/call-accepted", sum(r[3] for r in res), 300, "accepted calls checked", where(wf))
    return True


def _base_of(el, node, operands):
    t = el.node_type(node, operands)
    return el.u.split(t[1].fields["0"])[0] if t[0] == "ok" else None


def _stmt_task(tname):
    """`return L;` in a function returning tname, and a variable of type tname initialised from an expression / an
    aggregate -> (tname, readable, cases, accepted, bad)"""
    el, ls, rs, intr = _elab()
    bad = {"type": []}
    cases = n_ok = 0
    want = el.u.names[tname]
    for a in ls:
        cases += 1
        res, operands = el.run_return(tname, a)
        what = "`return %s;` in a function returning %s" % (el.describe(a), tname)
        if res[0] == "unreadable":
            return (tname, False, cases, n_ok, res[1])
        if res[0] == "aborts":
            addbad(bad, "%s: elaboration aborts (%s)" % (what, res[1]))
        if res[0] != "Ok":
            continue
        n_ok += 1
        sts = res[1]
        e = None
        if isinstance(sts, list) and len(sts) == 1 and isinstance(sts[0], I.Enum):
            k = sts[0].fields.get("kind")
            if isinstance(k, I.Enum) and k.variant == "Return" and isinstance(k.fields.get("0"), I.Enum) and k.fields["0"].variant == "Some":
                e = k.fields["0"].fields["0"]
        if e is None or el.leaves(e) != ["L"]:
            addbad(bad, "%s: does not elaborate to a return of the expression" % what)
        elif _base_of(el, e, operands) != want or not el.casts_ok(e, operands):
            addbad(bad, "%s: the returned expression %s does not have the return type" % (what, el.show(e)))
    if tname == "Void":
        return (tname, True, cases, n_ok, bad)
    layer = el.u.base[want]
    members = {"Struct": ["Float32", "Float324"]}.get(tname)
    if layer.variant == "Vector":
        members = [[k for k, v in el.u.names.items() if v == layer.fields["0"].fields["0"]][0]] * layer.fields["1"]
    for mod in (0, 1):
        for a in ls:
            forms = [a, []]
            if members and len(members) <= 4:
                forms.append([a] * len(members))
                forms.append([a] * (len(members) + 1))
            else:
                forms.append([a])
                forms.append([a, a])
            for form in forms:
                cases += 1
                res, operands = el.run_initializer(tname, mod, form)
                what = "%s%s x = %s" % ("const " if mod else "", tname, el.describe(a) if not isinstance(form, list) else "{ %s }" % ", ".join([el.describe(a)] * len(form)))
                if res[0] == "unreadable":
                    return (tname, False, cases, n_ok, res[1])
                if res[0] == "aborts":
                    addbad(bad, "%s: elaboration aborts (%s)" % (what, res[1]))
                if res[0] != "Ok":
                    continue
                n_ok += 1
                init = res[1]
                if form == []:
                    addbad(bad, "%s: an empty aggregate is accepted" % what)
                elif isinstance(init, I.Enum) and init.variant == "Expression":
                    e = init.fields["0"]
                    # `{ x }` for a scalar is read as `x`
                    if el.leaves(e) != ["L"] or _base_of(el, e, operands) != want or not el.casts_ok(e, operands):
                        addbad(bad, "%s: the initialiser %s does not have the variable's type" % (what, el.show(e)))
                elif isinstance(init, I.Enum) and init.variant == "Aggregate" and isinstance(form, list) and members:
                    els = init.fields["0"]
                    if len(form) != len(members) or len(els) != len(members):
                        addbad(bad, "%s: an aggregate of %d elements initialises %d members" % (what, len(form), len(members)))
                        continue
                    for i, (x, mname) in enumerate(zip(els, members)):
                        e = x.fields.get("0") if isinstance(x, I.Enum) and x.variant == "Expression" else None
                        if e is None or el.leaves(e) != [el.TAGS[i]] or _base_of(el, e, operands) != el.u.names[mname] or not el.casts_ok(e, operands):
                            addbad(bad, "%s: element %d (%s) does not have the member's type %s" % (what, i, el.show(e) if e is not None else x, mname))
                            break
                else:
                    addbad(bad, "%s: elaborates to %s" % (what, repr(init)[:80]))
    return (tname, True, cases, n_ok, bad)


def rule_stmt_eval(chk):
    """The return arm of parse_statement and parse_initializer evaluated over return / variable types x every operand:
    what is returned / stored has exactly the declared type (conversion made explicit), aggregates match members one
    to one."""
    f = chk.facts
    el, ls, rs, intr = _elab()
    ps, pi = f.fn("parse_statement", TY), f.fn("parse_initializer", TY)
    if not ps or not pi:
        return False
    names = [t for t in QUICK_TYPES + ["Void"] if t in el.u.names]
    res = _pmap(_stmt_task, names)
    if not all(r[1] for r in res):
        return chk.unreadable("C03.stmt/readable", "parse_statement (return) / parse_initializer", [(r[0], r[4]) for r in res if not r[1]][:1], where(ps))
    for tname, _r, cases, n_ok, bad in sorted(res):
        chk.ob("C03.stmt/" + tname, not bad["type"], "%d return statements and initialisers (%d accepted): the value has exactly the declared type" % (cases, n_ok)
               if not bad["type"] else "; ".join(m for k, m in bad["type"]), where(ps), sample={"type": tname, "cases": cases, "accepted": n_ok})
    chk.floor("C03.floor/stmt-accepted", sum(r[3] for r in res), 300, "accepted returns / initialisers checked", where(ps))
    return True


CTOR_TYPES = ["Float32", "Int32", "Bool", "Float322", "Float324", "Int323", "Float322x2"]
CTOR_ARGS = [("Int32", 0, "Lvalue"), ("Float32", 0, "Rvalue"), ("Bool", 1, "Lvalue"), ("Float322", 1, "Lvalue"), ("Int323", 0, "Rvalue"), ("Float324", 0, "Lvalue"),
             ("Float322x2", 0, "Lvalue"), ("Struct", 0, "Lvalue"), ("Enum", 0, "Rvalue")]


def _ctor_task(tname):
    """T(args..) for every list of 1..3 arguments -> (tname, readable, cases, accepted, bad)"""
    import itertools
    el, ls, rs, intr = _elab()
    bad = {"type": []}
    cases = n_ok = 0
    args = [el.ety(*a) for a in CTOR_ARGS if a[0] in el.u.names]
    tgt = el.ety(tname, 0, "Rvalue")
    for k in (1, 2, 3):
        for combo in itertools.product(args, repeat=k):
            cases += 1
            res, operands = el.run_constructor(tname, list(combo))
            what = "%s(%s)" % (tname, ", ".join(el.describe(x) for x in combo))
            if res[0] == "unreadable":
                return (tname, False, cases, n_ok, res[1])
            if res[0] == "aborts":
                addbad(bad, "%s: elaboration aborts (%s)" % (what, res[1]))
            if res[0] != "Ok":
                continue
            n_ok += 1
            node, ty = res[1], res[2]
            slots = node.fields.get("1") if isinstance(node, I.Enum) and node.variant == "Constructor" else None
            if not isinstance(slots, list) or node.fields.get("0") != tgt.fields["0"] or ty != tgt:
                addbad(bad, "%s: does not elaborate to a constructor of the type" % what)
                continue
            if [el.leaves(x) for x in slots] != [[t] for t in el.TAGS[:k]]:
                addbad(bad, "%s: the constructor's slots are not the arguments in order" % what)
                continue
            total = 0
            for i, sl in enumerate(slots):
                e = sl.fields.get("expr")
                t = el.node_type(e, operands)
                n_el = el.elements(t[1]) if t[0] == "ok" else None
                if n_el is None or el.scalar(t[1]) != el.scalar(tgt) or not el.casts_ok(e, operands):
                    addbad(bad, "%s: slot %d (%s) is not a numeric value of the constructed element type" % (what, i, el.show(e)))
                    break
                if sl.fields.get("arity") != n_el or n_el != el.elements(combo[i]):
                    addbad(bad, "%s: slot %d is recorded with arity %s but has %s elements" % (what, i, sl.fields.get("arity"), n_el))
                    break
                total += n_el
            else:
                if total != el.elements(tgt):
                    addbad(bad, "%s is accepted: the arguments supply %d elements, the type has %d" % (what, total, el.elements(tgt)))
    return (tname, True, cases, n_ok, bad)


def rule_ctor_eval(chk):
    """parse_expr_constructor evaluated for numeric types x all argument lists of length <= 3 over nine operand types:
    slots are the arguments in order, each converted to the constructed element type, arities sum to the element count."""
    f = chk.facts
    el, ls, rs, intr = _elab()
    pc = f.fn("parse_expr_constructor", TY)
    if not pc:
        return False
    res = _pmap(_ctor_task, [t for t in CTOR_TYPES if t in el.u.names])
    if not all(r[1] for r in res):
        return chk.unreadable("C03.ctor/readable", "parse_expr_constructor", [(r[0], r[4]) for r in res if not r[1]][:1], where(pc))
    for tname, _r, cases, n_ok, bad in sorted(res):
        chk.ob("C03.ctor/" + tname, not bad["type"], "%d argument lists (%d accepted): slots in order, converted to the element type, element counts add up" % (cases, n_ok)
               if not bad["type"] else "; ".join(m for k, m in bad["type"]), where(pc), sample={"type": tname, "cases": cases, "accepted": n_ok})
    chk.floor("C03.floor/ctor-accepted", sum(r[3] for r in res), 100, "accepted constructors checked", where(pc))
    return True


def abort_survey(facts, tier="quick"):
    """For C08: the elaboration tables run again, keeping only the operand combinations on which the typer itself aborts or
    builds a node whose type the IR rule cannot give without aborting. -> {family: (cases, [messages]) } | None if
    a table is not readable."""
    _W.clear()
    _W["facts"], _W["tier"] = facts, tier
    el, ls, rs, intr = _elab()
    if not el.binop or not el.unop or not el.get_type:
        return None
    out = {}
    binops = facts.variants("ast_expressions::BinOp", "rssl_ast") or []
    unops = facts.variants("ast_expressions::UnaryOp", "rssl_ast") or []
    names = [n for n in ("Float32", "Int32", "Float322", "Float324", "Bool3", "Float322x2", "Int324x4", "Struct", "Enum", "Float32[4]", "Struct[]", "const Float324[2]")
             if n in el.u.names] + list(el.u.objects)
    fams = [("binary-operators", _binop_task, binops), ("unary-operators", _unop_task, unops), ("ternary", _ternary_task, list(range(13))),
            ("member-and-subscript", _access_task, names), ("calls", _call_task, [t for t in QUICK_TYPES if t in el.u.names]),
            ("return-and-initialisers", _stmt_task, [t for t in QUICK_TYPES + ["Void"] if t in el.u.names]),
            ("constructors", _ctor_task, [t for t in CTOR_TYPES if t in el.u.names])]
    for fam, task, items in fams:
        res = _pmap(task, items)
        if not all(r[1] for r in res):
            return None
        msgs = []
        for r in res:
            for k, m in r[4]["type"]:
                if "aborts" in m or "refuses the node" in m:
                    msgs.append(m)
        out[fam] = (sum(r[2] for r in res), msgs)
    return out


def rule_intrinsic_modifiers(chk):
    """The signatures of the built-in object methods are built from tables of (type, in/out/inout) pairs. get_methods is
    evaluated for every object type and the parameter modifiers of every signature it returns are compared with the
    table the function selected: an `out` of the table must arrive as `out` in the signature (out/inout arguments are
    checked against the signature, C03.call). Also: the conversion TypeId -> ParamType, which defaults the modifier to
    `in`, is not used outside tests."""
    import convmodel as CM
    f = chk.facts
    gm = f.fn("get_methods", "rssl_ir")
    if not chk.anchor("C03.anchor/get_methods", gm, "intrinsic_data::get_methods"):
        return
    u = CM.Universe(f)
    ext = dict(u.externs())
    ext["get_template_params"] = lambda a: []
    ip = I.Interp(f, max_depth=10, extern=ext)
    ip.max_loop = 512
    mod = I.Enum("Module", None, {"type_registry": I.Opaque("types")})
    # the tables: every constant slice of IntrinsicDefinition in the module; a method list is matched to its table by
    # the sequence of (name, intrinsic) pairs, however get_methods selects it
    tables = []
    for b_ in f.crates.get("rssl_ir", {}).get("bodies", []):
        if b_.get("kind") in ("Const", "Static") and "intrinsic_data" in b_["path"] and "IntrinsicDefinition" in (b_.get("ty") or b_.get("ret") or "") + str(b_.get("thir", {}).get("ty", "")):
            try:
                t_ = ip.ev(b_["thir"], {}, 0)
            except I.Unknown:
                continue
            if isinstance(t_, list) and t_ and all(isinstance(d, I.Enum) and "param_types" in d.fields for d in t_):
                tables.append((short(b_["path"]), t_))
    if not chk.anchor("C03.anchor/intrinsic-tables", tables, "constant tables of IntrinsicDefinition", where(gm)):
        return
    sig_of = lambda d: (d.fields.get("function_name"), repr(d.fields.get("intrinsic")))
    n_methods = n_out = 0
    bad = None
    for oname in u.objects:
        ot = u.base[u.names[oname]].fields["0"]
        try:
            methods = ip.apply(gm, [mod, ot])
        except I.Unknown as e:
            chk.unreadable("C03.out/intrinsic-methods/readable", "get_methods(%s)" % oname, e, where(gm))
            return
        if not isinstance(methods, list) or not methods:
            continue
        key = [(m.fields.get("name"), repr(m.fields.get("intrinsic"))) for m in methods]
        match = [t for n_, t in tables if [sig_of(d) for d in t] == key]
        if not match:
            bad = bad or "%s: the %d methods returned by get_methods are not the entries of any one intrinsic table, in order" % (oname, len(methods))
            continue
        table = match[0]
        for d, m in zip(table, methods):
            n_methods += 1
            want = [pd.fields["1"].variant for pd in d.fields["param_types"]]
            got = [p.fields["input_modifier"].variant if isinstance(p, I.Enum) and isinstance(p.fields.get("input_modifier"), I.Enum) else "?" for p in m.fields["signature"].fields["param_types"]]
            n_out += sum(1 for w in want if w != "In")
            if want != got:
                bad = bad or "%s::%s: the table declares the parameters %s, the signature carries %s" % (oname, d.fields.get("function_name"), want, got)
    chk.ob("C03.out/intrinsic-methods", bad is None, "%d built-in methods (%d out / inout parameters): every signature carries the modifiers of its table entry" % (n_methods, n_out)
           if bad is None else bad, where(gm), sample={"methods": n_methods, "out_params": n_out})
    chk.floor("C03.floor/intrinsic-methods", n_methods, 100, "built-in object methods read", where(gm))
    chk.floor("C03.floor/intrinsic-out-params", n_out, 40, "out / inout parameters in the method tables", where(gm))
    # wherever a signature parameter is built from a table entry (free intrinsics too): modifier and type come from the same entry
    n_sites = 0
    for b in f.crates.get("rssl_ir", {}).get("bodies", []):
        if "thir" not in b or "intrinsic_data" not in b["path"]:
            continue
        for a in F.exprs(b["thir"], "Adt"):
            if short(a.get("adt") or "") != "ParamType":
                continue
            flds = {x["f"]: x["e"] for x in a.get("fields", [])}
            if "input_modifier" not in flds or "type_id" not in flds:
                continue
            n_sites += 1
            im = F.strip(flds["input_modifier"])
            mv = F.leftmost_var(im)
            from_entry = im.get("k") == "Field" and str(im.get("name")) == "1" and mv is not None
            ty_vars = {v["id"] for v in F.exprs(flds["type_id"], "Var")}
            ok = from_entry and mv["id"] in ty_vars
            if not ok and im.get("k") in ("Var", "Deref") and mv is not None:
                # `ParamDef(ty, modifier)` destructured: both names are bound by one pattern, the modifier at position 1
                roots = [b["thir"]] + [pp_["pat"] for pp_ in b.get("params", []) if isinstance(pp_.get("pat"), dict)]
                for pat in [x for r_ in roots for x in F.walk(r_) if isinstance(x, dict) and x.get("k") in ("Variant", "Leaf", "TupleStruct") and "subs" in x]:
                    subs = {str(sp.get("f")): sp.get("p") for sp in pat.get("subs", [])}
                    b1 = [bd for bd in F.walk(subs.get("1") or {}) if isinstance(bd, dict) and bd.get("k") == "Bind"]
                    b0 = [bd for bd in F.walk(subs.get("0") or {}) if isinstance(bd, dict) and bd.get("k") == "Bind"]
                    if any(bd.get("id") == mv["id"] for bd in b1) and any(bd.get("id") in ty_vars for bd in b0):
                        ok = True
            chk.ob("C03.out/intrinsic-entry/%s#%d" % (short(b.get("parent") or b["path"]), n_sites), ok,
                   "the parameter's modifier and type are read from the same table entry" if ok else
                   "a signature parameter is built with a modifier that is not the `.1` of the table entry its type comes from", where(b, a.get("ln")))
    chk.floor("C03.floor/intrinsic-entry-sites", n_sites, 1, "ParamType constructions in intrinsic_data", "ir/src/intrinsic_data.rs")
    # the defaulting conversion is not used where signatures are built
    uses = []
    for path, b in f.bodies.items():
        if "thir" not in b:
            continue
        for c in F.exprs(b["thir"], "Call"):
            fn, rfn, ta = c.get("fn") or "", c.get("rfn") or "", c.get("targs") or []
            if ("ParamType" in rfn and "From<" in rfn) or (fn.endswith("Into::into") and len(ta) == 2 and ta[1].endswith("::ParamType")) or \
                    (fn.endswith("From::from") and (c.get("ty") or "").endswith("::ParamType")):
                uses.append((b, c))
    imp = [p_ for p_ in f.bodies if "ParamType as core::convert::From<" in p_]
    chk.ob("C03.out/no-defaulted-modifier", not uses, "the TypeId -> ParamType conversion (modifier defaults to `in`; %d impl) is not called in non-test code" % len(imp) if not uses else
           "%s builds a parameter with the TypeId -> ParamType conversion, which drops the declared modifier and makes the parameter `in`" % short(uses[0][0]["path"]),
           where(uses[0][0], uses[0][1].get("ln")) if uses else where(gm))




def rule_local_constants(chk):
    """Which locals are compile-time constants: parse_vardef read on model definitions (const / non-const type x
    initialiser that folds / does not fold / is an aggregate / is absent). A local carries a constant value - and may then
    stand where the language requires a constant expression: array sizes, case labels, template arguments - exactly when
    its type is const and its initialiser is an expression that folds. A mutable local never does: its value at the point
    of use is not the initialiser's."""
    import interp as I
    f = chk.facts
    fn = f.fn("parse_vardef", "rssl_typer")
    if not fn:
        chk.note("C03.locals: parse_vardef not found; not decided")
        return
    ok = lambda v: I.Enum("Result", "Ok", {"0": v})
    opt = lambda v: I.Enum("Option", "None") if v is None else I.Enum("Option", "Some", {"0": v})
    loc = lambda v: I.Enum("Located", None, {"node": v, "location": I.Opaque("location")})
    tid = lambda n_: I.Enum("TypeId", None, {"0": n_})

    def deref(v):
        return v.get() if isinstance(v, I.Ref) else v
    PLAIN, CONST = 3, 7
    inits = {"folds": I.Enum("Initializer", "Expression", {"0": I.Enum("Expression", "Tagged", {"folds": True})}),
             "does-not-fold": I.Enum("Initializer", "Expression", {"0": I.Enum("Expression", "Tagged", {"folds": False})}),
             "aggregate": I.Enum("Initializer", "Aggregate", {"0": []}), "absent": None}
    n = 0
    for tname, ty in (("mutable", PLAIN), ("const", CONST)):
        for iname, init in inits.items():
            got = []
            ext = {"parse_localtype": lambda a, ty=ty: ok((tid(ty), I.Enum("LocalStorage", "Local"), False)),
                   "parse_declarator": lambda a: ok((deref(a[1]), I.Enum("ScopedIdentifier", None, {"base": I.Enum("ScopedIdentifierBase", "Relative"), "identifiers": [loc("n")]}))),
                   "parse_initializer_opt": lambda a, init=init: ok(opt(init)),
                   "TypeRegistry::extract_modifier": lambda a: (tid(PLAIN), I.Enum("TypeModifier", None, {"is_const": deref(a[1]).fields["0"] == CONST, "volatile": False, "row_major": False, "column_major": False, "unorm": False, "snorm": False})),
                   "evaluate_constexpr": lambda a: ok(I.Enum("Constant", "UInt32", {"0": 2})) if deref(a[0]).fields.get("folds") else I.Enum("Result", "Err", {"0": ()}),
                   "register_local_variable": lambda a, got=got: got.append(deref(a[1])) or I.Enum("VariableId", None, {"0": 0}),
                   "insert_variable": lambda a: ok(())}
            vd = I.Enum("VarDef", None, {"local_type": I.Opaque("type"), "defs": [I.Enum("InitDeclarator", None, {"declarator": I.Opaque("declarator"), "location_annotations": [], "init": opt(None if init is None else I.Opaque("ast initializer"))})]})
            ctx = I.Enum("Context", None, {"module": I.Enum("Module", None, {"type_registry": I.Opaque("type registry"), "variable_registry": I.Opaque("variable registry")})})
            key = "C03.locals/constant/%s-%s" % (tname, iname)
            try:
                r = I.Interp(f, max_depth=6, extern=ext).apply(fn, [vd, ctx])
            except I.Unknown as e:
                if "panicking" in str(e):
                    chk.ob(key, False, "parse_vardef aborts on a %s local whose initialiser %s (%s)" % (tname, iname, str(e)[:60]), where(fn))
                else:
                    chk.unreadable(key, "parse_vardef on a model definition", str(e)[:100], where(fn))
                continue
            n += 1
            if not (isinstance(r, I.Enum) and r.variant == "Ok" and len(got) == 1 and isinstance(got[0], I.Enum)):
                chk.ob(key, False, "parse_vardef refuses / does not register a %s local whose initialiser %s" % (tname, iname), where(fn))
                continue
            cv = got[0].fields.get("constexpr_value")
            has = isinstance(cv, I.Enum) and cv.variant == "Some"
            want = ty == CONST and iname == "folds"
            chk.ob(key, has == want, ("carries its constant value" if want else "is not a compile-time constant") if has == want else
                   ("a %s local whose initialiser %s is registered with a constant value: it is accepted as an array size, case label or template argument although %s"
                    % (tname, iname, "its value can change before the use" if ty == PLAIN else "no constant was computed") if has else
                    "a const local with a folding initialiser is registered without its constant value: `const uint n = 2; float a[n];` is refused"), where(fn), sample={"type": tname, "initialiser": iname})
    chk.floor("C03.floor/local-definitions", n, 8, "local definitions evaluated", where(fn))


def rule_local_type(chk, prefix="C03.locals/type"):
    """parse_localtype read as a table over every ordered list of up to three of the modifiers a local can carry
    (static, const, volatile, precise; a modifier may repeat): the local is static exactly when `static` is written,
    precise exactly when `precise` is, wherever the keyword stands; extern / groupshared are refused."""
    import itertools
    import interp as I
    f = chk.facts
    fn = f.fn("parse_localtype", "rssl_typer")
    if not fn:
        chk.note("%s: parse_localtype not found; not decided" % prefix)
        return
    ok = lambda v: I.Enum("Result", "Ok", {"0": v})
    loc = lambda v: I.Enum("Located", None, {"node": v, "location": I.Opaque("location")})
    ext = {"parse_type_for_usage": lambda a: ok(I.Enum("TypeId", None, {"0": 3})), "TypeRegistry::is_void": lambda a: False}
    words = ["Static", "Const", "Volatile", "Precise"]
    lists = [()] + [c for k in (1, 2, 3) for c in itertools.product(words, repeat=k)] + [("Extern",), ("Const", "GroupShared"), ("Static", "Extern")]
    n = 0
    bad = None
    for mods in lists:
        ty = I.Enum("Type", None, {"layout": I.Opaque("layout"), "modifiers": I.Enum("TypeModifierSet", None, {"modifiers": [loc(I.Enum("TypeModifier", m)) for m in mods]}), "location": I.Opaque("location")})
        ctx = I.Enum("Context", None, {"module": I.Enum("Module", None, {"type_registry": I.Opaque("type registry")})})
        written = "`%s T x;`" % " ".join(m.lower() for m in mods) if mods else "`T x;`"
        try:
            r = I.Interp(f, max_depth=6, extern=ext).apply(fn, [ty, ctx])
        except I.Unknown as e:
            if "panicking" in str(e):
                bad = bad or "parse_localtype aborts on a local written %s (%s)" % (written, str(e)[:60])
                continue
            chk.note("%s: parse_localtype is not readable (%s); not decided" % (prefix, str(e)[:80]))
            return
        n += 1
        refused = isinstance(r, I.Enum) and r.variant == "Err"
        if "Extern" in mods or "GroupShared" in mods:
            if not refused:
                bad = bad or "a local written %s is accepted" % written
            continue
        if refused or not (isinstance(r.fields.get("0"), tuple) and len(r.fields["0"]) == 3):
            bad = bad or "a local written %s is refused" % written
            continue
        _t, st, pr = r.fields["0"]
        want = "Static" if "Static" in mods else "Local"
        if getattr(st, "variant", None) != want:
            bad = bad or "a local written %s gets storage %s, must be %s: the keyword's position decides whether the variable keeps its value between calls" % (written, getattr(st, "variant", st), want)
        elif bool(pr) != ("Precise" in mods):
            bad = bad or "a local written %s is %sprecise" % (written, "" if pr else "not ")
    chk.ob(prefix, bad is None, bad or "%d modifier lists: static / precise are recognised wherever they stand" % n, where(fn), sample={"lists": n})


def rule_global_type(chk):
    """parse_globaltype read as a table over the storage-class keywords a global can be written with (none, extern,
    static, groupshared, each with and without const, repeated, and conflicting pairs): the storage class is the one
    written (extern when none is), conflicting classes are refused, and the type of an extern global - written with the
    keyword or without - is const (that is what makes assignments to it, and passing it as out / inout, ill-typed);
    static and groupshared globals keep the type as written."""
    import interp as I
    f = chk.facts
    fn = f.fn("parse_globaltype", "rssl_typer")
    if not fn:
        chk.note("C03.globals: parse_globaltype not found; not decided")
        return
    ok = lambda v: I.Enum("Result", "Ok", {"0": v})
    loc = lambda v: I.Enum("Located", None, {"node": v, "location": I.Opaque("location")})

    def deref(v):
        return v.get() if isinstance(v, I.Ref) else v
    PLAIN, CONST = 3, 7
    ext = {"parse_type_for_usage": lambda a: ok(I.Enum("TypeId", None, {"0": CONST if any(m.fields["node"].variant == "Const" for m in deref(a[0]).fields["modifiers"].fields["modifiers"]) else PLAIN})),
           "TypeRegistry::is_void": lambda a: False, "TypeRegistry::make_const": lambda a: I.Enum("TypeId", None, {"0": CONST})}
    cases = {"no-class": [], "extern": ["Extern"], "static": ["Static"], "groupshared": ["GroupShared"], "const": ["Const"], "extern-const": ["Extern", "Const"], "const-extern": ["Const", "Extern"],
             "static-const": ["Static", "Const"], "groupshared-const": ["GroupShared", "Const"], "extern-twice": ["Extern", "Extern"], "static-twice": ["Static", "Static"],
             "extern-static": ["Extern", "Static"], "static-extern": ["Static", "Extern"], "static-groupshared": ["Static", "GroupShared"], "precise-extern": ["Precise", "Extern"]}
    n = 0
    for name, mods in cases.items():
        ty = I.Enum("Type", None, {"layout": I.Opaque("layout"), "modifiers": I.Enum("TypeModifierSet", None, {"modifiers": [loc(I.Enum("TypeModifier", m)) for m in mods]}), "location": I.Opaque("location")})
        ctx = I.Enum("Context", None, {"module": I.Enum("Module", None, {"type_registry": I.Opaque("type registry")})})
        key = "C03.globals/type/" + name
        try:
            r = I.Interp(f, max_depth=6, extern=ext).apply(fn, [ty, ctx])
        except I.Unknown as e:
            if "panicking" in str(e):
                chk.ob(key, False, "parse_globaltype aborts on a global written `%s T g;` (%s)" % (" ".join(m.lower() for m in mods), str(e)[:60]), where(fn))
            else:
                chk.unreadable(key, "parse_globaltype on a model global type", str(e)[:100], where(fn))
            continue
        n += 1
        classes = [m for m in mods if m in ("Extern", "Static", "GroupShared")]
        written = "`%s T g;`" % " ".join(m.lower() for m in mods) if mods else "`T g;`"
        if len(set(classes)) > 1:
            okk = isinstance(r, I.Enum) and r.variant == "Err"
            chk.ob(key, okk, "conflicting storage classes are refused" if okk else "a global written %s with two storage classes is accepted" % written, where(fn), sample={"case": name})
            continue
        want_storage = classes[0] if classes else "Extern"
        want_const = want_storage == "Extern" or "Const" in mods
        if not (isinstance(r, I.Enum) and r.variant == "Ok" and isinstance(r.fields.get("0"), tuple) and len(r.fields["0"]) == 2):
            chk.ob(key, False, "a global written %s is refused (%r)" % (written, r), where(fn), sample={"case": name})
            continue
        tid, st = r.fields["0"]
        got_const = isinstance(tid, I.Enum) and tid.fields.get("0") == CONST
        got_storage = getattr(st, "variant", None)
        bad = None
        if got_storage != want_storage:
            bad = "a global written %s gets storage class %s, must be %s" % (written, got_storage, want_storage)
        elif got_const != want_const:
            bad = ("a global written %s is extern, and extern globals are read-only: its type must be const, it is not - assignments to it and passing it as out / inout are accepted" % written) if want_const \
                else "a global written %s gets a const type although nothing makes it read-only" % written
        chk.ob(key, bad is None, bad or "%s -> %s, %s" % (written, want_storage, "const" if want_const else "type as written"), where(fn), sample={"case": name})
    chk.floor("C03.floor/global-types", n, 12, "global type spellings evaluated", where(fn))


def rule_param_variables(chk):
    """parse_function_body read on a model function: for every parameter (plain, const, array-of-const; in / out / inout;
    precise) the local variable that stands for it in the body is registered, and entered into the scope, with the type
    that was written on the parameter (modifiers included - that is what makes `const` parameters read-only), and the
    FunctionParam of the implementation carries the same type, input modifier, precise flag and the variable's id."""
    import interp as I
    f = chk.facts
    fn = f.fn("parse_function_body", "rssl_typer")
    if not fn:
        return
    ok = lambda v: I.Enum("Result", "Ok", {"0": v})
    opt = lambda v: I.Enum("Option", "None") if v is None else I.Enum("Option", "Some", {"0": v})
    loc = lambda v: I.Enum("Located", None, {"node": v, "location": I.Opaque("location")})
    tid = lambda n: I.Enum("TypeId", None, {"0": n})

    def deref(v):
        return v.get() if isinstance(v, I.Ref) else v
    # written type id -> the id with its outer modifier stripped (what the signature keeps)
    STRIP = {3: 3, 1003: 3, 20: 20, 1020: 20, 2003: 3}
    params = [("a", 3, "In", False), ("b", 1003, "In", False), ("c", 1020, "In", True), ("d", 3, "Out", False), ("e", 2003, "InOut", False), ("g", 20, "In", False)]
    regs, scope, impl = [], [], []
    ext = {"revisit_function": lambda a: (), "parse_function_attributes": lambda a: ok([]), "parse_statement_list": lambda a: ok([]),
           "pop_scope_with_locals": lambda a: I.Enum("ScopedDeclarations", None, {"variables": []}),
           "strip_param_type": lambda a: tid(STRIP[deref(a[0]).fields["0"]]), "get_type_name_short": lambda a: "type",
           "parse_paramtype": lambda a: ok(I.Enum("ParsedParam", None, dict(deref(a[0]).fields["parsed"].fields))),
           "register_local_variable": lambda a: regs.append(deref(a[1])) or I.Enum("VariableId", None, {"0": 100 + len(regs) - 1}),
           "insert_variable": lambda a: scope.append((deref(a[1]).fields["node"], deref(a[2]).fields["0"], deref(a[3]).fields["0"])) or ok(()),
           "set_implementation": lambda a: impl.append(deref(a[2])) or ()}
    ast_params = [I.Enum("FunctionParam", None, {"parsed": I.Enum("ParsedParam", None, {
        "name": loc(n), "type_id": tid(t), "input_modifier": I.Enum("InputModifier", im), "interpolation_modifier": opt(None), "precise": pr, "semantic": opt(None), "default_expr": opt(None)})})
        for n, t, im, pr in params]
    fd = I.Enum("FunctionDefinition", None, {"params": ast_params, "attributes": [], "body": opt([]), "name": loc("fn")})
    sig = I.Enum("FunctionSignature", None, {"param_types": [I.Enum("ParamType", None, {"type_id": tid(STRIP[t]), "input_modifier": I.Enum("InputModifier", im)}) for _n, t, im, _p in params],
                                             "non_default_params": len(params), "template_params": [], "return_type": I.Opaque("return type")})
    ctx = I.Enum("Context", None, {"module": I.Enum("Module", None, {"variable_registry": I.Opaque("variable registry"), "function_registry": I.Opaque("function registry")})})
    try:
        r = I.Interp(f, max_depth=6, extern=ext).apply(fn, [fd, I.Enum("FunctionId", None, {"0": 1}), sig, ctx])
    except I.Unknown as e:
        if "panicking" in str(e):
            chk.ob("C03.params/variables", False, "parse_function_body aborts on a function with const / out / precise parameters (%s)" % str(e)[:80], where(fn))
        else:
            chk.unreadable("C03.params/variables", "parse_function_body on the model function", str(e)[:100], where(fn))
        return
    bad = None
    if not (isinstance(r, I.Enum) and r.variant == "Ok") or len(impl) != 1:
        bad = "the model function is refused or its implementation is not stored (%s)" % (r,)
    else:
        ps = impl[0].fields.get("params") or []
        if len(regs) != len(params) or len(scope) != len(params) or len(ps) != len(params):
            bad = "%d parameters: %d variables registered, %d entered into the scope, %d in the implementation" % (len(params), len(regs), len(scope), len(ps))
        for i, (n, t, im, pr) in enumerate(params):
            if bad:
                break
            what = "parameter `%s` (%s%s type %d)" % (n, "precise " if pr else "", im, t)
            if regs[i].fields["type_id"].fields["0"] != t:
                bad = "%s: its variable is registered with type %d - the modifiers written on the parameter are lost, so a `const` parameter can be assigned to or passed as out" % (what, regs[i].fields["type_id"].fields["0"])
            elif scope[i] != (n, 100 + i, t):
                bad = "%s: entered into the scope as %s, must be (name, its variable, the written type) = %s" % (what, scope[i], (n, 100 + i, t))
            elif regs[i].fields["precise"] is not pr or regs[i].fields["storage_class"].variant != "Local":
                bad = "%s: its variable is registered with precise=%s, storage %s" % (what, regs[i].fields["precise"], regs[i].fields["storage_class"].variant)
            else:
                p = ps[i].fields
                got = (p["id"].fields["0"], p["param_type"].fields["type_id"].fields["0"], p["param_type"].fields["input_modifier"].variant, p["precise"])
                if got != (100 + i, t, im, pr):
                    bad = "%s: the implementation records (variable, type, modifier, precise) = %s, must be %s" % (what, got, (100 + i, t, im, pr))
    chk.ob("C03.params/variables", bad is None, bad or "%d parameters: variable, scope entry and implementation agree with what was written" % len(params), where(fn), sample={"parameters": len(params)})

def run(chk):
    f = chk.facts
    rb, ru = rule_elab_eval(chk)
    rule_access_eval(chk)
    rule_call_eval(chk)
    rule_stmt_eval(chk)
    rule_ctor_eval(chk)
    rule_intrinsic_modifiers(chk)
    rule_param_variables(chk)
    rule_global_type(chk)
    rule_local_constants(chk)
    if not rb:
        rule_assign(chk)
    if not ru:
        rule_incdec(chk)
    rule_conv_table(chk)
    rule_out(chk)
    rule_through(chk, binop_evaluated=rb)
    rule_total(chk)
    rule_swizzle_value_type(chk)
    rule_matrix_subscript(chk)
    rule_local_type(chk)
    rule_lvalue_destination(chk)


def rule_assign(chk):
    f = chk.facts
    fn = chk.anchor("C03.anchor/parse_expr_binop", f.fn("parse_expr_binop", TY), "parse_expr_binop")
    if not fn:
        return
    cfg = M.Cfg(fn)
    vt = f.variants("ir_types::ValueType", "rssl_ir") or f.variants("ValueType", "rssl_ir")
    if not chk.anchor("C03.anchor/ValueType", vt, "ir::ValueType enum"):
        return
    lv = vt.index("Lvalue")
    sites = {}
    for i, j, s in cfg.stmts(lambda s: s.get("r") == "Agg" and short(s.get("adt", "")) == "IntrinsicOp" and s.get("variant") in ASSIGN_OPS):
        sites[s["variant"]] = (i, s)
    for op in ASSIGN_OPS:
        chk.ob("C03.assign/site/" + op, op in sites, "IntrinsicOp::%s construction site" % op if op in sites else
               "anchor-missing: parse_expr_binop never builds IntrinsicOp::" + op, where(fn), trivial=True)
    is_const = M.is_field("is_const")
    te, fe = M.guard_edges(cfg, is_const)
    lv_edges, _ = discr_edges(cfg, "ValueType", lv)
    # which local carries the tested type: the root of the Discr place / of the extract_modifier argument
    for op, (bb, s) in sorted(sites.items()):
        ok_c, n_c = M.dominated_by_guard(cfg, bb, is_const, want=False)
        chk.ob("C03.assign/const/" + op, ok_c, "dominated by the is_const == false edge" if ok_c else
               "IntrinsicOp::%s can be built for a const-qualified left operand (no MutableRequired rejection on this path)" % op,
               where(fn, s.get("ln")), sample={"op": op, "guard": "is_const", "ok": ok_c})
        reach = cfg.reachable_from(0, avoid_edges=lv_edges) if lv_edges else set(range(cfg.n))
        ok_l = bool(lv_edges) and bb not in reach
        chk.ob("C03.assign/lvalue/" + op, ok_l, "dominated by the ValueType::Lvalue arm" if ok_l else
               "IntrinsicOp::%s can be built when the left operand is not an lvalue (no LvalueRequired rejection on this path)" % op,
               where(fn, s.get("ln")), sample={"op": op, "guard": "Lvalue", "ok": ok_l})
    # both guards look at the left operand: the expression stored as element 0 of the node's argument vector
    # and the tested type come from the same TypedExpression (first parse_expr_internal result)
    calls = cfg.calls("parse_expr_internal")
    ok_left = False
    if len(calls) >= 2:
        first_dest = calls[0][1]["d"]
        first_dest = first_dest if isinstance(first_dest, int) else first_dest["l"]
        tested = set()
        for i, b in enumerate(cfg.blocks):
            for s in b["s"]:
                if s.get("r") == "Discr" and (s.get("adt") or "").endswith("ValueType"):
                    p = s["p"]
                    tested.add(p if isinstance(p, int) else p["l"])
        for bb, t in cfg.calls("extract_modifier"):
            p = M.op_place(t["args"][1]) if len(t["args"]) > 1 else None
            if p is not None:
                tested.add(p if isinstance(p, int) else p["l"])
        roots = set()
        for l in tested:
            sig = cfg.slice([l], through_calls=True)
            roots |= sig.locals
        second_dest = calls[1][1]["d"]
        second_dest = second_dest if isinstance(second_dest, int) else second_dest["l"]
        ok_left = first_dest in roots and second_dest not in roots
    chk.ob("C03.assign/tests-left-operand", ok_left, "const / lvalue tests read the left operand's type" if ok_left else
           "the const / lvalue tests no longer (only) read the type of the left operand", where(fn))
    errs = {s.get("variant") for i, j, s in cfg.stmts(lambda s: s.get("r") == "Agg" and short(s.get("adt", "")) == "TyperError")}
    chk.ob("C03.assign/errors", {"MutableRequired", "LvalueRequired"} <= errs, "rejections: MutableRequired, LvalueRequired",
           where(fn))


def rule_incdec(chk):
    f = chk.facts
    fn = chk.anchor("C03.anchor/parse_expr_unaryop", f.fn("parse_expr_unaryop", TY), "parse_expr_unaryop")
    enf = chk.anchor("C03.anchor/enforce_increment_type", f.fn("enforce_increment_type", TY), "enforce_increment_type")
    if not fn or not enf:
        return
    cfg = M.Cfg(fn)
    enf_calls = cfg.calls("enforce_increment_type")
    # the result of each call must go through `?` (Try::branch)
    branch_args = set()
    for bb, t in cfg.calls("branch"):
        for a in t["args"]:
            p = M.op_place(a)
            if p is not None:
                branch_args.add(p if isinstance(p, int) else p["l"])
    checked_calls = [bb for bb, t in enf_calls if (t["d"] if isinstance(t["d"], int) else t["d"]["l"]) in branch_args]
    for i, j, s in cfg.stmts(lambda s: s.get("r") == "Agg" and short(s.get("adt", "")) == "IntrinsicOp" and s.get("variant") in INCDEC):
        ok = any(cfg.dominates(cb, i) for cb in checked_calls)
        chk.ob("C03.incdec/" + s["variant"], ok, "enforce_increment_type(..)? dominates the node" if ok else
               "IntrinsicOp::%s is built without a propagated enforce_increment_type check" % s["variant"], where(fn, s.get("ln")),
               sample={"op": s["variant"], "checked": ok})
    chk.floor("C03.floor/incdec-checks", len(checked_calls), 4, "enforce_increment_type(..)? sites", where(fn))
    # enforce_increment_type: Err on Rvalue, const, Bool; Ok otherwise
    c2 = M.Cfg(enf)
    oks = [i for i, j, s in c2.stmts(lambda s: s.get("r") == "Agg" and short(s.get("adt", "")) == "Result" and s.get("variant") == "Ok")]
    okc = bool(oks) and all(M.dominated_by_guard(c2, b, M.is_field("is_const"), want=False)[0] for b in oks)
    chk.ob("C03.incdec/rejects-const", okc, "Ok only when !is_const" if okc else "enforce_increment_type accepts const operands", where(enf))
    rv = False
    for n in F.exprs(enf["thir"], "If"):
        c = F.strip(n["cond"])
        ads = [F.adt_ctor(a) for a in (c.get("args", []) if c.get("k") == "Call" else [c.get("l", {}), c.get("r", {})])]
        is_eq = (c.get("k") == "Call" and short(c.get("fn") or "") == "eq") or (c.get("k") == "Binary" and c.get("op") == "Eq")
        if is_eq and any(a and a[0] == "ValueType" and a[1] == "Rvalue" for a in ads):
            rv = any(a.get("variant") == "Err" for a in F.exprs(n["then"], "Adt") if short(a["adt"]) == "Result")
    chk.ob("C03.incdec/rejects-rvalue", rv, "`vt == Rvalue` -> Err" if rv else "enforce_increment_type no longer rejects rvalue operands", where(enf))
    bl = False
    for m in F.exprs(enf["thir"], "Match"):
        for arm in m["arms"]:
            p = arm["pat"]
            if F.pat_variant(p) == ("Option", "Some"):
                inner = F.pat_sub(p, "0")
                if inner and F.pat_variant(inner) == ("ScalarType", "Bool"):
                    bl = any(a.get("variant") == "Err" for a in F.exprs(arm["body"], "Adt") if short(a["adt"]) == "Result")
    chk.ob("C03.incdec/rejects-bool", bl, "bool operands rejected" if bl else "enforce_increment_type no longer rejects bool operands", where(enf))


def rule_conv_table(chk):
    """ImplicitConversion::find evaluated over a finite model of the type registry (convmodel.py): value categories,
    and const / volatile towards an lvalue destination."""
    import convmodel as CM
    f = chk.facts
    find = chk.anchor("C03.anchor/ImplicitConversion::find", f.fn("find", TY, self_ty="ImplicitConversion"), "ImplicitConversion::find")
    if not find:
        return
    cv = CM.Conversions(f)
    REF = {("Rvalue", "Lvalue"): "refuse", ("Rvalue", "Rvalue"): "none", ("Lvalue", "Lvalue"): "none", ("Lvalue", "Rvalue"): "cast"}
    for (s, d), want in sorted(REF.items()):
        r = cv.find("Float32", s, "Float32", d)
        if r[0] == "Err":
            got = "refuse"
        elif r[0] == "Ok":
            vtc, dc, rk, mc = cv.parts(r[1])
            got = "none" if vtc is None else ("cast" if vtc == ("Lvalue", "Rvalue") else "cast(wrong categories %s)" % (vtc,))
        else:
            got = "%s (%s)" % r
        chk.ob("C03.conv-table/%s-to-%s" % (s, d), got == want, "%s -> %s: %s" % (s, d, got) if got == want else
               "value-category conversion %s -> %s is '%s', must be '%s'" % (s, d, got, want), where(find), sample={"source": s, "dest": d, "result": got})
    for fld, m in (("is_const", 1), ("volatile", 2)):
        r_l = cv.find("Float32", "Lvalue", "Float32", "Lvalue", smod=m, dmod=0)
        r_r = cv.find("Float32", "Lvalue", "Float32", "Rvalue", smod=m, dmod=0)
        r_same = cv.find("Float32", "Lvalue", "Float32", "Lvalue", smod=m, dmod=m)
        ok = r_l[0] == "Err" and r_r[0] == "Ok" and r_same[0] == "Ok"
        chk.ob("C03.conv-table/keep-%s-on-lvalue" % fld, ok, "dropping %s towards an lvalue destination is refused (kept: accepted; towards an rvalue: accepted)" % fld if ok else
               "ImplicitConversion::find: %s source -> plain lvalue destination is %s (must be refused), -> rvalue is %s, -> same modifier is %s: an out/inout parameter can receive const / volatile data"
               % (fld, r_l[0], r_r[0], r_same[0]), where(find))


def rule_out(chk):
    f = chk.facts
    ip = I.Interp(f)
    cands = [b for b in f.by_name.get("from", []) if b["kind"] == "AssocFn" and short(b.get("self_ty", "")) == "ValueType"
             and "InputModifier" in (b["params"][0]["ty"] if b.get("params") else "")]
    fn = chk.anchor("C03.anchor/From<InputModifier>", cands[0] if len(cands) == 1 else None, "impl From<InputModifier> for ValueType")
    mods = f.variants("InputModifier", "rssl_ir")
    if fn and mods:
        REF = {"In": "Rvalue", "Out": "Lvalue", "InOut": "Lvalue"}
        for m in mods:
            try:
                r = ip.apply(fn, [I.Enum("InputModifier", m)])
                rv = r.variant if isinstance(r, I.Enum) else str(r)
            except I.Unknown as e:
                rv = "unreadable (%s)" % e
            want = REF.get(m)
            chk.ob("C03.out/%s" % m, want is None or rv == want, "%s parameter demands %s" % (m, rv) if rv == want else
                   "a parameter with modifier %s demands %s, must be %s" % (m, rv, want), where(fn), sample={"modifier": m, "value_type": rv})
    foc = chk.anchor("C03.anchor/find_overload_casts", f.fn("find_overload_casts", TY), "find_overload_casts")
    if foc:
        ok = False
        for a in F.exprs(foc["thir"], "Adt"):
            if short(a["adt"]) == "ExpressionType":
                flds = {x["f"]: x["e"] for x in a["fields"]}
                e1 = F.strip(flds.get("1", {}))
                if e1.get("k") == "Call" and short(e1.get("fn") or "") in ("into", "from"):
                    inner = F.strip(e1["args"][0])
                    ok = inner.get("k") == "Field" and inner["name"] == "input_modifier"
        chk.ob("C03.out/destination-category", ok, "destination ExpressionType takes its value category from the parameter's input_modifier" if ok else
               "find_overload_casts no longer derives the destination value category from input_modifier", where(foc))
        # every failed conversion rejects the overload
        cfg = M.Cfg(foc)
        pushes = [bb for bb, t in cfg.calls("Vec::<T, A>::push") if "ImplicitConversion" in str(t["f"])]
        finds = cfg.calls("ImplicitConversion::find")
        ok2 = bool(pushes) and bool(finds) and all(cfg.dominates(finds[0][0], b) for b in pushes)
        chk.ob("C03.out/each-argument-converted", ok2, "a cast is recorded per argument only after find succeeded" if ok2 else
               "find_overload_casts records casts without a successful ImplicitConversion::find", where(foc))


def rule_through(chk, binop_evaluated=False):
    """find => apply pairing by MIR slices. The operand-origin part for parse_expr_binop is the fallback of the evaluated
    table C03.elab/binop/* (which re-types every accepted node) and is skipped when that table was readable."""
    f = chk.facts
    find = f.fn("find", TY, self_ty="ImplicitConversion")
    app = f.fn("apply", TY, self_ty="ImplicitConversion")
    if not chk.anchor("C03.anchor/apply", app, "ImplicitConversion::apply") or not find:
        return
    per_fn = {}
    for b in f.crates[TY]["bodies"]:
        if "mir" not in b or b["path"].startswith("rssl_typer::casting"):
            continue
        cfg = M.Cfg(b)
        fc = [(bb, t) for bb, t in cfg.calls() if cfg.callee(t) == find["path"]]
        if not fc:
            continue
        owner = b.get("parent") or b["path"]
        per_fn[short(owner)] = per_fn.get(short(owner), 0) + len(fc)
        # each find result must reach an apply receiver or a push into a Vec<ImplicitConversion>
        consumers = set()
        for bb, t in cfg.calls():
            cal = cfg.callee(t)
            if cal == app["path"] or ((cal or "").endswith("Vec::<T, A>::push") and "ImplicitConversion" in str(t["f"])):
                for a in t["args"][:2]:
                    p = M.op_place(a)
                    if p is not None:
                        sig = cfg.slice([p if isinstance(p, int) else p["l"]], through_calls=True, stop_at_calls=("::apply",))
                        consumers |= sig.locals
        for bb, t in fc:
            d = t["d"] if isinstance(t["d"], int) else t["d"]["l"]
            ok = d in consumers
            chk.ob("C03.through/find-applied/%s" % short(owner), ok,
                   "the conversion found is applied" if ok else
                   "a conversion is looked up with ImplicitConversion::find but never applied to the expression (raw operand stored)",
                   where(b, t.get("ln")), sample={"fn": short(owner), "line": t.get("ln")})
    # every function that must convert its operands does so somewhere: itself or a private helper it calls
    for fn_name in FIND_FLOOR:
        fnb = f.fn(fn_name, TY)
        fam = F.family(f, fnb, depth=1) if fnb else []
        cnt = sum(1 for b2 in fam for c in F.exprs(b2["thir"], "Call") if (c.get("rfn") or c.get("fn")) == find["path"])
        chk.floor("C03.through/sites/" + fn_name, cnt, 1, "ImplicitConversion::find sites in %s (and the helpers it calls)" % fn_name, TY)
    chk.note("conversion sites: %s" % dict(sorted(per_fn.items())))
    # operands of the nodes built by parse_expr_binop originate from apply
    pb = f.fn("parse_expr_binop", TY)
    if pb and not binop_evaluated:
        tr = TF.Tracer(f, max_depth=1, no_inline=("::apply",))
        for a in F.exprs(pb["thir"], "Adt"):
            if short(a["adt"]) == "Expression" and a.get("variant") == "IntrinsicOp":
                vec = [x["e"] for x in a["fields"] if x["f"] == "1"]
                elems = []
                for arr in F.exprs(vec[0], "Array") if vec else []:
                    elems = arr["elems"]
                for i, e in enumerate(elems):
                    org = tr.trace(pb, e, ())
                    from_apply = any(o[0] == "call" and o[1] == app["path"] for o in org)
                    raw = [o for o in org if o[0] == "call" and short(o[1]).startswith("parse_expr")]
                    # operand 0 of assignments is the raw lvalue by design
                    opf = [x["e"] for x in a["fields"] if x["f"] == "0"]
                    op_ctors = {o[2] for o in tr.trace(pb, opf[0], ()) if o[0] == "ctor" and o[1] == "IntrinsicOp"} if opf else set()
                    is_assign_node = bool(op_ctors) and all(v in ASSIGN_OPS for v in op_ctors)
                    ok = from_apply or (i == 0 and is_assign_node and bool(raw or org))
                    chk.ob("C03.through/binop-operand-%d" % i, ok, "operand %d comes from ImplicitConversion::apply%s" % (i, "" if from_apply else " (assignment target: raw lvalue by design)") if ok else
                           "operand %d of a binary IntrinsicOp is stored without conversion (origins: %s)" % (i, sorted({TF.describe(o) for o in org})[:4]),
                           where(pb, a))


def rule_total(chk):
    f = chk.facts
    for fn_name, self_ty, adt, crate in (("get_type", "Expression", "ir_expressions::Expression", "rssl_ir"),
                                         ("get_return_type", "IntrinsicOp", "intrinsics::IntrinsicOp", "rssl_ir")):
        fn = f.fn(fn_name, "rssl_ir", self_ty=self_ty)
        vs = f.variants(adt, crate)
        if not chk.anchor("C03.anchor/%s::%s" % (self_ty, fn_name), fn if vs else None, "%s::%s" % (self_ty, fn_name)):
            continue
        ms = F.find_matches(fn, self_ty)
        if not ms:
            chk.ob("C03.total/" + fn_name, False, "anchor-missing: match over %s" % self_ty, where(fn))
            continue
        m = max(ms, key=lambda m: len(m["arms"]))
        covered, catch = set(), False
        for arm in m["arms"]:
            for alt in F.pat_alternatives(arm["pat"]):
                pv = F.pat_variant(alt)
                if pv:
                    covered.add(pv[1])
                elif F.pat_is_catchall(alt):
                    catch = True
        missing = [v for v in vs if v not in covered]
        chk.ob("C03.total/%s" % fn_name, not missing and not catch,
               "explicit typing rule for all %d %s variants" % (len(vs), self_ty) if not missing and not catch else
               "%s::%s has no explicit arm for %s%s: a node without a typing rule can enter the IR" % (self_ty, fn_name, missing, " (catch-all present)" if catch else ""),
               where(fn, m), sample={"variants": len(vs), "covered": len(covered)})


def rule_swizzle_value_type(chk):
    """A swizzle that names a component twice is not assignable: get_swizzle_value_type / get_matrix_swizzle_value_type
    read as finite maps over all slot sequences of length 1..4 (340 / 4 368 sequences): Rvalue iff a slot repeats."""
    import itertools
    f = chk.facts
    ip = I.Interp(f)
    for name, adt, slots in (("get_swizzle_value_type", "SwizzleSlot", None), ("get_matrix_swizzle_value_type", "MatrixSwizzleSlot", None)):
        fn = chk.anchor("C03.anchor/" + name, f.fn(name, "rssl_ir"), name)
        if not fn:
            continue
        if adt == "SwizzleSlot":
            vs = f.variants("SwizzleSlot", "rssl_ir") or []
            dom = [I.Enum("SwizzleSlot", v) for v in vs]
        else:
            ci = f.variants("ComponentIndex", "rssl_ir") or []
            dom = [I.Enum("MatrixSwizzleSlot", None, {"0": I.Enum("ComponentIndex", a), "1": I.Enum("ComponentIndex", b)}) for a in ci[:3] for b in ci[:2]]
        bad = []
        n = 0
        for ln in (1, 2, 3, 4):
            for seq in itertools.product(dom, repeat=ln):
                for vt in ("Lvalue", "Rvalue"):
                    n += 1
                    try:
                        r = ip.apply(fn, [list(seq), I.Enum("ValueType", vt)])
                        got = r.variant if isinstance(r, I.Enum) else str(r)
                    except I.Unknown as e:
                        got = "unreadable (%s)" % e
                    dup = len(set(map(repr, seq))) < len(seq)
                    want = "Rvalue" if dup else vt
                    if got != want and len(bad) < 3:
                        bad.append((".".join(repr(s).split("::")[-1] for s in seq), vt, got, want))
                    elif got != want:
                        bad.append(None)
        chk.ob("C03.swizzle/%s" % name, not bad,
               "%d slot sequences: a repeated component makes the swizzle an rvalue, otherwise the value category is kept" % n if not bad else
               "%s: %d of %d slot sequences get the wrong value category, e.g. swizzle %s of an %s is %s (must be %s): a repeated component becomes assignable"
               % ((name, len(bad), n) + tuple(bad[0])), where(fn), sample={"fn": name, "sequences": n, "wrong": len(bad)})


def matrix_subscript_names(x, y):
    """element-name strings for a matrix of x rows and y columns: every single `_mRC` / `_RC` with digits 0..5, pairs and
    quadruples built from them, both notations mixed, and malformed spellings"""
    singles = ["_m%d%d" % (a, b) for a in range(5) for b in range(5)] + ["_%d%d" % (a, b) for a in range(6) for b in range(6)]
    out = list(singles)
    for s in singles:
        m = s.startswith("_m")
        out.append(s + ("_m00" if m else "_11"))
        out.append(("_m00" if m else "_11") + s)
        out.append(s + ("_11" if m else "_m00"))
    out += ["_m00_m00_m00_m00", "_11_11_11_11", "_m00_m00_m00_m00_m00", "_11_11_11_11_11", "", "_", "_m", "_m0", "_1", "m00", "11", "_m000", "_111",
            "_m00_", "_m00_m", "_x", "_m0a", "__11", "_M00"]
    return out


def matrix_subscript_reference(x, y, s):
    """-> list of (row, column) or None when the name is not an element list of an x by y matrix"""
    import re
    if re.fullmatch(r"(_m[0-3][0-3]){1,4}", s):
        slots = [(int(s[i + 2]), int(s[i + 3])) for i in range(0, len(s), 4)]
    elif re.fullmatch(r"(_[1-4][1-4]){1,4}", s):
        slots = [(int(s[i + 1]) - 1, int(s[i + 2]) - 1) for i in range(0, len(s), 3)]
    else:
        return None
    if any(r >= x or c >= y for r, c in slots):
        return None
    return slots


def rule_matrix_subscript(chk):
    """Named matrix elements (`m._m12`, `m._23`, up to four of them): read_matrix_subscript read as a finite map over all
    16 matrix shapes x 150 element-name strings: a name is accepted exactly when every element lies inside the matrix
    (row digit below the row count, column digit below the column count), and the slots it yields are those elements."""
    f = chk.facts
    fn = chk.anchor("C03.anchor/read_matrix_subscript", f.fn("read_matrix_subscript", TY), "read_matrix_subscript")
    if not fn:
        return
    ci = f.variants("ComponentIndex", "rssl_ir") or []
    if not chk.anchor("C03.anchor/ComponentIndex", ci if len(ci) == 4 else None, "ComponentIndex with four variants", where(fn)):
        return
    ip = I.Interp(f)
    loc = lambda v: I.Enum("Located", None, {"node": v, "location": I.Opaque("location")})
    n = 0
    bad = []
    for x in (1, 2, 3, 4):
        for y in (1, 2, 3, 4):
            for s in matrix_subscript_names(x, y):
                n += 1
                want = matrix_subscript_reference(x, y, s)
                try:
                    r = ip.apply(fn, [I.Opaque("matrix type"), x, y, loc(s)])
                except I.Unknown as e:
                    return chk.unreadable("C03.matrix-elements/bounds", "read_matrix_subscript", e, where(fn))
                got = None
                if isinstance(r, I.Enum) and r.variant == "Ok" and isinstance(r.fields.get("0"), list):
                    got = []
                    for sl in r.fields["0"]:
                        a, b = sl.fields.get("0"), sl.fields.get("1")
                        got.append((ci.index(a.variant), ci.index(b.variant)) if isinstance(a, I.Enum) and isinstance(b, I.Enum) and a.variant in ci and b.variant in ci else None)
                elif not (isinstance(r, I.Enum) and r.variant == "Err"):
                    got = "?"
                if got != want:
                    bad.append((x, y, s, got, want))
    why = "%d (shape, name) pairs: exactly the names whose elements lie inside the matrix are accepted, with those elements" % n
    if bad:
        x, y, s, got, want = bad[0]
        why = "`m.%s` on a %dx%d matrix %s; %s (%d of %d pairs differ): an element outside the operand's type enters the IR, or a valid one is refused" % (
            s, x, y, "is accepted as elements %s" % got if got is not None else "is refused",
            "it names %s" % ("elements %s" % want if want is not None else "no element list of that matrix"), len(bad), n)
    chk.ob("C03.matrix-elements/bounds", not bad, why, where(fn), sample={"pairs": n, "wrong": len(bad)})


def rule_lvalue_destination(chk, prefix="C03.lvalue-dest"):
    """out / inout arguments bind by reference: ImplicitConversion::find evaluated (convmodel.py) for an Lvalue source and
    an Lvalue destination over scalar / vector / matrix shapes of two element types: a conversion is granted only between
    identical types or between T and vector<T,1>, never across element types or dimensions (those need a temporary,
    which is an rvalue)."""
    import convmodel as CM
    f = chk.facts
    find = chk.anchor(prefix.split(".")[0] + ".anchor/ImplicitConversion::find", f.fn("find", TY, self_ty="ImplicitConversion"), "ImplicitConversion::find")
    if not find:
        return
    cv = CM.Conversions(f)
    shapes = ["%s", "%s1", "%s2", "%s3", "%s4", "%s2x2", "%s4x4", "%s3x4"]
    n = 0
    bad = []
    for ea in ("Float32", "Int32"):
        for eb in ("Float32", "Int32"):
            for sa in shapes:
                for sb in shapes:
                    src, dst = sa % ea, sb % eb
                    n += 1
                    r = cv.find(src, "Lvalue", dst, "Lvalue")
                    if r[0] in ("unreadable", "aborts"):
                        chk.ob(prefix + "/readable", False, "find(%s -> %s) is %s: %s" % (src, dst, r[0], r[1]), where(find))
                        return
                    identical = src == dst
                    wrap = ea == eb and {sa, sb} == {"%s", "%s1"}
                    if r[0] == "Ok" and not (identical or wrap):
                        bad.append("%s -> %s" % (src, dst))
                    if r[0] == "Err" and (identical or wrap):
                        bad.append("%s -> %s refused" % (src, dst))
    chk.ob(prefix + "/no-conversion", not bad,
           "%d type pairs: an lvalue destination accepts only the identical type or T <-> vector<T,1>" % n if not bad else
           "ImplicitConversion::find for an LVALUE destination: %s (%d case(s)): an out/inout parameter then binds to a converted temporary, i.e. an ill-typed call is accepted"
           % (bad[0], len(bad)), where(find), sample={"cases": n, "wrong": bad[:6]})
